// cdiverif decides structural obligations behind the properties C01..C20 of
// the container-device-interface repository by static analysis of its source.
package main

import (
	"encoding/json"
	"flag"
	"fmt"
	"os"
	"path/filepath"
	"sort"
	"strconv"
	"strings"

	"golang.org/x/tools/go/ssa"

	"cdiverif/internal/ir"
	"cdiverif/internal/report"
	"cdiverif/internal/rules"
)

func main() {
	var (
		repo     = flag.String("repo", "/repo", "repository root to analyse")
		prop     = flag.String("prop", "", "property id (C01..C20)")
		tier     = flag.String("tier", "quick", "quick | thorough")
		evidence = flag.String("evidence", "", "evidence file to write")
		known    = flag.String("known", "", "known findings file")
		dump     = flag.String("dump", "", "debug: effects|paths|ssa|funcs:<pkg.func>")
		goos     = flag.String("goos", "linux", "GOOS of the main build configuration")
		extra    = flag.String("extra", "", "JSON file with extra coverage keys to merge into the evidence (fixtures/mutants results)")
	)
	flag.Parse()

	root, err := filepath.Abs(*repo)
	if err != nil {
		fatal(*prop, "bad -repo: %v", err)
	}
	seed := int64(0)
	if s := os.Getenv("VERIF_SEED"); s != "" {
		if v, err := strconv.ParseInt(s, 10, 64); err == nil {
			seed = v
		}
	}

	ir.KnownFuncs = rules.KnownFuncs()
	ir.KnownSigs = rules.KnownSigs()
	ir.Known = rules.KnownSymbols()
	if *dump == "knownsymbols" {
		ir.Known = nil
		ir.KnownFuncs = nil
	}
	if os.Getenv("CDIVERIF_NONORM") != "" {
		ir.NormalizeCFG = false
	}
	if *dump == "knownfuncs" {
		ir.KnownFuncs = nil
	}
	load := func(dir, goos string, patterns ...string) (*ir.Universe, error) {
		return ir.Load(root, filepath.Join(root, dir), goos, patterns...)
	}

	if *dump != "" {
		u, err := load("cmd/cdi", *goos, ir.ModulePrefix+"/...")
		if err != nil {
			fatal("", "%v", err)
		}
		doDump(u, *dump)
		return
	}

	p := rules.Lookup(*prop)
	if p == nil {
		fatal(*prop, "unknown property %q (have %v)", *prop, rules.IDs())
	}
	r := report.New(p.ID, *tier, seed)
	r.Explanation = p.Explanation
	r.Assumptions = p.Assumptions

	kn, err := report.LoadKnown(*known)
	if err != nil {
		fatal(*prop, "%v", err)
	}

	configs := []string{*goos}
	if *tier == "thorough" {
		configs = append(configs, p.OtherGOOS...)
	}
	analysed := []interface{}{}
	for _, cfg := range configs {
		u, err := load("cmd/cdi", cfg, ir.ModulePrefix+"/...")
		if err != nil {
			r.Config = cfg
			r.Undecided("load", "load:"+cfg, "", err.Error())
			continue
		}
		r.Config = cfg
		c := &rules.Ctx{U: u, Root: root, Tier: *tier, R: r, LoadOther: load}
		func() {
			defer func() {
				if x := recover(); x != nil {
					r.Undecided("panic", "analyser-panic:"+cfg, "", fmt.Sprintf("analyser panicked: %v", x))
					if os.Getenv("CDIVERIF_DEBUG") != "" {
						panic(x)
					}
				}
			}()
			p.Run(c)
		}()
		pk := []string{}
		for path := range u.Pkgs {
			pk = append(pk, path)
		}
		sort.Strings(pk)
		analysed = append(analysed, map[string]interface{}{
			"GOOS": cfg, "packages": pk, "repo_functions": len(u.RepoFuncs()), "helpers_expanded": inlinedList(u), "renamed": u.Renamed,
		})
	}
	r.Analysed["build_configurations"] = analysed

	extraCov := map[string]interface{}{}
	if *extra != "" {
		if err := readJSON(*extra, &extraCov); err != nil {
			fatal(*prop, "bad -extra: %v", err)
		}
	}
	res := r.Finish(*evidence, kn, extraCov)
	os.Exit(res.ExitCode)
}

func inlinedList(u *ir.Universe) []string {
	out := []string{}
	for _, r := range u.Inlined {
		out = append(out, r.Callee+" into "+r.Caller+" at "+r.Pos)
	}
	return out
}

func fatal(prop, format string, args ...interface{}) {
	fmt.Fprintf(os.Stderr, "cdiverif: "+format+"\n", args...)
	if prop != "" {
		fmt.Printf("VIOLATION property=%s replay=none (checker could not run: %s)\n", prop, fmt.Sprintf(format, args...))
	}
	os.Exit(1)
}

func doDump(u *ir.Universe, what string) {
	kind, name, _ := strings.Cut(what, ":")
	if kind == "knownsymbols" {
		ks := ir.SymbolsOf(u.Pkgs)
		ks.Closures = u.ClosureParams()
		data, _ := json.MarshalIndent(ks, "", " ")
		fmt.Println(string(data))
		return
	}
	if kind == "knownfuncs" {
		for _, k := range u.FuncKeys() {
			fmt.Println(k)
		}
		return
	}
	if kind == "funcs" {
		for _, f := range u.RepoFuncs() {
			fmt.Println(u.ShortName(f))
		}
		return
	}
	vname := ""
	if i := strings.LastIndex(name, "@"); i >= 0 {
		vname, name = name[i+1:], name[:i]
	}
	pkg, fname, _ := strings.Cut(name, ".")
	fn := u.Func(pkg, fname)
	if fn == nil {
		fmt.Println("no such function", name)
		os.Exit(2)
	}
	switch kind {
	case "ssa":
		for _, f := range ir.WithClosures(fn) {
			f.WriteTo(os.Stdout)
		}
	case "effects":
		e := u.EffectsOf(fn)
		for _, w := range e.Writes {
			fmt.Printf("WRITE %-60s %-10s at %s deep %s via %v\n", w.Path, w.Kind, u.InstrPos(w.Site), u.InstrPos(w.Deep), w.Chain)
		}
		for _, o := range e.Opaque {
			fmt.Printf("OPAQUE %s at %s args %v\n", o.Callee, u.InstrPos(o.Site), ir.PathStrings(o.Args))
		}
	case "one":
		for _, b := range fn.Blocks {
			for _, in := range b.Instrs {
				if v, ok := in.(ssa.Value); ok && v.Name() == vname {
					fmt.Println(v.Name(), in.String(), ir.PathStrings(u.PathsOf(v)))
				}
			}
		}
	case "exprs":
		rules.DumpExprGuards(u, fn)
	case "sites":
		rules.DumpSites(u, fn)
	case "paths":
		for _, f := range ir.WithClosures(fn) {
			fmt.Println("==", u.ShortName(f))
			for _, b := range f.Blocks {
				for _, in := range b.Instrs {
					if v, ok := in.(ssa.Value); ok {
						fmt.Printf("  %-8s = %-50s %v\n", v.Name(), trunc(in.String(), 50), ir.PathStrings(u.PathsOf(v)))
					} else if st, ok := in.(*ssa.Store); ok {
						fmt.Printf("  store %-50s -> %v\n", trunc(in.String(), 50), ir.PathStrings(u.AddrPaths(st.Addr)))
					}
				}
			}
		}
	}
}

func trunc(s string, n int) string {
	if len(s) > n {
		return s[:n]
	}
	return s
}

func readJSON(path string, into interface{}) error {
	data, err := os.ReadFile(path)
	if err != nil {
		return err
	}
	return json.Unmarshal(data, into)
}
