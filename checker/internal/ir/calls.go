package ir

import (
	"go/types"
	"strings"

	"golang.org/x/tools/go/ssa"
)

// unwrap maps synthetic wrappers (bound method closures, thunks, interface
// method wrappers) to the declared function they forward to.
func (u *Universe) unwrap(fn *ssa.Function) *ssa.Function {
	if fn == nil {
		return nil
	}
	if u.ExpandedWrappers[fn] {
		return fn
	}
	if fn.Synthetic != "" && fn.Parent() == nil {
		if strings.HasPrefix(fn.Synthetic, "bound method wrapper") ||
			strings.HasPrefix(fn.Synthetic, "wrapper for") ||
			strings.HasPrefix(fn.Synthetic, "thunk for") {
			if o, ok := fn.Object().(*types.Func); ok && o != nil {
				if real := u.Prog.FuncValue(o); real != nil && real != fn {
					return real
				}
			}
		}
	}
	return fn
}

// StaticCallee resolves the callee of a call when it is determined without
// looking at other functions' call sites: direct calls, method calls on
// concrete types, calls of closures held in local variables (also when the
// variable is captured by the calling closure), bound method values.
func (u *Universe) StaticCallee(c ssa.CallInstruction) *ssa.Function {
	cc := c.Common()
	if cc.IsInvoke() {
		return nil
	}
	if f := cc.StaticCallee(); f != nil {
		return u.unwrap(f)
	}
	fs := u.funcValues(cc.Value, false, map[ssa.Value]bool{})
	if len(fs) == 1 {
		return fs[0]
	}
	return nil
}

// Callees resolves the possible callees of a call: the static callee, or for
// function values everything FuncValues finds (parameters are traced to the
// arguments of all call sites), or for interface method calls the methods of
// all repository types implementing the interface (CHA restricted to the
// repository) plus a marker nil when types outside may implement it.
func (u *Universe) Callees(c ssa.CallInstruction) []*ssa.Function {
	cc := c.Common()
	if cc.IsInvoke() {
		return u.invokeTargets(cc)
	}
	if f := cc.StaticCallee(); f != nil {
		return []*ssa.Function{u.unwrap(f)}
	}
	return u.FuncValues(cc.Value)
}

// invokeTargets: implementations of the invoked method among all named types
// of the whole program (dependencies included), cheap CHA.
func (u *Universe) invokeTargets(cc *ssa.CallCommon) []*ssa.Function {
	iface, _ := cc.Value.Type().Underlying().(*types.Interface)
	if iface == nil {
		return nil
	}
	var out []*ssa.Function
	seen := map[*ssa.Function]bool{}
	for _, sp := range u.Prog.AllPackages() {
		for _, m := range sp.Members {
			t, ok := m.(*ssa.Type)
			if !ok {
				continue
			}
			for _, typ := range []types.Type{t.Type(), types.NewPointer(t.Type())} {
				if _, isIface := typ.Underlying().(*types.Interface); isIface {
					continue
				}
				if !types.Implements(typ, iface) {
					continue
				}
				sel := u.Prog.MethodSets.MethodSet(typ).Lookup(cc.Method.Pkg(), cc.Method.Name())
				if sel == nil {
					continue
				}
				if f := u.unwrap(u.Prog.MethodValue(sel)); f != nil && !seen[f] {
					seen[f] = true
					out = append(out, f)
				}
			}
		}
	}
	return out
}

// FuncValues finds the functions a func-typed value may hold. Parameters are
// traced through the arguments of every static call site of their function.
// An unresolvable source contributes nothing; use FuncValuesComplete to learn
// whether the answer is complete.
func (u *Universe) FuncValues(v ssa.Value) []*ssa.Function {
	return u.funcValues(v, true, map[ssa.Value]bool{})
}

func (u *Universe) funcValues(v ssa.Value, interproc bool, seen map[ssa.Value]bool) []*ssa.Function {
	if v == nil || seen[v] {
		return nil
	}
	seen[v] = true
	add := func(dst []*ssa.Function, more ...*ssa.Function) []*ssa.Function {
	next:
		for _, m := range more {
			if m == nil {
				continue
			}
			for _, d := range dst {
				if d == m {
					continue next
				}
			}
			dst = append(dst, m)
		}
		return dst
	}
	var out []*ssa.Function
	switch x := v.(type) {
	case *ssa.Function:
		out = add(out, u.unwrap(x))
	case *ssa.MakeClosure:
		if f, ok := x.Fn.(*ssa.Function); ok {
			out = add(out, u.unwrap(f))
		}
	case *ssa.Phi:
		for _, e := range x.Edges {
			out = add(out, u.funcValues(e, interproc, seen)...)
		}
	case *ssa.ChangeType:
		out = add(out, u.funcValues(x.X, interproc, seen)...)
	case *ssa.MakeInterface:
		out = add(out, u.funcValues(x.X, interproc, seen)...)
	case *ssa.TypeAssert:
		out = add(out, u.funcValues(x.X, interproc, seen)...)
	case *ssa.UnOp:
		if x.Op.String() == "*" {
			for _, sv := range u.StoredValues(x.X) {
				out = add(out, u.funcValues(sv, interproc, seen)...)
			}
		}
	case *ssa.Extract:
		switch t := x.Tuple.(type) {
		case *ssa.Next:
			// range over a map/slice of funcs: element values
			if r, ok := t.Iter.(*ssa.Range); ok && x.Index == 2 {
				for _, ev := range u.ContainerElems(r.X) {
					out = add(out, u.funcValues(ev, interproc, seen)...)
				}
			}
		case *ssa.Lookup:
			if x.Index == 0 {
				for _, ev := range u.ContainerElems(t.X) {
					out = add(out, u.funcValues(ev, interproc, seen)...)
				}
			}
		}
	case *ssa.Lookup:
		for _, ev := range u.ContainerElems(x.X) {
			out = add(out, u.funcValues(ev, interproc, seen)...)
		}
	case *ssa.Parameter:
		if !interproc {
			return nil
		}
		fn := x.Parent()
		idx := -1
		for i, p := range fn.Params {
			if p == x {
				idx = i
			}
		}
		if idx < 0 {
			return nil
		}
		for _, site := range u.CallSitesOf(fn) {
			args := site.Common().Args
			if idx < len(args) {
				out = add(out, u.funcValues(args[idx], interproc, seen)...)
			}
		}
	case *ssa.FreeVar:
		for _, b := range u.FreeVarBindings(x) {
			out = add(out, u.funcValues(b, interproc, seen)...)
		}
	case *ssa.Call:
		// a function returning a function (e.g. an option constructor)
		if callee := u.StaticCallee(x); callee != nil && len(callee.Blocks) > 0 {
			for _, r := range NormalReturns(callee) {
				if len(r.Results) >= 1 {
					out = add(out, u.funcValues(ReturnResult(r, 0), interproc, seen)...)
				}
			}
		}
	}
	return out
}

// FreeVarBindings returns, for a free variable of a closure, the values bound
// to it at every MakeClosure of that closure.
func (u *Universe) FreeVarBindings(fv *ssa.FreeVar) []ssa.Value {
	fn := fv.Parent()
	idx := -1
	for i, f := range fn.FreeVars {
		if f == fv {
			idx = i
		}
	}
	if idx < 0 {
		return nil
	}
	var out []ssa.Value
	for _, mc := range u.closureOf[fn] {
		if idx < len(mc.Bindings) {
			out = append(out, mc.Bindings[idx])
		}
	}
	return out
}

// CellOf follows free variables up to the value bound in the defining
// function (usually the *ssa.Alloc of a captured variable).
func (u *Universe) CellOf(v ssa.Value) ssa.Value {
	for i := 0; i < 8; i++ {
		fv, ok := v.(*ssa.FreeVar)
		if !ok {
			return v
		}
		bs := u.FreeVarBindings(fv)
		if len(bs) != 1 {
			return v
		}
		v = bs[0]
	}
	return v
}

// StoredValues returns every value stored directly to the memory cell addr
// designates, when that cell is a local variable (Alloc, also when captured
// by closures) or a package-level variable. For other addresses it returns
// nil.
func (u *Universe) StoredValues(addr ssa.Value) []ssa.Value {
	cell := u.CellOf(addr)
	var out []ssa.Value
	switch c := cell.(type) {
	case *ssa.Alloc:
		for _, fn := range WithClosures(c.Parent()) {
			for _, b := range fn.Blocks {
				for _, in := range b.Instrs {
					if st, ok := in.(*ssa.Store); ok && u.CellOf(st.Addr) == cell {
						out = append(out, st.Val)
					}
				}
			}
		}
	case *ssa.Global:
		for _, fn := range u.repoFuncs {
			for _, b := range fn.Blocks {
				for _, in := range b.Instrs {
					if st, ok := in.(*ssa.Store); ok && st.Addr == cell {
						out = append(out, st.Val)
					}
				}
			}
		}
	}
	return out
}

// ContainerElems returns the element values put into a map or slice value by
// MapUpdate / composite literal stores, when the container is built locally
// or held in a package-level variable initialised by such a literal.
func (u *Universe) ContainerElems(c ssa.Value) []ssa.Value {
	var out []ssa.Value
	seen := map[ssa.Value]bool{}
	var srcs func(v ssa.Value) []ssa.Value
	srcs = func(v ssa.Value) []ssa.Value {
		if v == nil || seen[v] {
			return nil
		}
		seen[v] = true
		switch x := v.(type) {
		case *ssa.MakeMap, *ssa.MakeSlice, *ssa.Alloc:
			return []ssa.Value{v}
		case *ssa.UnOp:
			if x.Op.String() == "*" {
				var r []ssa.Value
				for _, sv := range u.StoredValues(x.X) {
					r = append(r, srcs(sv)...)
				}
				return r
			}
		case *ssa.Phi:
			var r []ssa.Value
			for _, e := range x.Edges {
				r = append(r, srcs(e)...)
			}
			return r
		case *ssa.ChangeType:
			return srcs(x.X)
		case *ssa.Slice:
			return srcs(x.X)
		case *ssa.Call:
			// append(a, b...): the elements of both
			if BuiltinName(x) == "append" && len(x.Call.Args) == 2 {
				return append(srcs(x.Call.Args[0]), srcs(x.Call.Args[1])...)
			}
		case *ssa.Parameter:
			return nil
		}
		return nil
	}
	for _, s := range srcs(c) {
		refs := s.Referrers()
		if refs == nil {
			continue
		}
		for _, r := range *refs {
			switch y := r.(type) {
			case *ssa.MapUpdate:
				if y.Map == s {
					out = append(out, y.Value)
				}
			case *ssa.IndexAddr:
				if y.X == s && y.Referrers() != nil {
					for _, rr := range *y.Referrers() {
						if st, ok := rr.(*ssa.Store); ok && st.Addr == y {
							out = append(out, st.Val)
						}
					}
				}
			}
		}
	}
	return out
}

// MapLiteralKeys returns the keys put into a map by MapUpdate when the map is
// built locally or is a package-level variable initialised by a literal.
func (u *Universe) MapLiteralKeys(c ssa.Value) []ssa.Value {
	var out []ssa.Value
	var makes []ssa.Value
	seen := map[ssa.Value]bool{}
	var srcs func(v ssa.Value)
	srcs = func(v ssa.Value) {
		if v == nil || seen[v] {
			return
		}
		seen[v] = true
		switch x := v.(type) {
		case *ssa.MakeMap:
			makes = append(makes, v)
		case *ssa.UnOp:
			if x.Op.String() == "*" {
				for _, sv := range u.StoredValues(x.X) {
					srcs(sv)
				}
			}
		case *ssa.Phi:
			for _, e := range x.Edges {
				srcs(e)
			}
		case *ssa.ChangeType:
			srcs(x.X)
		case *ssa.Global:
			for _, sv := range u.StoredValues(x) {
				srcs(sv)
			}
		}
	}
	srcs(c)
	for _, s := range makes {
		if s.Referrers() == nil {
			continue
		}
		for _, r := range *s.Referrers() {
			if y, ok := r.(*ssa.MapUpdate); ok && y.Map == s {
				out = append(out, y.Key)
			}
		}
	}
	return out
}

// CallSitesOf lists the call instructions (call, go, defer) in repository code
// whose statically resolved callee is fn.
func (u *Universe) CallSitesOf(fn *ssa.Function) []ssa.CallInstruction {
	return u.callers[fn]
}

// Calls lists the call instructions of fn in block/instruction order.
func Calls(fn *ssa.Function) []ssa.CallInstruction {
	var out []ssa.CallInstruction
	for _, b := range fn.Blocks {
		for _, in := range b.Instrs {
			if c, ok := in.(ssa.CallInstruction); ok {
				out = append(out, c)
			}
		}
	}
	return out
}

// CalleeIs reports whether the call's resolved callee is pkgPath.name, where
// name is "Func" or "(*T).Method"/"(T).Method"; pkgPath may be an alias.
func (u *Universe) CalleeIs(c ssa.CallInstruction, pkgPath, name string) bool {
	if full, ok := PkgAlias[pkgPath]; ok {
		pkgPath = full
	}
	cc := c.Common()
	if cc.IsInvoke() {
		// interface method: match "(Iface).Method" by interface's named type
		if !strings.HasPrefix(name, "(") {
			return false
		}
		n := NamedOf(cc.Value.Type())
		if n == nil || n.Obj().Pkg() == nil {
			return false
		}
		return n.Obj().Pkg().Path() == pkgPath && "("+n.Obj().Name()+")."+cc.Method.Name() == name
	}
	f := u.StaticCallee(c)
	if f == nil {
		return false
	}
	return FuncIs(f, pkgPath, name)
}

// FuncIs reports whether fn is pkgPath.name (see CalleeIs).
func FuncIs(fn *ssa.Function, pkgPath, name string) bool {
	if fn == nil {
		return false
	}
	if full, ok := PkgAlias[pkgPath]; ok {
		pkgPath = full
	}
	var pkg *types.Package
	if fn.Pkg != nil {
		pkg = fn.Pkg.Pkg
	} else if o := fn.Object(); o != nil {
		pkg = o.Pkg()
	} else if og := fn.Origin(); og != nil && og.Pkg != nil {
		pkg = og.Pkg.Pkg
	}
	if pkg == nil || pkg.Path() != pkgPath {
		return false
	}
	rel := fn.RelString(pkg)
	if a, ok := Aliases[fn]; ok {
		rel = a
	}
	if i := strings.Index(rel, "["); i >= 0 && fn.Origin() != nil {
		rel = rel[:i] // generic instantiation: compare the origin's name
	}
	return rel == name
}

// BuiltinName returns the name of the builtin called, or "".
func BuiltinName(c ssa.CallInstruction) string {
	if b, ok := c.Common().Value.(*ssa.Builtin); ok {
		return b.Name()
	}
	return ""
}

// Reach returns the set of functions reachable from the roots through
// resolved calls (static callees, function values, repository-implemented
// interface methods), restricted to functions for which keep returns true
// (nil: repository functions only). Closures created by a reachable function
// are considered reachable.
func (u *Universe) Reach(roots []*ssa.Function, keep func(*ssa.Function) bool) map[*ssa.Function]bool {
	if keep == nil {
		keep = u.IsRepoFunc
	}
	seen := map[*ssa.Function]bool{}
	var work []*ssa.Function
	push := func(f *ssa.Function) {
		if f == nil || seen[f] || !keep(f) {
			return
		}
		seen[f] = true
		work = append(work, f)
	}
	for _, r := range roots {
		push(r)
	}
	for len(work) > 0 {
		fn := work[len(work)-1]
		work = work[:len(work)-1]
		for _, b := range fn.Blocks {
			for _, in := range b.Instrs {
				switch x := in.(type) {
				case ssa.CallInstruction:
					for _, c := range u.Callees(x) {
						push(c)
					}
				case *ssa.MakeClosure:
					if f, ok := x.Fn.(*ssa.Function); ok {
						push(f)
					}
				}
			}
		}
	}
	return seen
}
