package ir

import (
	"go/token"

	"golang.org/x/tools/go/ssa"
)

// ForwardCellLoads: a local variable that a closure captures lives in a memory cell
// (go/ssa: an Alloc read and written through loads and stores) although the enclosing
// function may use it exactly like a register variable. When every closure that captures
// the cell only reads it, a load in the enclosing function that follows a store to the
// cell in the same block (nothing in between can write the cell) yields the stored value:
// the load's uses are redirected to it. `err = f(); if err != nil` then tests f's result
// again, whether or not a deferred clean-up also looks at err. The loads and stores stay
// in place (the closures still read the cell). Returns the number of forwarded loads.
func ForwardCellLoads(fn *ssa.Function) int {
	n := 0
	repl := map[ssa.Value]ssa.Value{}
	for _, b := range fn.Blocks {
		for _, in := range b.Instrs {
			cell, ok := in.(*ssa.Alloc)
			if !ok || !readOnlyCaptured(cell) {
				continue
			}
			for _, bb := range fn.Blocks {
				var cur ssa.Value
				for _, x := range bb.Instrs {
					switch y := x.(type) {
					case *ssa.Store:
						if y.Addr == ssa.Value(cell) {
							cur = y.Val
						}
					case *ssa.UnOp:
						if y.Op == token.MUL && y.X == ssa.Value(cell) && cur != nil {
							repl[y] = cur
							n++
						}
					}
				}
			}
		}
	}
	if n == 0 {
		return 0
	}
	res := func(v ssa.Value) ssa.Value {
		for i := 0; i < 32; i++ {
			nv, ok := repl[v]
			if !ok {
				return v
			}
			v = nv
		}
		return v
	}
	for _, b := range fn.Blocks {
		for _, in := range b.Instrs {
			for _, op := range in.Operands(nil) {
				if *op != nil {
					if _, ok := repl[*op]; ok {
						*op = res(*op)
					}
				}
			}
		}
	}
	rebuildReferrers(fn)
	return n
}

// readOnlyCaptured: the cell is captured by at least one closure, every capturing closure
// only loads it, and in the allocating function its address is used only by stores to it,
// loads from it and the captures.
func readOnlyCaptured(cell *ssa.Alloc) bool {
	if cell.Referrers() == nil {
		return false
	}
	captured := false
	for _, r := range *cell.Referrers() {
		switch x := r.(type) {
		case *ssa.Store:
			if x.Addr != ssa.Value(cell) {
				return false
			}
		case *ssa.UnOp:
			if x.Op != token.MUL {
				return false
			}
		case *ssa.DebugRef:
		case *ssa.MakeClosure:
			cl, ok := x.Fn.(*ssa.Function)
			if !ok {
				return false
			}
			for i, bv := range x.Bindings {
				if bv != ssa.Value(cell) {
					continue
				}
				if i >= len(cl.FreeVars) || cl.FreeVars[i].Referrers() == nil {
					return false
				}
				for _, fr := range *cl.FreeVars[i].Referrers() {
					if u, isLoad := fr.(*ssa.UnOp); !isLoad || u.Op != token.MUL {
						if _, dbg := fr.(*ssa.DebugRef); !dbg {
							return false
						}
					}
				}
				captured = true
			}
		default:
			return false
		}
	}
	return captured
}
