package ir

import (
	"go/constant"
	"go/token"
	"go/types"

	"golang.org/x/tools/go/ssa"
)

// Edge is a CFG edge: successor number Succ of block From.
type Edge struct {
	From *ssa.BasicBlock
	Succ int
}

// To returns the target block of the edge.
func (e Edge) To() *ssa.BasicBlock { return e.From.Succs[e.Succ] }

// PathQuery describes a reachability question inside one function. All
// fields are optional.
type PathQuery struct {
	// From: start just after this instruction; nil = function entry.
	From ssa.Instruction
	// FromEdge: start by traversing this edge (overrides From).
	FromEdge *Edge
	// To: the instruction to reach; nil = a normal exit (Return).
	To ssa.Instruction
	// ToAny: alternative targets (any of them counts).
	ToAny func(ssa.Instruction) bool
	// Stop: paths end (without success) when they execute such an instruction.
	Stop func(ssa.Instruction) bool
	// Cut: edges that may not be traversed.
	Cut func(Edge) bool
	// PanicIsExit: treat Panic instructions as exits too when To == nil.
	PanicIsExit bool
	// PruneConst: do not follow edges contradicting constant conditions.
	KeepConstEdges bool
}

// CanReach answers the query by graph search (path-insensitive except for
// constant branch conditions, which are pruned).
func CanReach(fn *ssa.Function, q PathQuery) bool {
	if fn == nil || len(fn.Blocks) == 0 {
		return false
	}
	isTarget := func(in ssa.Instruction) bool {
		if q.ToAny != nil && q.ToAny(in) {
			return true
		}
		if q.To != nil {
			return in == q.To
		}
		if q.ToAny != nil {
			return false
		}
		switch in.(type) {
		case *ssa.Return:
			return true
		case *ssa.Panic:
			return q.PanicIsExit
		}
		return false
	}
	visited := map[*ssa.BasicBlock]bool{}
	type start struct {
		b *ssa.BasicBlock
		i int
	}
	var work []start
	switch {
	case q.FromEdge != nil:
		work = append(work, start{q.FromEdge.To(), 0})
		visited[q.FromEdge.To()] = true
	case q.From != nil:
		b := q.From.Block()
		idx := -1
		for i, in := range b.Instrs {
			if in == q.From {
				idx = i
			}
		}
		work = append(work, start{b, idx + 1})
	default:
		work = append(work, start{fn.Blocks[0], 0})
		visited[fn.Blocks[0]] = true
	}
	for len(work) > 0 {
		s := work[len(work)-1]
		work = work[:len(work)-1]
		stopped := false
		for i := s.i; i < len(s.b.Instrs); i++ {
			in := s.b.Instrs[i]
			if isTarget(in) {
				return true
			}
			if q.Stop != nil && q.Stop(in) {
				stopped = true
				break
			}
		}
		if stopped {
			continue
		}
		for k, succ := range s.b.Succs {
			e := Edge{s.b, k}
			if q.Cut != nil && q.Cut(e) {
				continue
			}
			if !q.KeepConstEdges && constEdgeDead(e) {
				continue
			}
			if !visited[succ] {
				visited[succ] = true
				work = append(work, start{succ, 0})
			}
		}
	}
	return false
}

// constEdgeDead reports whether the edge contradicts a constant condition.
func constEdgeDead(e Edge) bool {
	if len(e.From.Instrs) == 0 {
		return false
	}
	iff, ok := e.From.Instrs[len(e.From.Instrs)-1].(*ssa.If)
	if !ok {
		return false
	}
	c, ok := iff.Cond.(*ssa.Const)
	if !ok || c.Value == nil || c.Value.Kind() != constant.Bool {
		return false
	}
	val := constant.BoolVal(c.Value)
	return (val && e.Succ == 1) || (!val && e.Succ == 0)
}

// MustPassBefore: every path from the function entry to `to` executes an
// instruction satisfying pred first. Vacuously true if `to` is unreachable.
func MustPassBefore(fn *ssa.Function, to ssa.Instruction, pred func(ssa.Instruction) bool) bool {
	return !CanReach(fn, PathQuery{To: to, Stop: pred})
}

// AlwaysFollowedBy: every path from `from` to a normal return executes an
// instruction satisfying pred.
func AlwaysFollowedBy(fn *ssa.Function, from ssa.Instruction, pred func(ssa.Instruction) bool) bool {
	return !CanReach(fn, PathQuery{From: from, Stop: pred})
}

// OnlyViaEdge: every path from the entry to `to` traverses edge e.
func OnlyViaEdge(fn *ssa.Function, to ssa.Instruction, e Edge) bool {
	return !CanReach(fn, PathQuery{To: to, Cut: func(x Edge) bool { return x == e }})
}

// OnlyViaEdges: every path from the entry to `to` traverses at least one of
// the edges.
func OnlyViaEdges(fn *ssa.Function, to ssa.Instruction, es []Edge) bool {
	return !CanReach(fn, PathQuery{To: to, Cut: func(x Edge) bool {
		for _, e := range es {
			if x == e {
				return true
			}
		}
		return false
	}})
}

// Reachable: `to` can execute at all.
func Reachable(fn *ssa.Function, to ssa.Instruction) bool {
	return CanReach(fn, PathQuery{To: to})
}

// Ifs lists the If instructions of fn.
func Ifs(fn *ssa.Function) []*ssa.If {
	var out []*ssa.If
	for _, b := range fn.Blocks {
		if len(b.Instrs) == 0 {
			continue
		}
		if iff, ok := b.Instrs[len(b.Instrs)-1].(*ssa.If); ok {
			out = append(out, iff)
		}
	}
	return out
}

// IsNilConst reports whether v is the nil constant (of any type).
func IsNilConst(v ssa.Value) bool {
	c, ok := v.(*ssa.Const)
	return ok && c.Value == nil && !isBasicNonNil(c.Type())
}

func isBasicNonNil(t types.Type) bool {
	// a zero Const of basic numeric/string/bool type has Value == nil only
	// for untyped nil; ssa uses constant values for the others
	b, ok := t.Underlying().(*types.Basic)
	if !ok {
		return false
	}
	return b.Kind() != types.UntypedNil && b.Kind() != types.UnsafePointer
}

// NilTest decodes `v == nil` / `v != nil` conditions. nilSucc is the
// successor index taken when v is nil.
func NilTest(iff *ssa.If) (v ssa.Value, nilSucc int, ok bool) {
	b, isBin := iff.Cond.(*ssa.BinOp)
	if !isBin || (b.Op != token.EQL && b.Op != token.NEQ) {
		return nil, 0, false
	}
	switch {
	case IsNilConst(b.Y):
		v = b.X
	case IsNilConst(b.X):
		v = b.Y
	default:
		return nil, 0, false
	}
	if b.Op == token.EQL {
		return v, 0, true
	}
	return v, 1, true
}

// Comparison decodes a binary comparison condition.
func Comparison(iff *ssa.If) (op token.Token, x, y ssa.Value, ok bool) {
	b, isBin := iff.Cond.(*ssa.BinOp)
	if !isBin {
		return 0, nil, nil, false
	}
	switch b.Op {
	case token.EQL, token.NEQ, token.LSS, token.LEQ, token.GTR, token.GEQ:
		return b.Op, b.X, b.Y, true
	}
	return 0, nil, nil, false
}

// ConstString returns the string value of a constant, if v is one.
func ConstString(v ssa.Value) (string, bool) {
	c, ok := v.(*ssa.Const)
	if !ok || c.Value == nil || c.Value.Kind() != constant.String {
		return "", false
	}
	return constant.StringVal(c.Value), true
}

// ConstInt returns the integer value of a constant, if v is one.
func ConstInt(v ssa.Value) (int64, bool) {
	c, ok := v.(*ssa.Const)
	if !ok || c.Value == nil || c.Value.Kind() != constant.Int {
		return 0, false
	}
	i, exact := constant.Int64Val(c.Value)
	if !exact {
		u, ok2 := constant.Uint64Val(c.Value)
		return int64(u), ok2
	}
	return i, true
}

// ConstBool returns the bool value of a constant, if v is one.
func ConstBool(v ssa.Value) (bool, bool) {
	c, ok := v.(*ssa.Const)
	if !ok || c.Value == nil || c.Value.Kind() != constant.Bool {
		return false, false
	}
	return constant.BoolVal(c.Value), true
}

// Returns lists the Return instructions of fn.
func Returns(fn *ssa.Function) []*ssa.Return {
	var out []*ssa.Return
	for _, b := range fn.Blocks {
		for _, in := range b.Instrs {
			if r, ok := in.(*ssa.Return); ok {
				out = append(out, r)
			}
		}
	}
	return out
}

// Instrs calls f for every instruction of fn.
func Instrs(fn *ssa.Function, f func(ssa.Instruction)) {
	for _, b := range fn.Blocks {
		for _, in := range b.Instrs {
			f(in)
		}
	}
}

// StripLoad: if v is a load (*addr), return addr.
func StripLoad(v ssa.Value) (ssa.Value, bool) {
	if un, ok := v.(*ssa.UnOp); ok && un.Op == token.MUL {
		return un.X, true
	}
	return nil, false
}

// NilGuardEdges returns, for value v (compared by SameValue), the edges of fn
// on which v is known to be non-nil (nonNil=true) or nil (nonNil=false).
func (u *Universe) NilGuardEdges(fn *ssa.Function, v ssa.Value, nonNil bool) []Edge {
	var out []Edge
	for _, iff := range Ifs(fn) {
		tv, nilSucc, ok := NilTest(iff)
		if !ok || !u.SameValue(tv, v) {
			continue
		}
		s := nilSucc
		if nonNil {
			s = 1 - nilSucc
		}
		out = append(out, Edge{iff.Block(), s})
	}
	return out
}

// NormalReturns lists the Return instructions of fn except the one in the
// recover block (which only re-reads named results after a recovered panic).
func NormalReturns(fn *ssa.Function) []*ssa.Return {
	var out []*ssa.Return
	for _, b := range fn.Blocks {
		if b == fn.Recover {
			continue
		}
		for _, in := range b.Instrs {
			if r, ok := in.(*ssa.Return); ok {
				out = append(out, r)
			}
		}
	}
	return out
}

// ReturnResult gives the value returned as result idx by ret. In functions
// with defers go/ssa spills results to locals (*t0 = v; rundefers; t = *t0;
// return t): the spilled value is looked up in the return's block.
func ReturnResult(ret *ssa.Return, idx int) ssa.Value {
	if idx >= len(ret.Results) {
		return nil
	}
	v := ret.Results[idx]
	ld, ok := v.(*ssa.UnOp)
	if !ok || ld.Op != token.MUL {
		return v
	}
	a, ok := ld.X.(*ssa.Alloc)
	if !ok {
		return v
	}
	b := ret.Block()
	var last ssa.Value
	for _, in := range b.Instrs {
		if in == ssa.Instruction(ld) {
			break
		}
		if st, ok := in.(*ssa.Store); ok && st.Addr == ssa.Value(a) {
			last = st.Val
		}
	}
	if last != nil {
		return last
	}
	return v
}

// EmptyTest decodes `len(v) == 0`, `len(v) != 0`, `len(v) > 0`, `len(v) < 1`,
// `0 < len(v)`, `len(v) >= 1` conditions. emptySucc is the successor taken
// when v is empty.
func EmptyTest(iff *ssa.If) (v ssa.Value, emptySucc int, ok bool) {
	b, isBin := iff.Cond.(*ssa.BinOp)
	if !isBin {
		return nil, 0, false
	}
	lenOf := func(x ssa.Value) ssa.Value {
		if c, ok := x.(*ssa.Call); ok && BuiltinName(c) == "len" {
			return c.Call.Args[0]
		}
		return nil
	}
	op := b.Op
	x, y := b.X, b.Y
	if lenOf(x) == nil && lenOf(y) != nil {
		// mirror: c OP len(v)  ==  len(v) OP' c
		x, y = y, x
		switch op {
		case token.LSS:
			op = token.GTR
		case token.GTR:
			op = token.LSS
		case token.LEQ:
			op = token.GEQ
		case token.GEQ:
			op = token.LEQ
		}
	}
	v = lenOf(x)
	if v == nil {
		return nil, 0, false
	}
	c, isConst := ConstInt(y)
	if !isConst {
		return nil, 0, false
	}
	switch {
	case op == token.EQL && c == 0, op == token.LSS && c == 1, op == token.LEQ && c == 0:
		return v, 0, true
	case op == token.NEQ && c == 0, op == token.GTR && c == 0, op == token.GEQ && c == 1:
		return v, 1, true
	}
	return nil, 0, false
}

// LiveBlocks returns the blocks reachable from the entry when edges that
// contradict constant conditions (e.g. runtime.GOOS == "darwin" on another
// GOOS) are not followed.
func LiveBlocks(fn *ssa.Function) map[*ssa.BasicBlock]bool {
	live := map[*ssa.BasicBlock]bool{}
	if len(fn.Blocks) == 0 {
		return live
	}
	work := []*ssa.BasicBlock{fn.Blocks[0]}
	live[fn.Blocks[0]] = true
	for len(work) > 0 {
		b := work[len(work)-1]
		work = work[:len(work)-1]
		for k, s := range b.Succs {
			if constEdgeDead(Edge{b, k}) || live[s] {
				continue
			}
			live[s] = true
			work = append(work, s)
		}
	}
	return live
}

// LiveEdge reports whether the CFG edge from pred to b can be taken given
// constant conditions.
func LiveEdge(pred, b *ssa.BasicBlock) bool {
	for k, s := range pred.Succs {
		if s == b && !constEdgeDead(Edge{pred, k}) {
			return true
		}
	}
	return false
}
