package ir

import (
	"golang.org/x/tools/go/ssa"
)

// Own dominator computation. go/ssa stores its dominator tree in unexported
// fields computed when a function is built; after helper inlining (inline.go)
// that tree is stale, so every dominance question in this checker goes through
// this file. Iterative algorithm of Cooper, Harvey and Kennedy.

type domInfo struct {
	idom  map[*ssa.BasicBlock]*ssa.BasicBlock
	order map[*ssa.BasicBlock]int // reverse post-order number
}

var domCache = map[*ssa.Function]*domInfo{}

// InvalidateDom forgets the cached dominator tree of fn.
func InvalidateDom(fn *ssa.Function) { delete(domCache, fn) }

func domOf(fn *ssa.Function) *domInfo {
	if d, ok := domCache[fn]; ok {
		return d
	}
	d := &domInfo{idom: map[*ssa.BasicBlock]*ssa.BasicBlock{}, order: map[*ssa.BasicBlock]int{}}
	domCache[fn] = d
	if len(fn.Blocks) == 0 {
		return d
	}
	// post-order from the entry block (and the recover block, if any, as an extra root
	// hanging off the entry, as go/ssa does)
	var post []*ssa.BasicBlock
	seen := map[*ssa.BasicBlock]bool{}
	var dfs func(b *ssa.BasicBlock)
	dfs = func(b *ssa.BasicBlock) {
		seen[b] = true
		for _, s := range b.Succs {
			if !seen[s] {
				dfs(s)
			}
		}
		post = append(post, b)
	}
	entry := fn.Blocks[0]
	dfs(entry)
	n := len(post)
	rpo := make([]*ssa.BasicBlock, n)
	for i, b := range post {
		rpo[n-1-i] = b
		d.order[b] = n - 1 - i
	}
	d.idom[entry] = entry
	intersect := func(a, b *ssa.BasicBlock) *ssa.BasicBlock {
		for a != b {
			for d.order[a] > d.order[b] {
				a = d.idom[a]
			}
			for d.order[b] > d.order[a] {
				b = d.idom[b]
			}
		}
		return a
	}
	for changed := true; changed; {
		changed = false
		for _, b := range rpo[1:] {
			var nd *ssa.BasicBlock
			for _, p := range b.Preds {
				if _, ok := d.idom[p]; !ok {
					continue
				}
				if nd == nil {
					nd = p
				} else {
					nd = intersect(p, nd)
				}
			}
			if nd != nil && d.idom[b] != nd {
				d.idom[b] = nd
				changed = true
			}
		}
	}
	return d
}

// Idom returns the immediate dominator of b (nil for the entry block and for
// unreachable blocks).
func Idom(b *ssa.BasicBlock) *ssa.BasicBlock {
	d := domOf(b.Parent())
	i, ok := d.idom[b]
	if !ok || i == b {
		return nil
	}
	return i
}

// Dominates reports whether a dominates b (reflexive).
func Dominates(a, b *ssa.BasicBlock) bool {
	if a == b {
		return true
	}
	d := domOf(b.Parent())
	if _, ok := d.idom[b]; !ok {
		return false
	}
	for {
		i := d.idom[b]
		if i == nil || i == b {
			return false
		}
		if i == a {
			return true
		}
		b = i
	}
}
