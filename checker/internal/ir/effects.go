package ir

import (
	"go/token"
	"go/types"
	"strings"

	"golang.org/x/tools/go/ssa"
)

// Write is one possible write to memory, expressed as an access path in the
// terms of the summarised function (its parameters, globals, its own locals).
type Write struct {
	Path  Path
	Kind  string          // store, mapupdate, delete, copy, append, extern:<callee>
	Site  ssa.Instruction // instruction in the summarised function (a store or a call)
	Deep  ssa.Instruction // the instruction that finally performs the write
	Chain []string        // callee names from Site down to Deep
	// Vals: for stores of pointer-like values, what is stored (paths in the
	// summarised function's terms; values created inside callees are omitted).
	Vals []Path
}

// Effects is the write summary of a function.
type Effects struct {
	Writes []Write
	// Opaque lists calls to functions without analysable body that receive
	// a pointer-like argument and are not in the table of known functions.
	Opaque []OpaqueCall
}

// OpaqueCall is a call the effect analysis could not look into.
type OpaqueCall struct {
	Site   ssa.Instruction
	Callee string
	Args   []Path
}

// transparentPkgs: dependencies whose function bodies are analysed like the
// repository's own (small, first-order code operating on the OCI spec).
var transparentPkgs = []string{
	"github.com/opencontainers/runtime-tools/generate",
	"github.com/opencontainers/runtime-spec/specs-go",
}

// Transparent reports whether fn's body is analysed by the effect and
// origin analyses.
func (u *Universe) Transparent(fn *ssa.Function) bool {
	if fn == nil || len(fn.Blocks) == 0 {
		return false
	}
	if u.IsRepoFunc(fn) {
		return true
	}
	p := u.FuncPkgPath(fn)
	for _, t := range transparentPkgs {
		if p == t {
			return true
		}
	}
	return false
}

// externWrites: functions without analysed body that write through their
// arguments. Value: indexes of the arguments written (receiver = 0 for
// methods); elem=true means the elements of that argument are written.
var externWrites = map[string][]int{
	"sort.Sort":                        {0},
	"sort.Stable":                      {0},
	"sort.Strings":                     {0},
	"sort.Ints":                        {0},
	"sort.Float64s":                    {0},
	"sort.Slice":                       {0},
	"sort.SliceStable":                 {0},
	"slices.Sort":                      {0},
	"slices.SortFunc":                  {0},
	"slices.SortStableFunc":            {0},
	"slices.Reverse":                   {0},
	"encoding/json.Unmarshal":          {1},
	"(*encoding/json.Decoder).Decode":  {1},
	"sigs.k8s.io/yaml.Unmarshal":       {1},
	"sigs.k8s.io/yaml.UnmarshalStrict": {1},
	"gopkg.in/yaml.v3.Unmarshal":       {1},
	"gopkg.in/yaml.v2.Unmarshal":       {1},
	"golang.org/x/sys/unix.Lstat":      {1},
	"golang.org/x/sys/unix.Stat":       {1},
	"(*os.File).Read":                  {1},
	"io.ReadFull":                      {1},
	"(*sync.Once).Do":                  {},
	"(*github.com/spf13/pflag.FlagSet).StringSliceVarP": {1},
	"(*github.com/spf13/pflag.FlagSet).StringVarP":      {1},
	"(*github.com/spf13/pflag.FlagSet).BoolVarP":        {1},
	"flag.StringVar": {0},
}

// readOnlyPkgs: packages whose functions never write through their
// arguments (beyond the table above).
var readOnlyPkgs = map[string]bool{
	"fmt": true, "strings": true, "errors": true, "path/filepath": true, "path": true,
	"os": true, "io/fs": true, "unicode": true, "unicode/utf8": true, "strconv": true,
	"log": true, "bytes": true, "time": true, "sync": true, "sync/atomic": true,
	"golang.org/x/mod/semver":         true,
	"github.com/fsnotify/fsnotify":    true,
	"github.com/xeipuuv/gojsonschema": true,
	"encoding/json":                   true, "sigs.k8s.io/yaml": true, "gopkg.in/yaml.v3": true,
	"io": true, "net/http": true, "embed": true, "runtime": true, "sort": true,
	"golang.org/x/sys/unix": true, "reflect": true, "regexp": true, "math": true,
	"os/signal": true, "syscall": true, "context": true, "flag": true,
	"github.com/spf13/cobra": true, "github.com/spf13/pflag": true,
}

func funcFullName(fn *ssa.Function) string {
	if fn == nil {
		return "?"
	}
	s := fn.String()
	return s
}

func pointerLike(t types.Type) bool {
	switch x := t.Underlying().(type) {
	case *types.Pointer, *types.Slice, *types.Map, *types.Chan, *types.Signature, *types.Interface:
		return true
	case *types.Struct:
		for i := 0; i < x.NumFields(); i++ {
			if pointerLike(x.Field(i).Type()) {
				return true
			}
		}
	case *types.Array:
		return pointerLike(x.Elem())
	}
	return false
}

// EffectsOf computes (memoised) the write summary of fn, including the
// effects of every function it calls that can be analysed and of the
// closures it creates.
func (u *Universe) EffectsOf(fn *ssa.Function) *Effects {
	if e, ok := u.effMemo[fn]; ok {
		return e
	}
	if u.effBusy[fn] {
		return &Effects{}
	}
	u.effBusy[fn] = true
	e := u.effects1(fn)
	delete(u.effBusy, fn)
	u.effMemo[fn] = e
	return e
}

func (u *Universe) effects1(fn *ssa.Function) *Effects {
	e := &Effects{}
	addW := func(ps []Path, kind string, site, deep ssa.Instruction, chain []string) {
		for _, p := range ps {
			e.Writes = append(e.Writes, Write{Path: p, Kind: kind, Site: site, Deep: deep, Chain: chain})
		}
	}
	for _, b := range fn.Blocks {
		for _, in := range b.Instrs {
			switch x := in.(type) {
			case *ssa.Store:
				var vals []Path
				if pointerLike(x.Val.Type()) {
					vals = u.PathsOf(x.Val)
				}
				for _, p := range u.AddrPaths(x.Addr) {
					e.Writes = append(e.Writes, Write{Path: p, Kind: "store", Site: in, Deep: in, Vals: vals})
				}
			case *ssa.MapUpdate:
				var ps []Path
				for _, p := range u.PathsOf(x.Map) {
					ps = append(ps, u.rawExtend(p, Sel{}))
				}
				addW(ps, "mapupdate", in, in, nil)
			case *ssa.MakeClosure:
				cf, ok := x.Fn.(*ssa.Function)
				if !ok {
					continue
				}
				real := u.unwrap(cf)
				if real != cf {
					// bound method value: receiver is the first binding
					if len(x.Bindings) == 1 && u.Transparent(real) {
						for _, w := range u.EffectsOf(real).Writes {
							u.liftWrite(e, w, in, real, func(idx int) ssa.Value {
								if idx == 0 {
									return x.Bindings[0]
								}
								return nil
							})
						}
					}
					continue
				}
				sub := u.EffectsOf(cf)
				for _, w := range sub.Writes {
					w2 := w
					w2.Site = in
					w2.Chain = append([]string{u.RelName(cf)}, w.Chain...)
					e.Writes = append(e.Writes, w2)
				}
				e.Opaque = append(e.Opaque, sub.Opaque...)
			case ssa.CallInstruction:
				u.callEffects(e, fn, x)
			}
		}
	}
	e.Writes = dedupWrites(e.Writes)
	return e
}

func dedupWrites(ws []Write) []Write {
	seen := map[string]bool{}
	out := ws[:0:0]
	for _, w := range ws {
		k := w.Path.key() + "|" + w.Kind + "|" + strings.Join(w.Chain, ">")
		if w.Site != nil {
			k += "|" + w.Site.String() + w.Site.Parent().Name()
		}
		if !seen[k] {
			seen[k] = true
			out = append(out, w)
		}
	}
	return out
}

// liftWrite translates a callee write into the caller's terms.
func (u *Universe) liftWrite(e *Effects, w Write, site ssa.Instruction, callee *ssa.Function, arg func(int) ssa.Value) {
	chain := append([]string{u.ShortName(callee)}, w.Chain...)
	if len(chain) > 12 {
		chain = chain[:12]
	}
	r, isParam := w.Path.Root.(*ssa.Parameter)
	if !isParam || r.Parent() != callee {
		switch w.Path.Kind() {
		case RootGlobal:
			e.Writes = append(e.Writes, Write{Path: w.Path, Kind: w.Kind, Site: site, Deep: w.Deep, Chain: chain})
		case RootParam:
			// parameter of an enclosing function of a closure: keep
			e.Writes = append(e.Writes, Write{Path: w.Path, Kind: w.Kind, Site: site, Deep: w.Deep, Chain: chain})
		}
		// writes to the callee's own locals / fresh objects are invisible
		return
	}
	idx := -1
	for i, pp := range callee.Params {
		if pp == r {
			idx = i
		}
	}
	a := arg(idx)
	if a == nil {
		return
	}
	busy := map[ssa.Value]bool{}
	ps := u.pathsOf(a, busy)
	sels := w.Path.Sels
	if len(sels) > 0 {
		for _, s := range sels[:len(sels)-1] {
			ps = u.extendAll(ps, s, busy)
		}
		var out []Path
		for _, p := range ps {
			out = append(out, u.rawExtend(p, sels[len(sels)-1]))
		}
		ps = dedupPaths(out)
	} else {
		// the callee overwrites *param: the pointed-to object is written
		var out []Path
		for _, p := range ps {
			out = append(out, p)
		}
		ps = out
	}
	var vals []Path
	for _, v := range w.Vals {
		switch vr := v.Root.(type) {
		case *ssa.Parameter:
			if vr.Parent() != callee {
				vals = append(vals, v)
				continue
			}
			vi := -1
			for i, pp := range callee.Params {
				if pp == vr {
					vi = i
				}
			}
			if va := arg(vi); va != nil {
				vps := u.pathsOf(va, busy)
				for _, s := range v.Sels {
					vps = u.extendAll(vps, s, busy)
				}
				vals = append(vals, vps...)
			}
		case *ssa.Global:
			vals = append(vals, v)
		}
	}
	vals = dedupPaths(vals)
	for _, p := range ps {
		if w.Path.Trunc {
			p.Trunc = true
		}
		e.Writes = append(e.Writes, Write{Path: p, Kind: w.Kind, Site: site, Deep: w.Deep, Chain: chain, Vals: vals})
	}
}

// RefineHeap makes stores performed by callees into objects allocated by
// their callers visible to the origin analysis: it computes the effects of
// the given functions, records for every local object which pointer values
// callees stored into its fields, and resets the memo tables so that later
// queries resolve loads from those fields to the stored values as well.
func (u *Universe) RefineHeap(roots []*ssa.Function, rounds int) {
	for i := 0; i < rounds; i++ {
		added := false
		seen := map[*ssa.Function]bool{}
		var visit func(fn *ssa.Function)
		visit = func(fn *ssa.Function) {
			if fn == nil || seen[fn] || !u.Transparent(fn) {
				return
			}
			seen[fn] = true
			for _, w := range u.EffectsOf(fn).Writes {
				a, ok := w.Path.Root.(*ssa.Alloc)
				if !ok || w.Kind != "store" || len(w.Vals) == 0 || len(w.Path.Sels) == 0 || w.Path.Trunc {
					continue
				}
				if w.Site == w.Deep {
					continue // direct stores are found by localStores already
				}
				for _, v := range w.Vals {
					if v.Root == ssa.Value(a) {
						continue
					}
					k := w.Path.key() + "<-" + v.key()
					if !u.heapSeen[k] {
						u.heapSeen[k] = true
						u.heapStores[a] = append(u.heapStores[a], heapStore{w.Path.Sels, v})
						added = true
					}
				}
			}
			for _, b := range fn.Blocks {
				for _, in := range b.Instrs {
					switch x := in.(type) {
					case ssa.CallInstruction:
						for _, c := range u.Callees(x) {
							visit(c)
						}
					case *ssa.MakeClosure:
						if f, ok := x.Fn.(*ssa.Function); ok {
							visit(f)
						}
					}
				}
			}
		}
		for _, r := range roots {
			visit(r)
		}
		if !added {
			return
		}
		u.pathMemo = map[ssa.Value][]Path{}
		u.effMemo = map[*ssa.Function]*Effects{}
	}
}

type heapStore struct {
	sels []Sel
	val  Path
}

func (u *Universe) callEffects(e *Effects, fn *ssa.Function, c ssa.CallInstruction) {
	cc := c.Common()
	in := c.(ssa.Instruction)
	if b, ok := cc.Value.(*ssa.Builtin); ok {
		switch b.Name() {
		case "delete":
			for _, p := range u.PathsOf(cc.Args[0]) {
				e.Writes = append(e.Writes, Write{Path: u.rawExtend(p, Sel{}), Kind: "delete", Site: in, Deep: in})
			}
		case "copy":
			for _, p := range u.PathsOf(cc.Args[0]) {
				e.Writes = append(e.Writes, Write{Path: u.rawExtend(p, Sel{}), Kind: "copy", Site: in, Deep: in})
			}
		case "append":
			for _, p := range u.PathsOf(cc.Args[0]) {
				e.Writes = append(e.Writes, Write{Path: u.rawExtend(p, Sel{}), Kind: "append", Site: in, Deep: in})
			}
		case "clear":
			for _, p := range u.PathsOf(cc.Args[0]) {
				e.Writes = append(e.Writes, Write{Path: u.rawExtend(p, Sel{}), Kind: "clear", Site: in, Deep: in})
			}
		}
		return
	}
	callees := u.Callees(c)
	if len(callees) == 0 {
		// unresolved dynamic call
		var args []Path
		for _, a := range cc.Args {
			if pointerLike(a.Type()) {
				args = append(args, u.PathsOf(a)...)
			}
		}
		name := "dynamic call"
		if cc.IsInvoke() {
			name = "interface method " + cc.Method.Name()
		}
		if len(args) > 0 {
			e.Opaque = append(e.Opaque, OpaqueCall{Site: in, Callee: name, Args: args})
		}
		return
	}
	for _, callee := range callees {
		argOf := func(idx int) ssa.Value {
			args := cc.Args
			if cc.IsInvoke() {
				// receiver is cc.Value, then Args
				if idx == 0 {
					return cc.Value
				}
				idx--
			}
			if idx >= 0 && idx < len(args) {
				return args[idx]
			}
			return nil
		}
		if u.Transparent(callee) {
			sub := u.EffectsOf(callee)
			for _, w := range sub.Writes {
				u.liftWrite(e, w, in, callee, argOf)
			}
			for _, o := range sub.Opaque {
				e.Opaque = append(e.Opaque, o)
			}
			continue
		}
		full := funcFullName(callee)
		if idxs, ok := externWrites[full]; ok {
			for _, i := range idxs {
				if a := argOf(i); a != nil {
					for _, p := range u.PathsOf(a) {
						e.Writes = append(e.Writes, Write{Path: u.rawExtend(p, Sel{}), Kind: "extern:" + full, Site: in, Deep: in})
					}
				}
			}
			// callbacks passed to known functions run: closures are already
			// accounted for at their creation
			continue
		}
		pkg := u.FuncPkgPath(callee)
		if readOnlyPkgs[pkg] {
			continue
		}
		var args []Path
		n := len(cc.Args)
		for i := 0; i < n; i++ {
			a := cc.Args[i]
			if pointerLike(a.Type()) {
				args = append(args, u.PathsOf(a)...)
			}
		}
		if len(args) > 0 {
			e.Opaque = append(e.Opaque, OpaqueCall{Site: in, Callee: full, Args: args})
		}
	}
}

// IsLoad reports whether v is a load and returns the address.
func IsLoad(v ssa.Value) (ssa.Value, bool) {
	if un, ok := v.(*ssa.UnOp); ok && un.Op == token.MUL {
		return un.X, true
	}
	return nil, false
}
