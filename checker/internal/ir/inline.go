package ir

import (
	"fmt"
	"go/types"
	"reflect"
	"sort"
	"strings"
	"unsafe"

	"golang.org/x/tools/go/ssa"
	"golang.org/x/tools/go/ssa/ssautil"
)

// Helper inlining on go/ssa.
//
// The rules are written against named anchor functions of the repository. A
// behaviour-preserving refactoring that moves part of an anchor function into
// a NEW helper (extract-function, the most common clean-up) would hide that
// part from every rule that looks for constructs inside the anchor. To make
// the rules see through such helpers, every static call from a repository
// function to a repository function that is NOT in the list of functions the
// rules were written against is expanded in place before any rule runs: the
// callee's blocks are cloned into the caller, parameters replaced by the
// arguments, returns by jumps to a continuation block whose phis carry the
// results. The program analysed is then the one a compiler's inliner would
// produce; nothing about the known functions changes, so on a tree without new
// helpers this pass does nothing.
//
// go/ssa keeps the owning block of an instruction, the type and the referrers
// of a value in unexported fields; they are set here through reflect/unsafe.
// The dominator tree stored by go/ssa becomes stale for an expanded function:
// this checker only uses its own (dom.go).

// InlineReport describes one expansion.
type InlineReport struct {
	Caller, Callee string
	Pos            string
}

// inlinable: a source function (not a closure) with a body, without defer or
// recover (their meaning depends on the frame), with at least one return.
func inlinable(fn *ssa.Function) bool {
	if fn == nil || fn.Parent() != nil {
		return false
	}
	return inlinableBody(fn)
}

func inlinableBody(fn *ssa.Function) bool {
	if fn == nil || len(fn.Blocks) == 0 || fn.Recover != nil {
		return false
	}
	if fn.Synthetic != "" && !strings.HasPrefix(fn.Synthetic, "instance of") {
		return false // wrappers, thunks, init; instances of generic helpers are fine
	}
	if fn.Signature.Variadic() && false {
		return false
	}
	n, rets := 0, 0
	for _, b := range fn.Blocks {
		for _, in := range b.Instrs {
			n++
			switch in.(type) {
			case *ssa.Defer, *ssa.RunDefers:
				return false
			case *ssa.Return:
				rets++
			}
		}
	}
	return rets > 0 && n <= 400
}

// InlineUnknownHelpers expands, in every repository function, the static calls
// to inlinable repository functions for which known returns false. Must run
// before the universe is indexed. Returns what was expanded.
func (u *Universe) InlineUnknownHelpers(known func(key string) bool) ([]InlineReport, error) {
	all := ssautil.AllFunctions(u.Prog)
	var repo []*ssa.Function
	for fn := range all {
		if u.IsRepoFunc(fn) && len(fn.Blocks) > 0 {
			repo = append(repo, fn)
		}
	}
	sort.Slice(repo, func(i, j int) bool { return repo[i].String() < repo[j].String() })
	cand := map[*ssa.Function]bool{}
	for _, fn := range repo {
		if inlinable(fn) && !known(u.funcKey(fn)) {
			cand[fn] = true
		}
	}
	if len(cand) == 0 {
		return nil, nil
	}
	// drop candidates on call cycles (among candidates)
	callees := func(fn *ssa.Function) []*ssa.Function {
		var out []*ssa.Function
		for _, b := range fn.Blocks {
			for _, in := range b.Instrs {
				if c, ok := in.(ssa.CallInstruction); ok {
					if g := c.Common().StaticCallee(); g != nil && cand[g] {
						out = append(out, g)
					}
				}
			}
		}
		return out
	}
	state := map[*ssa.Function]int{}
	var cyc func(fn *ssa.Function) bool
	cyc = func(fn *ssa.Function) bool {
		switch state[fn] {
		case 1:
			return true
		case 2:
			return false
		}
		state[fn] = 1
		bad := false
		for _, g := range callees(fn) {
			if cyc(g) {
				bad = true
			}
		}
		state[fn] = 2
		if bad {
			delete(cand, fn)
		}
		return bad
	}
	for _, fn := range repo {
		if cand[fn] {
			cyc(fn)
		}
	}
	var rep []InlineReport
	expanded := map[*ssa.Function]bool{}
	defer func() {
		// helpers whose every use was expanded are no longer part of the program
		// the rules look at (their bodies are analysed in the callers' context)
		used := map[*ssa.Function]bool{}
		for _, fn := range repo {
			for _, b := range fn.Blocks {
				for _, in := range b.Instrs {
					for _, p := range in.Operands(nil) {
						if g, ok := (*p).(*ssa.Function); ok {
							used[g] = true
						}
					}
				}
			}
		}
		for g := range expanded {
			if !used[g] {
				if u.Expanded == nil {
					u.Expanded = map[*ssa.Function]bool{}
				}
				u.Expanded[g] = true
			}
		}
	}()
	budget := 400
	touched := map[*ssa.Function]bool{}
	for _, fn := range repo {
		for budget > 0 {
			var site *ssa.Call
			for _, b := range fn.Blocks {
				for _, in := range b.Instrs {
					if c, ok := in.(*ssa.Call); ok && site == nil {
						if g := c.Call.StaticCallee(); g != nil && cand[g] && g != fn && len(c.Call.Args) == len(g.Params) {
							site = c
						}
					}
				}
			}
			if site == nil {
				break
			}
			budget--
			g := site.Call.StaticCallee()
			expanded[g] = true
			rep = append(rep, InlineReport{Caller: u.RelName(fn), Callee: u.RelName(g), Pos: u.Pos(site.Pos())})
			if err := inlineCall(fn, site, g); err != nil {
				return rep, fmt.Errorf("inlining %s into %s: %v", g, fn, err)
			}
			if err := checkFunction(fn); err != nil {
				return rep, fmt.Errorf("after inlining %s into %s: %v", g, fn, err)
			}
			InvalidateDom(fn)
			touched[fn] = true
			if strings.HasPrefix(fn.Synthetic, "bound method wrapper") {
				// `s.visit` handed over as a function value: with the method expanded into it the
				// wrapper is an ordinary closure over s
				if u.ExpandedWrappers == nil {
					u.ExpandedWrappers = map[*ssa.Function]bool{}
				}
				u.ExpandedWrappers[fn] = true
			}
		}
	}
	for _, fn := range repo {
		if touched[fn] {
			cleanup(fn)
			ThreadJumps(fn)
			if err := checkFunction(fn); err != nil {
				return rep, fmt.Errorf("after jump threading in %s: %v", fn, err)
			}
		}
	}
	return rep, nil
}

// ---------------------------------------------------------------------------

func findField(v reflect.Value, name string) (reflect.Value, bool) {
	t := v.Type()
	for i := 0; i < t.NumField(); i++ {
		sf := t.Field(i)
		if sf.Name == name {
			return v.Field(i), true
		}
		if sf.Anonymous && sf.Type.Kind() == reflect.Struct {
			if f, ok := findField(v.Field(i), name); ok {
				return f, true
			}
		}
	}
	return reflect.Value{}, false
}

// setHidden assigns val to the (possibly unexported, possibly embedded) field
// name of the struct ptr points to.
func setHidden(ptr interface{}, name string, val interface{}) bool {
	v := reflect.ValueOf(ptr).Elem()
	f, ok := findField(v, name)
	if !ok {
		return false
	}
	w := reflect.NewAt(f.Type(), unsafe.Pointer(f.UnsafeAddr())).Elem()
	if val == nil {
		w.Set(reflect.Zero(f.Type()))
	} else {
		w.Set(reflect.ValueOf(val))
	}
	return true
}

var inlineCounter = 100000

func cloneInstr(in ssa.Instruction, nb *ssa.BasicBlock) ssa.Instruction {
	rv := reflect.ValueOf(in)
	nv := reflect.New(rv.Elem().Type())
	nv.Elem().Set(rv.Elem())
	ni := nv.Interface().(ssa.Instruction)
	switch x := ni.(type) {
	case *ssa.Phi:
		x.Edges = append([]ssa.Value(nil), x.Edges...)
	case *ssa.Call:
		x.Call.Args = append([]ssa.Value(nil), x.Call.Args...)
	case *ssa.Go:
		x.Call.Args = append([]ssa.Value(nil), x.Call.Args...)
	case *ssa.Defer:
		x.Call.Args = append([]ssa.Value(nil), x.Call.Args...)
	case *ssa.MakeClosure:
		x.Bindings = append([]ssa.Value(nil), x.Bindings...)
	case *ssa.Return:
		x.Results = append([]ssa.Value(nil), x.Results...)
	case *ssa.Select:
		ns := make([]*ssa.SelectState, len(x.States))
		for i, st := range x.States {
			c := *st
			ns[i] = &c
		}
		x.States = ns
	}
	setHidden(ni, "block", nb)
	if _, isVal := ni.(ssa.Value); isVal {
		setHidden(ni, "referrers", nil)
		inlineCounter++
		setHidden(ni, "num", inlineCounter)
	}
	return ni
}

func newBlock(parent *ssa.Function, comment string) *ssa.BasicBlock {
	nb := &ssa.BasicBlock{Comment: comment}
	setHidden(nb, "parent", parent)
	return nb
}

func inlineCall(caller *ssa.Function, call *ssa.Call, callee *ssa.Function) error {
	return inlineCallWith(caller, call, callee, nil)
}

// inlineCallWith: extra maps further values of the callee (its free variables)
// to values of the caller.
func inlineCallWith(caller *ssa.Function, call *ssa.Call, callee *ssa.Function, extra map[ssa.Value]ssa.Value) error {
	B := call.Block()
	idx := -1
	for i, in := range B.Instrs {
		if in == ssa.Instruction(call) {
			idx = i
		}
	}
	if idx < 0 {
		return fmt.Errorf("call not found in its block")
	}
	vmap := map[ssa.Value]ssa.Value{}
	for i, p := range callee.Params {
		vmap[p] = call.Call.Args[i]
	}
	for k, v := range extra {
		vmap[k] = v
	}
	bmap := map[*ssa.BasicBlock]*ssa.BasicBlock{}
	var clones []*ssa.BasicBlock
	for _, cb := range callee.Blocks {
		nb := newBlock(caller, "inline."+callee.Name()+"."+cb.Comment)
		bmap[cb] = nb
		clones = append(clones, nb)
	}
	for _, cb := range callee.Blocks {
		nb := bmap[cb]
		for _, in := range cb.Instrs {
			ni := cloneInstr(in, nb)
			if v, ok := in.(ssa.Value); ok {
				vmap[v] = ni.(ssa.Value)
			}
			if a, ok := ni.(*ssa.Alloc); ok && !a.Heap {
				caller.Locals = append(caller.Locals, a)
			}
			nb.Instrs = append(nb.Instrs, ni)
		}
		for _, s := range cb.Succs {
			nb.Succs = append(nb.Succs, bmap[s])
		}
		for _, p := range cb.Preds {
			nb.Preds = append(nb.Preds, bmap[p])
		}
	}
	remap := func(in ssa.Instruction) {
		for _, p := range in.Operands(nil) {
			if *p == nil {
				continue
			}
			if nv, ok := vmap[*p]; ok {
				*p = nv
			}
		}
	}
	for _, nb := range clones {
		for _, in := range nb.Instrs {
			remap(in)
		}
	}
	// continuation block
	C := newBlock(caller, "inline."+callee.Name()+".done")
	post := append([]ssa.Instruction(nil), B.Instrs[idx+1:]...)
	C.Succs = B.Succs
	for _, s := range C.Succs {
		for i, p := range s.Preds {
			if p == B {
				s.Preds[i] = C
			}
		}
	}
	jmp := &ssa.Jump{}
	setHidden(jmp, "block", B)
	B.Instrs = append(append([]ssa.Instruction(nil), B.Instrs[:idx]...), jmp)
	entry := bmap[callee.Blocks[0]]
	B.Succs = []*ssa.BasicBlock{entry}
	entry.Preds = []*ssa.BasicBlock{B}
	// returns -> jumps
	nres := callee.Signature.Results().Len()
	var retVals [][]ssa.Value
	for _, nb := range clones {
		last := nb.Instrs[len(nb.Instrs)-1]
		r, ok := last.(*ssa.Return)
		if !ok {
			continue
		}
		if len(r.Results) != nres {
			return fmt.Errorf("return with %d results, signature has %d", len(r.Results), nres)
		}
		j := &ssa.Jump{}
		setHidden(j, "block", nb)
		nb.Instrs[len(nb.Instrs)-1] = j
		nb.Succs = []*ssa.BasicBlock{C}
		C.Preds = append(C.Preds, nb)
		retVals = append(retVals, r.Results)
	}
	if len(C.Preds) == 0 {
		return fmt.Errorf("callee never returns")
	}
	results := make([]ssa.Value, nres)
	for i := 0; i < nres; i++ {
		if len(retVals) == 1 {
			results[i] = retVals[0][i]
			continue
		}
		phi := &ssa.Phi{Comment: "inline." + callee.Name() + ".result"}
		for _, rv := range retVals {
			phi.Edges = append(phi.Edges, rv[i])
		}
		setHidden(phi, "block", C)
		setHidden(phi, "typ", callee.Signature.Results().At(i).Type())
		inlineCounter++
		setHidden(phi, "num", inlineCounter)
		setHidden(phi, "pos", call.Pos())
		C.Instrs = append(C.Instrs, phi)
		results[i] = phi
	}
	// replace the uses of the call
	repl := map[ssa.Value]ssa.Value{}
	drop := map[ssa.Instruction]bool{}
	switch {
	case nres == 1:
		repl[call] = results[0]
	case nres > 1:
		if call.Referrers() != nil {
			for _, r := range *call.Referrers() {
				ex, ok := r.(*ssa.Extract)
				if !ok {
					return fmt.Errorf("tuple result used by %T", r)
				}
				repl[ex] = results[ex.Index]
				drop[ex] = true
			}
		}
	}
	for _, in := range post {
		if drop[in] {
			continue
		}
		setHidden(in, "block", C)
		C.Instrs = append(C.Instrs, in)
	}
	// splice the new blocks after B
	var blocks []*ssa.BasicBlock
	for _, b := range caller.Blocks {
		blocks = append(blocks, b)
		if b == B {
			blocks = append(blocks, clones...)
			blocks = append(blocks, C)
		}
	}
	caller.Blocks = blocks
	for i, b := range caller.Blocks {
		b.Index = i
		// extracts of the call may sit in later blocks
		if len(drop) > 0 {
			var keep []ssa.Instruction
			for _, in := range b.Instrs {
				if !drop[in] {
					keep = append(keep, in)
				}
			}
			b.Instrs = keep
		}
	}
	if len(repl) > 0 {
		for _, b := range caller.Blocks {
			for _, in := range b.Instrs {
				for _, p := range in.Operands(nil) {
					if *p == nil {
						continue
					}
					if nv, ok := repl[*p]; ok {
						*p = nv
					}
				}
			}
		}
	}
	rebuildReferrers(caller)
	// `return helper(x)`: the continuation is nothing but result phis and the return - give every
	// return of the helper its own return in the caller again
	splitReturnBlock(caller, C)
	for i, b := range caller.Blocks {
		b.Index = i
	}
	rebuildReferrers(caller)
	return nil
}

func rebuildReferrers(fn *ssa.Function) {
	local := map[ssa.Value]bool{}
	for _, p := range fn.Params {
		local[p] = true
	}
	for _, p := range fn.FreeVars {
		local[p] = true
	}
	for _, b := range fn.Blocks {
		for _, in := range b.Instrs {
			if v, ok := in.(ssa.Value); ok {
				local[v] = true
			}
		}
	}
	for v := range local {
		if r := v.Referrers(); r != nil {
			*r = nil
		}
	}
	for _, b := range fn.Blocks {
		for _, in := range b.Instrs {
			for _, p := range in.Operands(nil) {
				if *p == nil {
					continue
				}
				r := (*p).Referrers()
				if r == nil {
					continue
				}
				if !local[*p] {
					present := false
					for _, x := range *r {
						if x == in {
							present = true
						}
					}
					if present {
						continue
					}
				}
				*r = append(*r, in)
			}
		}
	}
}

// checkFunction verifies the structural invariants of go/ssa that this
// checker relies on.
func checkFunction(fn *ssa.Function) error {
	defined := map[ssa.Value]bool{}
	for _, p := range fn.Params {
		defined[p] = true
	}
	for _, p := range fn.FreeVars {
		defined[p] = true
	}
	inFn := map[*ssa.BasicBlock]bool{}
	for i, b := range fn.Blocks {
		if b.Index != i {
			return fmt.Errorf("block %d has index %d", i, b.Index)
		}
		if b.Parent() != fn {
			return fmt.Errorf("block %d has another parent", i)
		}
		inFn[b] = true
		for _, in := range b.Instrs {
			if v, ok := in.(ssa.Value); ok {
				defined[v] = true
			}
		}
	}
	InvalidateDom(fn)
	defBlock := map[ssa.Value]*ssa.BasicBlock{}
	defIdx := map[ssa.Value]int{}
	for _, b := range fn.Blocks {
		for k, in := range b.Instrs {
			if v, ok := in.(ssa.Value); ok {
				defBlock[v] = b
				defIdx[v] = k
			}
		}
	}
	for _, b := range fn.Blocks {
		if len(b.Preds) == 0 && b != fn.Blocks[0] {
			continue
		}
		for k, in := range b.Instrs {
			phi, isPhi := in.(*ssa.Phi)
			for oi, p := range in.Operands(nil) {
				v := *p
				if v == nil {
					continue
				}
				db, ok := defBlock[v]
				if !ok {
					continue
				}
				if isPhi {
					if oi < len(phi.Edges) && oi < len(b.Preds) && !Dominates(db, b.Preds[oi]) {
						return fmt.Errorf("phi operand %s (block %d) does not dominate predecessor %d of block %d", v.Name(), db.Index, b.Preds[oi].Index, b.Index)
					}
					continue
				}
				if db == b {
					if defIdx[v] >= k {
						return fmt.Errorf("use of %s before its definition in block %d", v.Name(), b.Index)
					}
				} else if !Dominates(db, b) {
					return fmt.Errorf("definition of %s (block %d) does not dominate its use in block %d (%v)", v.Name(), db.Index, b.Index, in)
				}
			}
		}
	}
	for _, b := range fn.Blocks {
		if len(b.Instrs) == 0 {
			return fmt.Errorf("block %d is empty", b.Index)
		}
		for k, in := range b.Instrs {
			if in.Block() != b {
				return fmt.Errorf("instruction %v in block %d claims block %v", in, b.Index, in.Block())
			}
			last := k == len(b.Instrs)-1
			switch in.(type) {
			case *ssa.If, *ssa.Jump, *ssa.Return, *ssa.Panic:
				if !last {
					return fmt.Errorf("terminator in the middle of block %d", b.Index)
				}
			default:
				if last {
					return fmt.Errorf("block %d does not end in a terminator (%T)", b.Index, in)
				}
			}
			if phi, ok := in.(*ssa.Phi); ok && len(phi.Edges) != len(b.Preds) {
				return fmt.Errorf("phi in block %d has %d edges for %d predecessors", b.Index, len(phi.Edges), len(b.Preds))
			}
			for _, p := range in.Operands(nil) {
				v := *p
				if v == nil {
					continue
				}
				switch v.(type) {
				case *ssa.Const, *ssa.Global, *ssa.Builtin, *ssa.Function:
					continue
				}
				if !defined[v] {
					return fmt.Errorf("operand %s (%T) of %v in block %d is not defined in the function", v.Name(), v, in, b.Index)
				}
			}
		}
		want := 0
		switch b.Instrs[len(b.Instrs)-1].(type) {
		case *ssa.If:
			want = 2
		case *ssa.Jump:
			want = 1
		}
		if len(b.Succs) != want {
			return fmt.Errorf("block %d has %d successors, terminator wants %d", b.Index, len(b.Succs), want)
		}
		for _, s := range b.Succs {
			if !inFn[s] {
				return fmt.Errorf("successor of block %d outside the function", b.Index)
			}
			found := false
			for _, p := range s.Preds {
				if p == b {
					found = true
				}
			}
			if !found {
				return fmt.Errorf("block %d is not among the predecessors of its successor %d", b.Index, s.Index)
			}
		}
		for _, p := range b.Preds {
			if !inFn[p] {
				return fmt.Errorf("predecessor of block %d outside the function", b.Index)
			}
			found := false
			for _, s := range p.Succs {
				if s == b {
					found = true
				}
			}
			if !found {
				return fmt.Errorf("block %d is not among the successors of its predecessor %d", b.Index, p.Index)
			}
		}
	}
	return nil
}

var _ = types.Typ

// ---------------------------------------------------------------------------
// Local helper closures.
//
// `addSpec := func(spec *Spec) {...}` declared in a function and called from it
// or from a sibling closure is the closure form of extract-function. A closure
// whose key (enclosing function + parameter/result types) is not in the known
// list is expanded at its call sites like a helper function; its free variables
// are the cells of the enclosing function, which the calling closure either
// already captures or is made to capture (a new free variable bound to the same
// cell).

// ClosureKey identifies an anonymous function by its enclosing function and the
// types of its signature.
func (u *Universe) ClosureKey(fn *ssa.Function) string {
	sig := fn.Signature
	s := "func("
	for i := 0; i < sig.Params().Len(); i++ {
		if i > 0 {
			s += ","
		}
		if sig.Variadic() && i == sig.Params().Len()-1 {
			s += "..."
		}
		s += types.TypeString(sig.Params().At(i).Type(), nil)
	}
	s += ")"
	for i := 0; i < sig.Results().Len(); i++ {
		s += " " + types.TypeString(sig.Results().At(i).Type(), nil)
	}
	return u.funcKey(topLevel(fn)) + "$" + s
}

// singleAssignedClosure: cell holds, for its whole life, the closure created by one
// MakeClosure (one store, otherwise only loads and captures).
func singleAssignedClosure(cell *ssa.Alloc) *ssa.MakeClosure {
	if cell.Referrers() == nil {
		return nil
	}
	var mc *ssa.MakeClosure
	for _, r := range *cell.Referrers() {
		switch x := r.(type) {
		case *ssa.Store:
			if x.Addr != ssa.Value(cell) || mc != nil {
				return nil
			}
			m, ok := x.Val.(*ssa.MakeClosure)
			if !ok {
				return nil
			}
			mc = m
		case *ssa.UnOp, *ssa.MakeClosure, *ssa.DebugRef:
		default:
			return nil
		}
	}
	return mc
}

func uniqueSite(parent, fn *ssa.Function) *ssa.MakeClosure {
	var site *ssa.MakeClosure
	for _, b := range parent.Blocks {
		for _, in := range b.Instrs {
			if mc, ok := in.(*ssa.MakeClosure); ok && mc.Fn == ssa.Value(fn) {
				if site != nil {
					return nil
				}
				site = mc
			}
		}
	}
	return site
}

// InlineUnknownClosures expands calls of local helper closures that are not in the
// known list. Returns what was expanded.
func (u *Universe) InlineUnknownClosures(known func(key string) bool) ([]InlineReport, error) {
	var rep []InlineReport
	var repo []*ssa.Function
	for fn := range ssautil.AllFunctions(u.Prog) {
		if u.IsRepoFunc(fn) && len(fn.Blocks) > 0 {
			repo = append(repo, fn)
		}
	}
	sort.Slice(repo, func(i, j int) bool { return repo[i].String() < repo[j].String() })
	touched := map[*ssa.Function]bool{}
	for _, P := range repo {
		for _, F := range P.AnonFuncs {
			if !inlinableBody(F) || known(u.ClosureKey(F)) {
				continue
			}
			mcF := uniqueSite(P, F)
			if mcF == nil || mcF.Referrers() == nil {
				continue
			}
			// the cell the closure lives in (if any)
			var cell *ssa.Alloc
			direct := true
			for _, r := range *mcF.Referrers() {
				switch x := r.(type) {
				case *ssa.Store:
					a, ok := x.Addr.(*ssa.Alloc)
					if !ok || x.Val != ssa.Value(mcF) || singleAssignedClosure(a) != mcF {
						direct = false
					} else {
						cell = a
					}
				case *ssa.Call:
					if x.Call.Value != ssa.Value(mcF) {
						direct = false // passed as an argument
					}
				case *ssa.DebugRef:
				default:
					direct = false
				}
			}
			if !direct {
				continue
			}
			// F must not call itself
			selfRef := false
			for _, b := range F.Blocks {
				for _, in := range b.Instrs {
					for _, op := range in.Operands(nil) {
						if *op == ssa.Value(F) {
							selfRef = true
						}
					}
				}
			}
			if selfRef {
				continue
			}
			// call sites in P
			type site struct {
				in    *ssa.Function
				call  *ssa.Call
				extra map[ssa.Value]ssa.Value
			}
			var sites []site
			okAll := true
			for _, b := range P.Blocks {
				for _, in := range b.Instrs {
					call, ok := in.(*ssa.Call)
					if !ok || call.Call.IsInvoke() {
						continue
					}
					v := call.Call.Value
					hit := v == ssa.Value(mcF)
					if ld, isLoad := v.(*ssa.UnOp); isLoad && cell != nil && ld.X == ssa.Value(cell) {
						hit = true
					}
					if hit {
						extra := map[ssa.Value]ssa.Value{}
						for i, fv := range F.FreeVars {
							extra[fv] = mcF.Bindings[i]
						}
						sites = append(sites, site{P, call, extra})
					}
				}
			}
			// call sites in sibling closures that capture the cell
			if cell != nil {
				for _, r := range *cell.Referrers() {
					mcG, ok := r.(*ssa.MakeClosure)
					if !ok {
						continue
					}
					G, _ := mcG.Fn.(*ssa.Function)
					if G == nil || G == F || uniqueSite(P, G) != mcG {
						okAll = false
						continue
					}
					var fvCell *ssa.FreeVar
					for i, bv := range mcG.Bindings {
						if bv == ssa.Value(cell) {
							fvCell = G.FreeVars[i]
						}
					}
					if fvCell == nil || fvCell.Referrers() == nil {
						continue
					}
					for _, fr := range *fvCell.Referrers() {
						ld, isLoad := fr.(*ssa.UnOp)
						if !isLoad || ld.Referrers() == nil {
							okAll = false
							continue
						}
						for _, lr := range *ld.Referrers() {
							call, isCall := lr.(*ssa.Call)
							if !isCall || call.Call.Value != ssa.Value(ld) {
								okAll = false // the closure value escapes
								continue
							}
							// F's free variables as seen from G
							extra := map[ssa.Value]ssa.Value{}
							for i, fv := range F.FreeVars {
								bind := mcF.Bindings[i]
								var gv *ssa.FreeVar
								for j, bv := range mcG.Bindings {
									if bv == bind {
										gv = G.FreeVars[j]
									}
								}
								if gv == nil {
									gv = &ssa.FreeVar{}
									setHidden(gv, "name", fv.Name())
									setHidden(gv, "typ", fv.Type())
									setHidden(gv, "pos", fv.Pos())
									setHidden(gv, "parent", G)
									setHidden(gv, "outer", bind)
									G.FreeVars = append(G.FreeVars, gv)
									mcG.Bindings = append(mcG.Bindings, bind)
									touched[P] = true
								}
								extra[fv] = gv
							}
							sites = append(sites, site{G, call, extra})
						}
					}
				}
			}
			if !okAll || len(sites) == 0 {
				continue
			}
			for _, st := range sites {
				if len(st.call.Call.Args) != len(F.Params) {
					continue
				}
				rep = append(rep, InlineReport{Caller: u.RelName(st.in), Callee: u.RelName(F), Pos: u.Pos(st.call.Pos())})
				if err := inlineCallWith(st.in, st.call, F, st.extra); err != nil {
					return rep, fmt.Errorf("inlining closure %s into %s: %v", F, st.in, err)
				}
				touched[st.in] = true
			}
		}
	}
	for _, fn := range repo {
		if touched[fn] {
			rebuildReferrers(fn)
			cleanup(fn)
			ThreadJumps(fn)
			if err := checkFunction(fn); err != nil {
				return rep, fmt.Errorf("after closure expansion in %s: %v", fn, err)
			}
		}
	}
	return rep, nil
}
