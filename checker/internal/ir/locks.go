package ir

import (
	"go/types"
	"sort"
	"strings"

	"golang.org/x/tools/go/ssa"
)

// LockOp describes a call that acquires or releases a lock.
type LockOp struct {
	Call    ssa.CallInstruction
	Class   string // lock class, "" if the lock could not be classified
	Acquire bool
	Read    bool // RLock/RUnlock
	Defer   bool // the op is deferred (runs at function exit)
}

// LockClassOf classifies the lock a *sync.Mutex / *sync.RWMutex value
// denotes: "T.field" for a mutex field of struct type T (embedded or named),
// "global:name" for a package-level lock. Parameters of mutex pointer type
// are traced to the arguments of all call sites.
func (u *Universe) LockClassOf(v ssa.Value) []string {
	set := map[string]bool{}
	u.lockClass(v, set, map[ssa.Value]bool{})
	var out []string
	for k := range set {
		out = append(out, k)
	}
	sort.Strings(out)
	return out
}

func (u *Universe) lockClass(v ssa.Value, out map[string]bool, seen map[ssa.Value]bool) {
	if v == nil || seen[v] {
		return
	}
	seen[v] = true
	for _, p := range u.PathsOf(v) {
		switch p.Kind() {
		case RootGlobal:
			if len(p.Sels) == 0 {
				out["global:"+p.Root.(*ssa.Global).Name()] = true
				continue
			}
		}
		if n := len(p.Sels); n > 0 && p.Sels[n-1].F != nil {
			f := p.Sels[n-1].F
			// owner struct type: find the struct declaring this field
			owner := fieldOwner(u, f)
			out[owner+"."+f.Name()] = true
			continue
		}
		if par, ok := p.Root.(*ssa.Parameter); ok && len(p.Sels) == 0 {
			fn := par.Parent()
			idx := -1
			for i, pp := range fn.Params {
				if pp == par {
					idx = i
				}
			}
			sites := u.CallSitesOf(fn)
			if idx < 0 || len(sites) == 0 {
				out["param:"+u.ShortName(fn)+"."+par.Name()] = true
				continue
			}
			for _, s := range sites {
				args := s.Common().Args
				if idx < len(args) {
					u.lockClass(args[idx], out, seen)
				}
			}
			continue
		}
		out["?"+p.String()] = true
	}
}

// fieldOwner finds the name of the repository struct type declaring field f.
func fieldOwner(u *Universe, f *types.Var) string {
	for _, pkg := range u.Pkgs {
		if pkg.Types == nil {
			continue
		}
		sc := pkg.Types.Scope()
		for _, name := range sc.Names() {
			tn, ok := sc.Lookup(name).(*types.TypeName)
			if !ok {
				continue
			}
			st, ok := tn.Type().Underlying().(*types.Struct)
			if !ok {
				continue
			}
			for i := 0; i < st.NumFields(); i++ {
				if st.Field(i) == f {
					return tn.Name()
				}
			}
		}
	}
	if f.Pkg() != nil {
		return f.Pkg().Name()
	}
	return "?"
}

// LockOpOf decodes a call instruction as a lock operation on a sync.Mutex or
// sync.RWMutex, or returns nil.
func (u *Universe) LockOpOf(c ssa.CallInstruction) *LockOp {
	cc := c.Common()
	if cc.IsInvoke() {
		return nil
	}
	f := cc.StaticCallee()
	if f == nil {
		return nil
	}
	full := f.String()
	var op LockOp
	switch full {
	case "(*sync.Mutex).Lock", "(*sync.RWMutex).Lock":
		op.Acquire = true
	case "(*sync.Mutex).Unlock", "(*sync.RWMutex).Unlock":
	case "(*sync.RWMutex).RLock":
		op.Acquire, op.Read = true, true
	case "(*sync.RWMutex).RUnlock":
		op.Read = true
	default:
		return nil
	}
	op.Call = c
	_, op.Defer = c.(*ssa.Defer)
	if len(cc.Args) > 0 {
		cl := u.LockClassOf(cc.Args[0])
		if len(cl) == 1 && !strings.HasPrefix(cl[0], "?") {
			op.Class = cl[0]
		} else if len(cl) > 0 {
			op.Class = "?" + strings.Join(cl, "|")
		}
	}
	return &op
}

// LockSet is a set of held lock classes; value true = held for writing
// (exclusive), false = held for reading only.
type LockSet map[string]bool

func (s LockSet) clone() LockSet {
	n := LockSet{}
	for k, v := range s {
		n[k] = v
	}
	return n
}

func (s LockSet) intersect(o LockSet) LockSet {
	n := LockSet{}
	for k, v := range s {
		if ov, ok := o[k]; ok {
			n[k] = v && ov
		}
	}
	return n
}

func (s LockSet) equal(o LockSet) bool {
	if len(s) != len(o) {
		return false
	}
	for k, v := range s {
		if ov, ok := o[k]; !ok || ov != v {
			return false
		}
	}
	return true
}

// String lists the held classes.
func (s LockSet) String() string {
	var ks []string
	for k, w := range s {
		if w {
			ks = append(ks, k)
		} else {
			ks = append(ks, k+"(r)")
		}
	}
	sort.Strings(ks)
	return "{" + strings.Join(ks, ",") + "}"
}

// LockInfo is the result of the must-hold analysis of one function with an
// empty lockset at entry.
type LockInfo struct {
	Fn  *ssa.Function
	Ops []*LockOp
	// Before gives the locks certainly held just before each instruction.
	Before map[ssa.Instruction]LockSet
}

// LockAnalysis runs the forward must-hold lockset analysis on fn.
func (u *Universe) LockAnalysis(fn *ssa.Function) *LockInfo {
	li := &LockInfo{Fn: fn, Before: map[ssa.Instruction]LockSet{}}
	if len(fn.Blocks) == 0 {
		return li
	}
	ops := map[ssa.Instruction]*LockOp{}
	for _, b := range fn.Blocks {
		for _, in := range b.Instrs {
			if c, ok := in.(ssa.CallInstruction); ok {
				if op := u.LockOpOf(c); op != nil {
					ops[in] = op
					li.Ops = append(li.Ops, op)
				}
			}
		}
	}
	in := map[*ssa.BasicBlock]LockSet{}
	out := map[*ssa.BasicBlock]LockSet{}
	transfer := func(b *ssa.BasicBlock, s LockSet, record bool) LockSet {
		cur := s.clone()
		for _, ins := range b.Instrs {
			if record {
				li.Before[ins] = cur.clone()
			}
			if op := ops[ins]; op != nil && !op.Defer && op.Class != "" {
				if op.Acquire {
					cur[op.Class] = !op.Read
				} else {
					delete(cur, op.Class)
				}
			}
		}
		return cur
	}
	// iterate to fixpoint; unvisited predecessors are ignored (optimistic),
	// which is the standard treatment for must-analyses
	in[fn.Blocks[0]] = LockSet{}
	changed := true
	visited := map[*ssa.BasicBlock]bool{}
	for iter := 0; changed && iter < 100; iter++ {
		changed = false
		for _, b := range fn.Blocks {
			var s LockSet
			if b == fn.Blocks[0] {
				s = LockSet{}
			} else {
				first := true
				for _, p := range b.Preds {
					if !visited[p] {
						continue
					}
					if first {
						s = out[p].clone()
						first = false
					} else {
						s = s.intersect(out[p])
					}
				}
				if first {
					continue // no visited predecessor yet
				}
			}
			o := transfer(b, s, false)
			if !visited[b] || !o.equal(out[b]) || !s.equal(in[b]) {
				changed = true
			}
			visited[b] = true
			in[b] = s
			out[b] = o
		}
	}
	for _, b := range fn.Blocks {
		if visited[b] {
			transfer(b, in[b], true)
		}
	}
	return li
}

// HasGo reports whether fn contains a go statement.
func HasGo(fn *ssa.Function) bool {
	for _, b := range fn.Blocks {
		for _, in := range b.Instrs {
			if _, ok := in.(*ssa.Go); ok {
				return true
			}
		}
	}
	return false
}
