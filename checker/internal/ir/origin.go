package ir

import (
	"fmt"
	"go/token"
	"go/types"
	"sort"
	"strings"

	"golang.org/x/tools/go/ssa"
)

// Sel is one step of an access path: a struct field, or (F == nil) an
// element of a slice, array, map or string.
type Sel struct {
	F *types.Var
}

func (s Sel) String() string {
	if s.F == nil {
		return "[*]"
	}
	return "." + s.F.Name()
}

// Path is a deref-insensitive access path: a root value followed by field
// and element selections. A pointer and the object it points to, and the
// address of a field and the value of that field, have the same Path.
type Path struct {
	Root ssa.Value
	Res  int // result index when Root is a call with several results
	Sels []Sel
	// Trunc marks a path that was cut at the length limit; what it denotes
	// is some unknown extension of the shown path.
	Trunc bool
}

// RootKind classifies what a path starts from.
type RootKind int

const (
	RootParam RootKind = iota
	RootGlobal
	RootAlloc   // local variable or object allocated in the analysed function
	RootFresh   // make(...), closure, function value
	RootCall    // result of a call that could not be looked through
	RootConst   // constant
	RootOther   // computed value (arithmetic, string concatenation, channel receive, ...)
	RootFreeVar // unresolved free variable
)

// Kind returns the classification of the path's root.
func (p Path) Kind() RootKind {
	switch p.Root.(type) {
	case *ssa.Parameter:
		return RootParam
	case *ssa.Global:
		return RootGlobal
	case *ssa.Alloc:
		return RootAlloc
	case *ssa.MakeMap, *ssa.MakeSlice, *ssa.MakeChan, *ssa.MakeClosure, *ssa.Function:
		return RootFresh
	case *ssa.Call:
		return RootCall
	case *ssa.Const:
		return RootConst
	case *ssa.FreeVar:
		return RootFreeVar
	}
	return RootOther
}

// RootName is a short stable description of the root.
func (p Path) RootName() string {
	switch r := p.Root.(type) {
	case *ssa.Parameter:
		return "param:" + r.Name()
	case *ssa.Global:
		return "global:" + r.Name()
	case *ssa.Alloc:
		if r.Comment != "" {
			return "local:" + r.Comment
		}
		return "local:" + r.Name()
	case *ssa.Call:
		n := "call"
		if f := r.Call.StaticCallee(); f != nil {
			n = "call:" + f.Name()
		} else if b, ok := r.Call.Value.(*ssa.Builtin); ok {
			n = "call:" + b.Name()
		} else if r.Call.IsInvoke() {
			n = "call:" + r.Call.Method.Name()
		}
		if p.Res > 0 {
			n += fmt.Sprintf("#%d", p.Res)
		}
		return n
	case *ssa.Const:
		return "const:" + r.String()
	case *ssa.MakeMap:
		return "make:map" + varNameOf(r)
	case *ssa.MakeSlice:
		return "make:slice" + varNameOf(r)
	case *ssa.MakeChan:
		return "make:chan"
	case *ssa.MakeClosure:
		return "closure:" + r.Fn.Name()
	case *ssa.Function:
		return "func:" + r.Name()
	case *ssa.FreeVar:
		return "freevar:" + r.Name()
	}
	if p.Root == nil {
		return "?"
	}
	return fmt.Sprintf("value:%T", p.Root)
}

func (p Path) String() string {
	var sb strings.Builder
	sb.WriteString(p.RootName())
	for _, s := range p.Sels {
		sb.WriteString(s.String())
	}
	if p.Trunc {
		sb.WriteString("…")
	}
	return sb.String()
}

// SelString renders only the selectors.
func (p Path) SelString() string {
	var sb strings.Builder
	for _, s := range p.Sels {
		sb.WriteString(s.String())
	}
	return sb.String()
}

func (p Path) key() string {
	return fmt.Sprintf("%p/%d/%s/%v", p.Root, p.Res, p.SelString(), p.Trunc)
}

func (p Path) with(s Sel) Path {
	n := Path{Root: p.Root, Res: p.Res, Trunc: p.Trunc}
	n.Sels = append(append([]Sel{}, p.Sels...), s)
	return n
}

// HasField reports whether some selector is the named field of the named
// struct type (type name without package, "" = any).
func (p Path) HasField(field string) bool {
	for _, s := range p.Sels {
		if s.F != nil && s.F.Name() == field {
			return true
		}
	}
	return false
}

// LastField returns the last field selector's name ("" if none).
func (p Path) LastField() string {
	for i := len(p.Sels) - 1; i >= 0; i-- {
		if p.Sels[i].F != nil {
			return p.Sels[i].F.Name()
		}
	}
	return ""
}

const (
	maxSels  = 10
	maxPaths = 48
)

func dedupPaths(ps []Path) []Path {
	if len(ps) < 2 {
		return ps
	}
	seen := map[string]bool{}
	out := ps[:0:0]
	for _, p := range ps {
		k := p.key()
		if !seen[k] {
			seen[k] = true
			out = append(out, p)
		}
	}
	if len(out) > maxPaths {
		out = out[:maxPaths]
	}
	return out
}

// PathsOf computes the access paths a value may denote.
func (u *Universe) PathsOf(v ssa.Value) []Path {
	return u.pathsOf(v, map[ssa.Value]bool{})
}

func (u *Universe) pathsOf(v ssa.Value, busy map[ssa.Value]bool) []Path {
	if v == nil {
		return nil
	}
	if ps, ok := u.pathMemo[v]; ok {
		return ps
	}
	if busy[v] {
		return nil
	}
	busy[v] = true
	ps := dedupPaths(u.pathsOf1(v, busy))
	delete(busy, v)
	// only memoise results computed outside of a cycle
	if len(busy) == 0 {
		u.pathMemo[v] = ps
	}
	return ps
}

func (u *Universe) extendAll(ps []Path, s Sel, busy map[ssa.Value]bool) []Path {
	var out []Path
	for _, p := range ps {
		out = append(out, u.extend(p, s, busy)...)
	}
	return dedupPaths(out)
}

func (u *Universe) pathsOf1(v ssa.Value, busy map[ssa.Value]bool) []Path {
	switch x := v.(type) {
	case *ssa.Parameter, *ssa.Global, *ssa.Const, *ssa.MakeMap, *ssa.MakeSlice,
		*ssa.MakeChan, *ssa.MakeClosure, *ssa.Function, *ssa.Alloc:
		return []Path{{Root: v}}
	case *ssa.FreeVar:
		bs := u.FreeVarBindings(x)
		if len(bs) == 0 {
			return []Path{{Root: v}}
		}
		var out []Path
		for _, b := range bs {
			out = append(out, u.pathsOf(b, busy)...)
		}
		return out
	case *ssa.Phi:
		var out []Path
		for _, e := range x.Edges {
			out = append(out, u.pathsOf(e, busy)...)
		}
		return out
	case *ssa.UnOp:
		if x.Op == token.MUL {
			return u.loadPaths(x.X, busy)
		}
		if x.Op == token.ARROW {
			return []Path{{Root: v}}
		}
		return []Path{{Root: v}}
	case *ssa.FieldAddr:
		st := StructOf(x.X.Type())
		if st == nil {
			return []Path{{Root: v}}
		}
		return u.extendAll(u.pathsOf(x.X, busy), Sel{st.Field(x.Field)}, busy)
	case *ssa.Field:
		st := StructOf(x.X.Type())
		if st == nil {
			return []Path{{Root: v}}
		}
		return u.extendAll(u.pathsOf(x.X, busy), Sel{st.Field(x.Field)}, busy)
	case *ssa.IndexAddr:
		return u.extendAll(u.pathsOf(x.X, busy), Sel{}, busy)
	case *ssa.Index:
		return u.extendAll(u.pathsOf(x.X, busy), Sel{}, busy)
	case *ssa.Lookup:
		return u.extendAll(u.pathsOf(x.X, busy), Sel{}, busy)
	case *ssa.Slice:
		return u.pathsOf(x.X, busy)
	case *ssa.ChangeType:
		return u.pathsOf(x.X, busy)
	case *ssa.ChangeInterface:
		return u.pathsOf(x.X, busy)
	case *ssa.MakeInterface:
		return u.pathsOf(x.X, busy)
	case *ssa.SliceToArrayPointer:
		return u.pathsOf(x.X, busy)
	case *ssa.Convert:
		// conversions between string/[]byte/numeric types create new values
		return []Path{{Root: v}}
	case *ssa.TypeAssert:
		return u.pathsOf(x.X, busy)
	case *ssa.Extract:
		switch t := x.Tuple.(type) {
		case *ssa.Call:
			return u.callPaths(t, x.Index, busy)
		case *ssa.Lookup:
			if x.Index == 0 {
				return u.extendAll(u.pathsOf(t.X, busy), Sel{}, busy)
			}
			return []Path{{Root: v}}
		case *ssa.TypeAssert:
			if x.Index == 0 {
				return u.pathsOf(t.X, busy)
			}
			return []Path{{Root: v}}
		case *ssa.Next:
			if r, ok := t.Iter.(*ssa.Range); ok && x.Index == 2 {
				return u.extendAll(u.pathsOf(r.X, busy), Sel{}, busy)
			}
			return []Path{{Root: v}}
		case *ssa.UnOp: // v, ok := <-ch
			return []Path{{Root: v}}
		}
		return []Path{{Root: v}}
	case *ssa.Call:
		return u.callPaths(x, 0, busy)
	}
	return []Path{{Root: v}}
}

// loadPaths: the value stored at address addr.
func (u *Universe) loadPaths(addr ssa.Value, busy map[ssa.Value]bool) []Path {
	cell := u.CellOf(addr)
	switch c := cell.(type) {
	case *ssa.Alloc:
		vals := u.StoredValues(c)
		if len(vals) == 0 {
			return []Path{{Root: c}}
		}
		var out []Path
		for _, sv := range vals {
			out = append(out, u.pathsOf(sv, busy)...)
		}
		// a struct-typed local that is also written field by field keeps its
		// own identity as well
		if _, isStruct := c.Type().(*types.Pointer).Elem().Underlying().(*types.Struct); isStruct {
			out = append(out, Path{Root: c})
		}
		return out
	case *ssa.Global:
		return []Path{{Root: c}}
	}
	// *(&x.f), *(&x[i]), *p : same path as the address (deref-insensitive)
	return u.pathsOf(addr, busy)
}

// AddrPaths: the memory a store to addr writes.
func (u *Universe) AddrPaths(addr ssa.Value) []Path {
	return u.addrPaths(addr, map[ssa.Value]bool{})
}

func (u *Universe) addrPaths(addr ssa.Value, busy map[ssa.Value]bool) []Path {
	cell := u.CellOf(addr)
	switch c := cell.(type) {
	case *ssa.Alloc:
		return []Path{{Root: c}}
	case *ssa.Global:
		return []Path{{Root: c}}
	case *ssa.FieldAddr:
		st := StructOf(c.X.Type())
		if st == nil {
			return []Path{{Root: c}}
		}
		var out []Path
		for _, b := range u.pathsOf(c.X, busy) {
			out = append(out, u.rawExtend(b, Sel{st.Field(c.Field)}))
		}
		return dedupPaths(out)
	case *ssa.IndexAddr:
		var out []Path
		for _, b := range u.pathsOf(c.X, busy) {
			out = append(out, u.rawExtend(b, Sel{}))
		}
		return dedupPaths(out)
	}
	return u.pathsOf(cell, busy)
}

func (u *Universe) rawExtend(p Path, s Sel) Path {
	if p.Trunc {
		return p
	}
	if len(p.Sels) >= maxSels {
		p.Trunc = true
		return p
	}
	return p.with(s)
}

// extend applies one selection to a path and resolves the result through
// stores into local objects and through the bodies of repository functions
// whose result the path starts from.
func (u *Universe) extend(p Path, s Sel, busy map[ssa.Value]bool) []Path {
	np := u.rawExtend(p, s)
	if np.Trunc {
		return []Path{np}
	}
	switch r := p.Root.(type) {
	case *ssa.Alloc:
		if res, ok := u.localFieldValues(r, np.Sels, busy); ok {
			return res
		}
	case *ssa.Call:
		if BuiltinName(r) == "append" && len(p.Sels) == 0 && s.F == nil && len(r.Call.Args) == 2 && !u.callBusy[r] {
			// elements of append(a, b...) are the elements of a and of b
			u.callBusy[r] = true
			var out []Path
			elems := u.ContainerElems(r.Call.Args[1])
			for _, ev := range elems {
				out = append(out, u.pathsOf(ev, busy)...)
			}
			if len(elems) == 0 {
				out = append(out, u.extendAll(u.pathsOf(r.Call.Args[1], busy), s, busy)...)
			}
			out = append(out, u.extendAll(u.pathsOf(r.Call.Args[0], busy), s, busy)...)
			delete(u.callBusy, r)
			if len(out) > 0 {
				return dedupPaths(out)
			}
		}
		if res, ok := u.throughCall(r, np, busy); ok {
			return res
		}
	}
	return []Path{np}
}

type localStore struct {
	sels []Sel
	val  ssa.Value
}

func selsEqual(a, b []Sel) bool {
	if len(a) != len(b) {
		return false
	}
	for i := range a {
		if a[i].F != b[i].F {
			return false
		}
	}
	return true
}

// localStores lists the stores into (fields of) a local object.
func (u *Universe) localStores(a *ssa.Alloc, busy map[ssa.Value]bool) []localStore {
	var out []localStore
	for _, fn := range WithClosures(a.Parent()) {
		for _, b := range fn.Blocks {
			for _, in := range b.Instrs {
				st, ok := in.(*ssa.Store)
				if !ok {
					continue
				}
				// cheap pre-filter: the address chain must start at a
				cur := st.Addr
				depth := 0
			chase:
				for depth < 12 {
					depth++
					switch y := cur.(type) {
					case *ssa.FieldAddr:
						cur = y.X
					case *ssa.IndexAddr:
						cur = y.X
					case *ssa.UnOp:
						if y.Op == token.MUL {
							cur = y.X
						} else {
							break chase
						}
					case *ssa.FreeVar:
						cur = u.CellOf(y)
						break chase
					case *ssa.Slice:
						cur = y.X
					default:
						break chase
					}
				}
				if cur != ssa.Value(a) {
					continue
				}
				if st.Addr == ssa.Value(a) || u.CellOf(st.Addr) == ssa.Value(a) {
					out = append(out, localStore{nil, st.Val})
					continue
				}
				for _, ap := range u.addrPaths(st.Addr, busy) {
					if ap.Root == ssa.Value(a) && !ap.Trunc {
						out = append(out, localStore{ap.Sels, st.Val})
					}
				}
			}
		}
	}
	return out
}

// localFieldValues resolves the value at selector path sels of local object a
// from the stores made to it in its function.
func (u *Universe) localFieldValues(a *ssa.Alloc, sels []Sel, busy map[ssa.Value]bool) ([]Path, bool) {
	if u.allocBusy[a] {
		return nil, false
	}
	u.allocBusy[a] = true
	defer delete(u.allocBusy, a)
	var out []Path
	found := false
	for _, ls := range u.localStores(a, busy) {
		if len(ls.sels) > len(sels) || !selsEqual(ls.sels, sels[:len(ls.sels)]) {
			continue
		}
		if len(ls.sels) == 0 && len(sels) > 0 {
			// whole-object store: only meaningful when a value with
			// structure is copied in (struct copy, or pointer variable)
			if _, isConst := ls.val.(*ssa.Const); isConst {
				continue
			}
		}
		rest := sels[len(ls.sels):]
		ps := u.pathsOf(ls.val, busy)
		for _, s := range rest {
			ps = u.extendAll(ps, s, busy)
		}
		// drop self references
		for _, q := range ps {
			if q.Root == ssa.Value(a) && selsEqual(q.Sels, sels) {
				continue
			}
			out = append(out, q)
			found = true
		}
	}
	// stores made by callees into this object (see RefineHeap)
	for _, hs := range u.heapStores[a] {
		if len(hs.sels) > len(sels) || !selsEqual(hs.sels, sels[:len(hs.sels)]) {
			continue
		}
		ps := []Path{hs.val}
		for _, s := range sels[len(hs.sels):] {
			ps = u.extendAll(ps, s, busy)
		}
		out = append(out, ps...)
		if !found {
			// the object's own field stays a possibility (callees may also
			// have stored objects they created themselves)
			out = append(out, Path{Root: a, Sels: append([]Sel{}, sels...)})
		}
		found = true
	}
	return dedupPaths(out), found
}

// callPaths: the paths of result number idx of a call.
func (u *Universe) callPaths(c *ssa.Call, idx int, busy map[ssa.Value]bool) []Path {
	if b, ok := c.Call.Value.(*ssa.Builtin); ok {
		switch b.Name() {
		case "append":
			// result shares elements with (and may alias) the first operand
			out := append([]Path{}, u.pathsOf(c.Call.Args[0], busy)...)
			out = append(out, Path{Root: c})
			return out
		}
		return []Path{{Root: c}}
	}
	self := Path{Root: c, Res: idx}
	if res, ok := u.throughCall(c, self, busy); ok {
		return res
	}
	return []Path{self}
}

// throughCall resolves a path rooted at a call result by looking into the
// callee: the selectors are applied to what the callee returns (in the
// callee's own terms) and the result is translated to the caller. It
// reports false when the callee cannot be looked through.
func (u *Universe) throughCall(c *ssa.Call, p Path, busy map[ssa.Value]bool) ([]Path, bool) {
	callee := u.StaticCallee(c)
	if callee == nil || !u.Transparent(callee) {
		return nil, false
	}
	if u.callBusy[c] {
		return nil, false
	}
	u.callBusy[c] = true
	defer delete(u.callBusy, c)
	var inner []Path
	for _, r := range NormalReturns(callee) {
		if p.Res < len(r.Results) {
			inner = append(inner, u.pathsOf(ReturnResult(r, p.Res), busy)...)
		}
	}
	inner = dedupPaths(inner)
	for _, s := range p.Sels {
		inner = u.extendAll(inner, s, busy)
	}
	var out []Path
	for _, q := range inner {
		switch r := q.Root.(type) {
		case *ssa.Parameter:
			if r.Parent() != callee {
				out = append(out, q)
				continue
			}
			out = append(out, u.translateParam(c, callee, r, q, busy)...)
		case *ssa.Global, *ssa.Const:
			out = append(out, q)
		default:
			// an object created inside the callee: stays "result of this
			// call" from the caller's point of view
			out = append(out, p)
		}
	}
	return dedupPaths(out), true
}

func (u *Universe) translateParam(c ssa.CallInstruction, callee *ssa.Function, r *ssa.Parameter, q Path, busy map[ssa.Value]bool) []Path {
	idx := -1
	for i, pp := range callee.Params {
		if pp == r {
			idx = i
		}
	}
	args := c.Common().Args
	if idx < 0 || idx >= len(args) {
		return []Path{q}
	}
	ps := u.pathsOf(args[idx], busy)
	for _, s := range q.Sels {
		ps = u.extendAll(ps, s, busy)
	}
	if q.Trunc {
		for i := range ps {
			ps[i].Trunc = true
		}
	}
	return ps
}

// Translate maps a path expressed in the callee's terms (rooted at one of its
// parameters) to the caller's terms at the given call site.
func (u *Universe) Translate(c ssa.CallInstruction, callee *ssa.Function, q Path) []Path {
	if r, ok := q.Root.(*ssa.Parameter); ok && r.Parent() == callee {
		return u.translateParam(c, callee, r, q, map[ssa.Value]bool{})
	}
	return []Path{q}
}

// SameValue reports whether two values are the same SSA value or denote the
// same single access path (two loads of one field, two calls of one pure
// getter on the same receiver).
func (u *Universe) SameValue(a, b ssa.Value) bool {
	if a == b {
		return true
	}
	pa, pb := u.PathsOf(a), u.PathsOf(b)
	if len(pa) == 0 || len(pa) != len(pb) {
		return false
	}
	ka, kb := []string{}, []string{}
	for _, p := range pa {
		if !p.stable() {
			return false
		}
		ka = append(ka, p.key())
	}
	for _, p := range pb {
		if !p.stable() {
			return false
		}
		kb = append(kb, p.key())
	}
	sort.Strings(ka)
	sort.Strings(kb)
	for i := range ka {
		if ka[i] != kb[i] {
			return false
		}
	}
	return true
}

// stable: the path identifies memory independent of which instruction
// computed it.
func (p Path) stable() bool {
	if p.Trunc {
		return false
	}
	switch p.Kind() {
	case RootParam, RootGlobal, RootAlloc:
		return true
	case RootConst:
		return true
	}
	return false
}

// PathStrings renders a set of paths, sorted.
func PathStrings(ps []Path) []string {
	var out []string
	for _, p := range ps {
		out = append(out, p.String())
	}
	sort.Strings(out)
	return out
}

// Extend applies a field selection to a set of paths (resolving through
// local stores and callee bodies like the analysis itself does).
func (u *Universe) Extend(ps []Path, f *types.Var) []Path {
	return u.extendAll(ps, Sel{F: f}, map[ssa.Value]bool{})
}

// ExtendElem applies an element selection to a set of paths.
func (u *Universe) ExtendElem(ps []Path) []Path {
	return u.extendAll(ps, Sel{}, map[ssa.Value]bool{})
}

// FieldByName finds a field of the struct underlying t (through a pointer).
func FieldByName(t types.Type, name string) *types.Var {
	st := StructOf(t)
	if st == nil {
		return nil
	}
	for i := 0; i < st.NumFields(); i++ {
		if st.Field(i).Name() == name {
			return st.Field(i)
		}
	}
	return nil
}

// varNameOf: "(name)" of the source variable a freshly made value is first
// stored into, when there is exactly one such named cell.
func varNameOf(v ssa.Value) string {
	refs := v.Referrers()
	if refs == nil {
		return ""
	}
	name := ""
	for _, r := range *refs {
		if st, ok := r.(*ssa.Store); ok && st.Val == v {
			if a, ok := st.Addr.(*ssa.Alloc); ok && a.Comment != "" {
				if name != "" && name != a.Comment {
					return ""
				}
				name = a.Comment
			}
		}
		if dr, ok := r.(*ssa.DebugRef); ok {
			_ = dr
		}
	}
	if name == "" {
		return ""
	}
	return "(" + name + ")"
}
