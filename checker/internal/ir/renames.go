package ir

import (
	"fmt"
	"go/ast"
	"go/token"
	"go/types"
	"os"
	"regexp"
	"sort"
	"strings"

	"golang.org/x/tools/go/packages"
)

// Rename normalisation.
//
// The rules name functions, methods, types, fields, package-level variables
// and (in decoded conditions) parameters of the repository. A refactoring that
// only renames such things changes no behaviour, but would leave every rule
// that mentions the old name without its anchor. Before the program is built,
// the declared symbols of the repository packages are compared with the table
// recorded when the rules were written (known_symbols.json): a recorded symbol
// that is gone and an unrecorded one of the same kind, same package/receiver/
// struct position and same type - when that pairing is unambiguous - are taken
// to be one symbol under a new name, and the source is loaded again through an
// overlay in which every identifier resolving to it (go/types Defs and Uses)
// is written with the recorded name. Everything downstream then sees the names
// the rules know. If the overlay does not type-check the original program is
// analysed as it is.

// KnownSymbols is the recorded symbol table.
type KnownSymbols struct {
	Pkgs map[string]*KnownPkg `json:"packages"`
	// Closures: parameter names of the repository's anonymous functions by ClosureKey
	Closures map[string][]string `json:"closures"`
}

// KnownPkg: the symbols of one package.
type KnownPkg struct {
	Types map[string]*KnownType `json:"types"`
	Funcs map[string]*KnownFunc `json:"funcs"` // "name", "(T).name", "(*T).name"
	Vars  map[string]string     `json:"vars"`  // package-level vars and consts: name -> type
}

// KnownType: a named type.
type KnownType struct {
	Underlying string       `json:"underlying"` // kind, and for non-structs the type string
	Fields     []KnownField `json:"fields,omitempty"`
}

// KnownField: a struct field.
type KnownField struct {
	Name     string `json:"name"`
	Type     string `json:"type"`
	Embedded bool   `json:"embedded,omitempty"`
}

// KnownFunc: a function or method.
type KnownFunc struct {
	Sig    string   `json:"sig"`
	Params []string `json:"params"`
	// Calls: names of the functions and methods the body calls (a fingerprint used to tell
	// apart several candidates of one signature)
	Calls []string `json:"calls,omitempty"`
}

// Known is the table the rename normalisation compares against (nil: off).
var Known *KnownSymbols

func qual(p *types.Package) string { return p.Path() }

func funcKeyOf(f *types.Func) string {
	sig := f.Type().(*types.Signature)
	if r := sig.Recv(); r != nil {
		t := r.Type()
		ptr := ""
		if p, ok := t.(*types.Pointer); ok {
			t = p.Elem()
			ptr = "*"
		}
		if n, ok := t.(*types.Named); ok {
			return "(" + ptr + n.Obj().Name() + ")." + f.Name()
		}
	}
	return f.Name()
}

func sigString(sig *types.Signature) string {
	s := "("
	for i := 0; i < sig.Params().Len(); i++ {
		if sig.Variadic() && i == sig.Params().Len()-1 {
			s += "..."
		}
		s += types.TypeString(sig.Params().At(i).Type(), qual) + ","
	}
	s += ")"
	for i := 0; i < sig.Results().Len(); i++ {
		s += types.TypeString(sig.Results().At(i).Type(), qual) + ","
	}
	return s
}

func paramNames(sig *types.Signature) []string {
	var out []string
	if r := sig.Recv(); r != nil {
		out = append(out, r.Name())
	}
	for i := 0; i < sig.Params().Len(); i++ {
		out = append(out, sig.Params().At(i).Name())
	}
	return out
}

// SymbolsOf extracts the symbol table of the repository packages.
func SymbolsOf(pkgs map[string]*packages.Package) *KnownSymbols {
	ks := &KnownSymbols{Pkgs: map[string]*KnownPkg{}}
	for path, p := range pkgs {
		if p.Types == nil {
			continue
		}
		kp := &KnownPkg{Types: map[string]*KnownType{}, Funcs: map[string]*KnownFunc{}, Vars: map[string]string{}}
		ks.Pkgs[path] = kp
		sc := p.Types.Scope()
		for _, name := range sc.Names() {
			switch o := sc.Lookup(name).(type) {
			case *types.TypeName:
				if o.IsAlias() {
					continue
				}
				n, ok := o.Type().(*types.Named)
				if !ok {
					continue
				}
				kt := &KnownType{}
				if st, ok := n.Underlying().(*types.Struct); ok {
					kt.Underlying = "struct"
					for i := 0; i < st.NumFields(); i++ {
						f := st.Field(i)
						kt.Fields = append(kt.Fields, KnownField{Name: f.Name(), Type: types.TypeString(f.Type(), qual), Embedded: f.Embedded()})
					}
				} else {
					kt.Underlying = types.TypeString(n.Underlying(), qual)
				}
				kp.Types[name] = kt
				for i := 0; i < n.NumMethods(); i++ {
					m := n.Method(i)
					kp.Funcs[funcKeyOf(m)] = &KnownFunc{Sig: sigString(m.Type().(*types.Signature)), Params: paramNames(m.Type().(*types.Signature))}
				}
			case *types.Func:
				kp.Funcs[funcKeyOf(o)] = &KnownFunc{Sig: sigString(o.Type().(*types.Signature)), Params: paramNames(o.Type().(*types.Signature))}
			case *types.Var:
				kp.Vars[name] = "var " + types.TypeString(o.Type(), qual)
			case *types.Const:
				kp.Vars[name] = "const " + types.TypeString(o.Type(), qual)
			}
		}
		// call fingerprints
		if p.TypesInfo != nil {
			for _, f := range p.Syntax {
				for _, d := range f.Decls {
					fd, ok := d.(*ast.FuncDecl)
					if !ok || fd.Body == nil {
						continue
					}
					fo, _ := p.TypesInfo.Defs[fd.Name].(*types.Func)
					if fo == nil {
						continue
					}
					kf := kp.Funcs[funcKeyOf(fo)]
					if kf == nil {
						continue
					}
					seen := map[string]bool{}
					ast.Inspect(fd.Body, func(n ast.Node) bool {
						call, ok := n.(*ast.CallExpr)
						if !ok {
							return true
						}
						var id *ast.Ident
						switch fun := call.Fun.(type) {
						case *ast.Ident:
							id = fun
						case *ast.SelectorExpr:
							id = fun.Sel
						}
						if id != nil && !seen[id.Name] {
							seen[id.Name] = true
							kf.Calls = append(kf.Calls, id.Name)
						}
						return true
					})
					sort.Strings(kf.Calls)
				}
			}
		}
	}
	return ks
}

type renamer struct {
	known   *KnownSymbols
	cur     *KnownSymbols
	pkgs    map[string]*packages.Package
	typeRen map[string]string // "pkgpath.New" -> "pkgpath.Old"
	objRen  map[types.Object]string
	report  []string
}

var wordRe = map[string]*regexp.Regexp{}

// norm rewrites renamed type names inside a type string to the recorded names.
func (r *renamer) norm(s string) string {
	for from, to := range r.typeRen {
		re := wordRe[from]
		if re == nil {
			re = regexp.MustCompile(regexp.QuoteMeta(from) + `\b`)
			wordRe[from] = re
		}
		s = re.ReplaceAllString(s, to)
	}
	return s
}

func (r *renamer) recvNorm(pkg, key string) string {
	// "(*New).m" -> "(*Old).m"
	if !strings.HasPrefix(key, "(") {
		return key
	}
	i := strings.Index(key, ").")
	recv := key[1:i]
	ptr := ""
	if strings.HasPrefix(recv, "*") {
		ptr, recv = "*", recv[1:]
	}
	if old, ok := r.typeRen[pkg+"."+recv]; ok {
		recv = strings.TrimPrefix(old, pkg+".")
	}
	return "(" + ptr + recv + ")" + key[i+1:]
}

func methodShape(kp *KnownPkg, typeName string, norm func(string) string) []string {
	var out []string
	for k, f := range kp.Funcs {
		if strings.HasPrefix(k, "("+typeName+").") || strings.HasPrefix(k, "(*"+typeName+").") {
			ptr := ""
			if strings.HasPrefix(k, "(*") {
				ptr = "*"
			}
			out = append(out, ptr+norm(f.Sig))
		}
	}
	sort.Strings(out)
	return out
}

func (r *renamer) typeShape(pkg string, kp *KnownPkg, name string, t *KnownType, self string) string {
	// field types in order (names ignored), references to the type itself written as SELF
	n := func(s string) string {
		s = r.norm(s)
		return strings.ReplaceAll(s, pkg+"."+self, pkg+".SELF")
	}
	var parts []string
	parts = append(parts, t.Underlying)
	if t.Underlying != "struct" {
		parts[0] = n(t.Underlying)
	}
	for _, f := range t.Fields {
		e := ""
		if f.Embedded {
			e = "embedded "
		}
		parts = append(parts, e+n(f.Type))
	}
	parts = append(parts, "methods:")
	parts = append(parts, methodShape(kp, name, n)...)
	return strings.Join(parts, ";")
}

// compute fills typeRen and objRen.
func (r *renamer) compute() {
	// --- types (fixpoint: a renamed type may occur in another renamed type)
	for round := 0; round < 3; round++ {
		for path, kp := range r.known.Pkgs {
			cp := r.cur.Pkgs[path]
			if cp == nil {
				continue
			}
			taken := map[string]bool{}
			for _, old := range r.typeRen {
				taken[old] = true
			}
			for oldName, kt := range kp.Types {
				if _, present := cp.Types[oldName]; present || taken[path+"."+oldName] {
					continue
				}
				want := r.typeShape(path, kp, oldName, kt, oldName)
				var cands []string
				for newName, ct := range cp.Types {
					if _, wasKnown := kp.Types[newName]; wasKnown {
						continue
					}
					if _, already := r.typeRen[path+"."+newName]; already {
						continue
					}
					if r.typeShape(path, cp, newName, ct, newName) == want {
						cands = append(cands, newName)
					}
				}
				if len(cands) == 1 {
					r.typeRen[path+"."+cands[0]] = path + "." + oldName
					r.report = append(r.report, fmt.Sprintf("type %s.%s -> %s", shortPkg(path), oldName, cands[0]))
				}
			}
		}
	}
	curToOldType := func(path, cur string) string {
		if old, ok := r.typeRen[path+"."+cur]; ok {
			return strings.TrimPrefix(old, path+".")
		}
		return cur
	}
	// --- objects
	for path, kp := range r.known.Pkgs {
		cp := r.cur.Pkgs[path]
		p := r.pkgs[path]
		if cp == nil || p == nil || p.Types == nil {
			continue
		}
		sc := p.Types.Scope()
		// type names
		for from, to := range r.typeRen {
			if strings.HasPrefix(from, path+".") {
				if o := sc.Lookup(strings.TrimPrefix(from, path+".")); o != nil {
					r.objRen[o] = strings.TrimPrefix(to, path+".")
				}
			}
		}
		// fields
		for curName := range cp.Types {
			oldName := curToOldType(path, curName)
			kt := kp.Types[oldName]
			tn, _ := sc.Lookup(curName).(*types.TypeName)
			if kt == nil || tn == nil {
				continue
			}
			st, ok := tn.Type().Underlying().(*types.Struct)
			if !ok || kt.Underlying != "struct" {
				continue
			}
			curFields := cp.Types[curName].Fields
			samePositional := len(curFields) == len(kt.Fields)
			if samePositional {
				for i := range curFields {
					if r.norm(curFields[i].Type) != kt.Fields[i].Type {
						samePositional = false
					}
				}
			}
			if samePositional {
				for i := range curFields {
					if curFields[i].Name != kt.Fields[i].Name && !curFields[i].Embedded {
						r.objRen[st.Field(i)] = kt.Fields[i].Name
						r.report = append(r.report, fmt.Sprintf("field %s.%s.%s -> %s", shortPkg(path), oldName, kt.Fields[i].Name, curFields[i].Name))
					}
				}
				continue
			}
			// fields added or removed: pair a missing recorded name with an unrecorded field of the same type
			knownNames := map[string]bool{}
			for _, f := range kt.Fields {
				knownNames[f.Name] = true
			}
			curNames := map[string]bool{}
			for _, f := range curFields {
				curNames[f.Name] = true
			}
			for _, kf := range kt.Fields {
				if curNames[kf.Name] {
					continue
				}
				var cands []int
				for i, cf := range curFields {
					if !knownNames[cf.Name] && !cf.Embedded && r.norm(cf.Type) == kf.Type {
						cands = append(cands, i)
					}
				}
				if len(cands) == 1 {
					r.objRen[st.Field(cands[0])] = kf.Name
					r.report = append(r.report, fmt.Sprintf("field %s.%s.%s -> %s", shortPkg(path), oldName, kf.Name, curFields[cands[0]].Name))
				}
			}
		}
		// functions and methods
		missing := map[string][]string{} // recv|sig -> recorded keys
		for key, kf := range kp.Funcs {
			present := false
			for ck := range cp.Funcs {
				if r.recvNorm(path, ck) == key {
					present = true
				}
			}
			if !present {
				g := recvOfKey(key) + "|" + kf.Sig
				missing[g] = append(missing[g], key)
			}
		}
		fresh := map[string][]string{}
		for ck, cf := range cp.Funcs {
			nk := r.recvNorm(path, ck)
			if _, wasKnown := kp.Funcs[nk]; wasKnown {
				continue
			}
			g := recvOfKey(nk) + "|" + r.norm(cf.Sig)
			fresh[g] = append(fresh[g], ck)
		}
		for g, olds := range missing {
			news := append([]string(nil), fresh[g]...)
			olds = append([]string(nil), olds...)
			sort.Strings(olds)
			sort.Strings(news)
			pair := func(o, n string) {
				if fo := lookupFunc(p.Types, n); fo != nil {
					r.objRen[fo] = nameOfKey(o)
					r.report = append(r.report, fmt.Sprintf("func %s.%s -> %s", shortPkg(path), o, nameOfKey(n)))
				}
			}
			// several functions of one signature: pair by similarity of name and of the calls made,
			// greedily, as long as the best candidate is clearly better than the next one
			for len(olds) > 0 && len(news) > 0 {
				if len(olds) == 1 && len(news) == 1 {
					pair(olds[0], news[0])
					break
				}
				bi, bj, best, second := -1, -1, -1.0, -1.0
				for i, o := range olds {
					for j, n := range news {
						sc := 0.5*jaccard(nameTokens(nameOfKey(o)), nameTokens(nameOfKey(n))) + 0.5*jaccard(kp.Funcs[o].Calls, cp.Funcs[n].Calls)
						if sc > best {
							second = best
							bi, bj, best = i, j, sc
						} else if sc > second {
							second = sc
						}
					}
				}
				if best < 0.3 || best-second < 0.1 {
					break
				}
				pair(olds[bi], news[bj])
				olds = append(olds[:bi], olds[bi+1:]...)
				news = append(news[:bj], news[bj+1:]...)
			}
		}
		// package-level variables and constants
		missV := map[string][]string{}
		for name, ty := range kp.Vars {
			if _, ok := cp.Vars[name]; !ok {
				missV[ty] = append(missV[ty], name)
			}
		}
		freshV := map[string][]string{}
		for name, ty := range cp.Vars {
			if _, ok := kp.Vars[name]; !ok {
				freshV[r.norm(ty)] = append(freshV[r.norm(ty)], name)
			}
		}
		for ty, olds := range missV {
			news := freshV[ty]
			if len(olds) == 1 && len(news) == 1 {
				if o := sc.Lookup(news[0]); o != nil {
					r.objRen[o] = olds[0]
					r.report = append(r.report, fmt.Sprintf("var %s.%s -> %s", shortPkg(path), olds[0], news[0]))
				}
			}
		}
	}
	sort.Strings(r.report)
}

func shortPkg(path string) string {
	if i := strings.LastIndex(path, "/"); i >= 0 {
		return path[i+1:]
	}
	return path
}

func recvOfKey(key string) string {
	if strings.HasPrefix(key, "(") {
		return key[:strings.Index(key, ").")+1]
	}
	return ""
}

func nameOfKey(key string) string {
	if strings.HasPrefix(key, "(") {
		return key[strings.Index(key, ").")+2:]
	}
	return key
}

func lookupFunc(pkg *types.Package, key string) types.Object {
	if !strings.HasPrefix(key, "(") {
		return pkg.Scope().Lookup(key)
	}
	recv := strings.TrimPrefix(recvOfKey(key), "(")
	recv = strings.TrimSuffix(recv, ")")
	recv = strings.TrimPrefix(recv, "*")
	tn, _ := pkg.Scope().Lookup(recv).(*types.TypeName)
	if tn == nil {
		return nil
	}
	n, _ := tn.Type().(*types.Named)
	if n == nil {
		return nil
	}
	for i := 0; i < n.NumMethods(); i++ {
		if n.Method(i).Name() == nameOfKey(key) {
			return n.Method(i)
		}
	}
	return nil
}

// overlay produces the rewritten files.
func (r *renamer) overlay() (map[string][]byte, error) {
	type edit struct {
		off, end int
		text     string
	}
	edits := map[string][]edit{}
	// embedded fields of a renamed type carry the type's name
	embeddedRen := map[types.Object]string{}
	for _, p := range r.pkgs {
		if p.TypesInfo == nil {
			continue
		}
		for _, o := range p.TypesInfo.Defs {
			v, ok := o.(*types.Var)
			if !ok || !v.IsField() || !v.Embedded() {
				continue
			}
			t := v.Type()
			if pt, ok := t.(*types.Pointer); ok {
				t = pt.Elem()
			}
			if n, ok := t.(*types.Named); ok {
				if to, ok := r.objRen[n.Obj()]; ok {
					embeddedRen[v] = to
				}
			}
		}
	}
	for _, p := range r.pkgs {
		if p.TypesInfo == nil {
			continue
		}
		add := func(id *ast.Ident, o types.Object) {
			to, ok := r.objRen[o]
			if !ok {
				to, ok = embeddedRen[o]
			}
			if !ok || id.Name == to || id.Name == "_" {
				return
			}
			pos := p.Fset.Position(id.Pos())
			end := p.Fset.Position(id.End())
			edits[pos.Filename] = append(edits[pos.Filename], edit{pos.Offset, end.Offset, to})
		}
		for id, o := range p.TypesInfo.Defs {
			if o != nil {
				add(id, o)
			}
		}
		for id, o := range p.TypesInfo.Uses {
			add(id, o)
		}
	}
	out := map[string][]byte{}
	for file, es := range edits {
		src, err := os.ReadFile(file)
		if err != nil {
			return nil, err
		}
		sort.Slice(es, func(i, j int) bool { return es[i].off > es[j].off })
		last := -1
		for _, e := range es {
			if e.off == last {
				continue // Defs and Uses may both list an identifier
			}
			last = e.off
			if e.off < 0 || e.end > len(src) || e.off > e.end {
				return nil, fmt.Errorf("bad edit in %s", file)
			}
			src = append(append(append([]byte{}, src[:e.off]...), e.text...), src[e.end:]...)
		}
		out[file] = src
	}
	return out, nil
}

// RenameOverlay compares the packages with the recorded symbols and returns the
// overlay (nil when nothing was renamed) and a description of the pairings.
func RenameOverlay(pkgs map[string]*packages.Package) (map[string][]byte, []string, error) {
	if Known == nil {
		return nil, nil, nil
	}
	r := &renamer{known: Known, cur: SymbolsOf(pkgs), pkgs: pkgs, typeRen: map[string]string{}, objRen: map[types.Object]string{}}
	r.compute()
	if len(r.objRen) == 0 {
		return nil, nil, nil
	}
	ov, err := r.overlay()
	return ov, r.report, err
}

var _ = token.NoPos

// nameTokens splits an identifier at case changes and digits: cdiPrintCacheErrors ->
// [cdi print cache errors].
func nameTokens(s string) []string {
	var out []string
	cur := ""
	for i, r := range s {
		up := r >= 'A' && r <= 'Z'
		if up && i > 0 && cur != "" {
			out = append(out, strings.ToLower(cur))
			cur = ""
		}
		cur += string(r)
	}
	if cur != "" {
		out = append(out, strings.ToLower(cur))
	}
	return out
}

func jaccard(a, b []string) float64 {
	if len(a) == 0 && len(b) == 0 {
		return 0
	}
	sa := map[string]bool{}
	for _, x := range a {
		sa[x] = true
	}
	inter, union := 0, len(sa)
	sb := map[string]bool{}
	for _, x := range b {
		if sb[x] {
			continue
		}
		sb[x] = true
		if sa[x] {
			inter++
		} else {
			union++
		}
	}
	return float64(inter) / float64(union)
}
