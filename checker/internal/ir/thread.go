package ir

import (
	"strings"
	"go/token"
	"go/types"
	"reflect"

	"golang.org/x/tools/go/ssa"
)

// Jump threading after helper expansion.
//
// Expanding `if c, found := helper(x); found { ... }` leaves a continuation
// block that starts with phi(found) = [true from the helper's early return,
// false from its final return] and branches on it. In the graph every
// predecessor can then reach both successors, although each really reaches
// one: the path-based rules would see paths the program does not have. When
// the branch outcome is known for an incoming edge - the phi operand is a
// constant, or (for `err != nil`) is nil / known to be non-nil on that edge -
// the predecessor is routed straight to the successor, which is what the code
// looked like before the helper was extracted. Values defined in the bypassed
// block (its phis) get corresponding phis in the successor; the transformation
// is applied only where that repair is local (uses dominated by a successor
// whose only predecessor was the bypassed block).

func isPure(in ssa.Instruction) bool {
	switch x := in.(type) {
	case *ssa.BinOp:
		switch x.Op {
		case token.QUO, token.REM, token.SHL, token.SHR:
			return false
		}
		return true
	case *ssa.UnOp:
		return x.Op == token.NOT
	}
	return false
}

// knownNonNil: values that are never nil whatever the path.
func knownNonNil(v ssa.Value) bool {
	switch x := v.(type) {
	case *ssa.MakeInterface, *ssa.Alloc, *ssa.MakeClosure, *ssa.MakeMap, *ssa.MakeChan, *ssa.MakeSlice, *ssa.FieldAddr, *ssa.IndexAddr, *ssa.Function, *ssa.Global:
		return true
	case *ssa.Call:
		if f := x.Call.StaticCallee(); f != nil {
			switch f.String() {
			case "fmt.Errorf", "errors.New":
				return true
			}
		}
	}
	return false
}

// nilOnEdge: what is known about v when control is in block at (reached through
// the dominating tests above it).
func nilAt(v ssa.Value, at *ssa.BasicBlock) NilFact {
	if IsNilConst(v) {
		return IsNil
	}
	if knownNonNil(v) {
		return NonNil
	}
	cur := at
	for steps := 0; cur != nil && steps < 64; steps++ {
		if steps == 0 {
			// the tested edge may leave `at` itself; the caller asks about the edge at -> C,
			// which it passes as target
		}
		d := Idom(cur)
		if d == nil {
			break
		}
		if iff, ok := d.Instrs[len(d.Instrs)-1].(*ssa.If); ok && d.Succs[0] != d.Succs[1] {
			if tv, nilSucc, ok := NilTest(iff); ok && tv == v {
				for k := 0; k < 2; k++ {
					s := d.Succs[k]
					if len(s.Preds) == 1 && Dominates(s, at) {
						if k == nilSucc {
							return IsNil
						}
						return NonNil
					}
				}
			}
		}
		cur = d
	}
	return NilUnknown
}

// strFact: is the string v certainly empty / non-empty where control is in block at?
// (constants; concatenation with a non-empty part; filepath.Join with a non-empty element;
// filepath.Clean, never empty; a dominating comparison with "")
func strFact(v ssa.Value, at *ssa.BasicBlock, depth int) NilFact {
	if depth > 6 {
		return NilUnknown
	}
	if s, ok := ConstString(v); ok {
		if s == "" {
			return IsNil
		}
		return NonNil
	}
	switch x := v.(type) {
	case *ssa.BinOp:
		if x.Op == token.ADD && (strFact(x.X, at, depth+1) == NonNil || strFact(x.Y, at, depth+1) == NonNil) {
			return NonNil
		}
	case *ssa.Phi:
		var f NilFact = -1
		for _, e := range x.Edges {
			ef := strFact(e, at, depth+1)
			if f == -1 {
				f = ef
			} else if f != ef {
				return NilUnknown
			}
		}
		if f > 0 {
			return f
		}
	case *ssa.Call:
		if callee := x.Call.StaticCallee(); callee != nil {
			switch callee.String() {
			case "path/filepath.Clean":
				return NonNil
			case "path/filepath.Join":
				if sl, ok := x.Call.Args[0].(*ssa.Slice); ok {
					if arr, ok := sl.X.(*ssa.Alloc); ok && arr.Referrers() != nil {
						for _, r := range *arr.Referrers() {
							ia, ok := r.(*ssa.IndexAddr)
							if !ok || ia.Referrers() == nil {
								continue
							}
							for _, r2 := range *ia.Referrers() {
								if st, ok := r2.(*ssa.Store); ok && st.Addr == ssa.Value(ia) && strFact(st.Val, at, depth+1) == NonNil {
									return NonNil
								}
							}
						}
					}
				}
			}
		}
	}
	// a dominating comparison with ""
	cur := at
	for steps := 0; cur != nil && steps < 64; steps++ {
		d := Idom(cur)
		if d == nil {
			break
		}
		if iff, ok := d.Instrs[len(d.Instrs)-1].(*ssa.If); ok && d.Succs[0] != d.Succs[1] {
			if b, ok := iff.Cond.(*ssa.BinOp); ok && (b.Op == token.EQL || b.Op == token.NEQ) {
				var other ssa.Value
				if s, isC := ConstString(b.Y); isC && s == "" {
					other = b.X
				} else if s, isC := ConstString(b.X); isC && s == "" {
					other = b.Y
				}
				if other == v {
					emptySucc := 0
					if b.Op == token.NEQ {
						emptySucc = 1
					}
					for k := 0; k < 2; k++ {
						sc := d.Succs[k]
						if len(sc.Preds) == 1 && Dominates(sc, at) {
							if k == emptySucc {
								return IsNil
							}
							return NonNil
						}
					}
				}
			}
		}
		cur = d
	}
	return NilUnknown
}

type tri int

const (
	unknown tri = iota
	yes
	no
)

// branchFact: what the edge from->to (and the single-predecessor chain above from) says
// about boolean v: if a block on that chain ends in `if v` and is left on a known side.
func branchFact(v ssa.Value, from, to *ssa.BasicBlock) tri {
	if t, ok := v.Type().Underlying().(*types.Basic); !ok || t.Kind() != types.Bool {
		return unknown
	}
	for depth := 0; depth < 8 && from != nil; depth++ {
		if iff, ok := from.Instrs[len(from.Instrs)-1].(*ssa.If); ok && from.Succs[0] != from.Succs[1] {
			cond, pos := iff.Cond, true
			if n, isNot := cond.(*ssa.UnOp); isNot && n.Op == token.NOT {
				cond, pos = n.X, false
			}
			if cond == v {
				side := from.Succs[0] == to
				if side == pos {
					return yes
				}
				return no
			}
		}
		if len(from.Preds) != 1 {
			return unknown
		}
		from, to = from.Preds[0], from
	}
	return unknown
}

func not(t tri) tri {
	switch t {
	case yes:
		return no
	case no:
		return yes
	}
	return unknown
}

// ThreadJumps applies the transformation to fn until nothing changes.
// onlyTouched: functions in which a transformation took place; general trivial-phi
// folding is limited to them (elsewhere only single-operand phis are folded), so that
// untouched functions keep the shape go/ssa gave them.
var onlyTouched = map[*ssa.Function]bool{}

// hoistPhiStores: the continuation block of an expanded helper may begin with the spill of a
// struct result into a local (`*dev = phi(zero, result)`), which stands between the phis and
// the error test and keeps the block from being threaded. When every predecessor only jumps
// to the block, the store is moved to the end of each predecessor with the value that
// predecessor contributes - the same stores on the same paths, one step earlier.
func hoistPhiStores(fn *ssa.Function) bool {
	changed := false
	for _, C := range fn.Blocks {
		if !strings.HasPrefix(C.Comment, "inline.") || len(C.Preds) < 2 {
			continue
		}
		ok := true
		for _, p := range C.Preds {
			if len(p.Succs) != 1 || p == C {
				ok = false
			}
		}
		if !ok {
			continue
		}
		for idx := 0; idx < len(C.Instrs); idx++ {
			in := C.Instrs[idx]
			if _, isPhi := in.(*ssa.Phi); isPhi {
				continue
			}
			st, isStore := in.(*ssa.Store)
			if !isStore {
				break
			}
			phi, isPhi := st.Val.(*ssa.Phi)
			alloc, isAlloc := st.Addr.(*ssa.Alloc)
			if !isPhi || phi.Block() != C || !isAlloc || alloc.Parent() != fn || alloc.Block() == C {
				break
			}
			for i, p := range C.Preds {
				ns := &ssa.Store{Addr: st.Addr, Val: phi.Edges[i]}
				setHidden(ns, "block", p)
				setHidden(ns, "pos", st.Pos())
				last := len(p.Instrs) - 1
				p.Instrs = append(p.Instrs[:last:last], ns, p.Instrs[last])
			}
			C.Instrs = append(C.Instrs[:idx:idx], C.Instrs[idx+1:]...)
			idx--
			changed = true
		}
	}
	if changed {
		rebuildReferrers(fn)
	}
	return changed
}

func ThreadJumps(fn *ssa.Function) int {
	n := 0
	if hoistPhiStores(fn) {
		onlyTouched[fn] = true
		n++
	}
	for round := 0; round < 50; round++ {
		InvalidateDom(fn)
		if !threadOne(fn) {
			break
		}
		onlyTouched[fn] = true
		n++
		cleanup(fn)
	}
	return n
}

func threadOne(fn *ssa.Function) bool {
	for _, C := range fn.Blocks {
		if C == fn.Blocks[0] || len(C.Preds) == 0 {
			continue
		}
		iff, ok := C.Instrs[len(C.Instrs)-1].(*ssa.If)
		if !ok || C.Succs[0] == C.Succs[1] || C.Succs[0] == C || C.Succs[1] == C {
			continue
		}
		// shape: phis, pure single-use computations, If
		var phis []*ssa.Phi
		inC := map[ssa.Value]bool{}
		shape := true
		for i, in := range C.Instrs[:len(C.Instrs)-1] {
			if p, ok := in.(*ssa.Phi); ok && i == len(phis) {
				phis = append(phis, p)
				inC[p] = true
				continue
			}
			if !isPure(in) {
				shape = false
				break
			}
			v := in.(ssa.Value)
			inC[v] = true
			if v.Referrers() != nil {
				for _, r := range *v.Referrers() {
					if r.Block() != C {
						shape = false
					}
				}
			}
		}
		if !shape || len(phis) == 0 {
			continue
		}
		dup := false
		seenP := map[*ssa.BasicBlock]bool{}
		for _, p := range C.Preds {
			if seenP[p] || p == C {
				dup = true
			}
			seenP[p] = true
		}
		if dup {
			continue
		}
		// evaluate the condition per incoming edge
		var eval func(v ssa.Value, i int, depth int) tri
		resolve := func(v ssa.Value, i int) ssa.Value {
			if p, ok := v.(*ssa.Phi); ok && p.Block() == C {
				return p.Edges[i]
			}
			return v
		}
		eval = func(v ssa.Value, i int, depth int) tri {
			if depth > 6 {
				return unknown
			}
			v = resolve(v, i)
			if b, ok := ConstBool(v); ok {
				if b {
					return yes
				}
				return no
			}
			in, isInstr := v.(ssa.Instruction)
			if !isInstr || in.Block() != C {
				// a boolean that a branch on the way in has already tested: the edge (or the
				// chain of single-predecessor blocks behind it) leaves that branch on a known side
				return branchFact(v, C.Preds[i], C)
			}
			switch x := v.(type) {
			case *ssa.UnOp:
				if x.Op == token.NOT {
					return not(eval(x.X, i, depth+1))
				}
			case *ssa.BinOp:
				if x.Op != token.EQL && x.Op != token.NEQ {
					return unknown
				}
				var other ssa.Value
				switch {
				case IsNilConst(x.Y):
					other = x.X
				case IsNilConst(x.X):
					other = x.Y
				default:
					// comparison of a phi of integer constants (a status code returned by an expanded
					// helper) with an integer constant
					if kx, okx := ConstInt(resolve(x.X, i)); okx {
						if ky, oky := ConstInt(resolve(x.Y, i)); oky {
							if _, isStr := ConstString(x.Y); !isStr {
								if (kx == ky) == (x.Op == token.EQL) {
									return yes
								}
								return no
							}
						}
					}
					// comparison with the empty string
					var sv ssa.Value
					if cs, isC := ConstString(x.Y); isC && cs == "" {
						sv = x.X
					} else if cs, isC := ConstString(x.X); isC && cs == "" {
						sv = x.Y
					}
					if sv == nil {
						return unknown
					}
					switch strFact(resolve(sv, i), C.Preds[i], 0) {
					case IsNil:
						if x.Op == token.EQL {
							return yes
						}
						return no
					case NonNil:
						if x.Op == token.EQL {
							return no
						}
						return yes
					}
					return unknown
				}
				other = resolve(other, i)
				fact := nilAt(other, C.Preds[i])
				if fact == NilUnknown {
					// the test may be the predecessor's own branch, with C on exactly one side
					P := C.Preds[i]
					if pif, ok := P.Instrs[len(P.Instrs)-1].(*ssa.If); ok && P.Succs[0] != P.Succs[1] {
						if tv, nilSucc, ok := NilTest(pif); ok && tv == other {
							if P.Succs[nilSucc] == C {
								fact = IsNil
							} else {
								fact = NonNil
							}
						}
					}
				}
				switch fact {
				case IsNil:
					if x.Op == token.EQL {
						return yes
					}
					return no
				case NonNil:
					if x.Op == token.EQL {
						return no
					}
					return yes
				}
			}
			return unknown
		}
		outcome := make([]tri, len(C.Preds))
		nKnown := 0
		for i := range C.Preds {
			outcome[i] = eval(iff.Cond, i, 0)
			if outcome[i] != unknown {
				nKnown++
			}
		}
		if nKnown == 0 {
			continue
		}
		T := [2]*ssa.BasicBlock{C.Succs[0], C.Succs[1]}
		single := [2]bool{len(T[0].Preds) == 1, len(T[1].Preds) == 1}
		// uses of C's phis outside C must be repairable
		okUses := true
		for _, p := range phis {
			if p.Referrers() == nil {
				continue
			}
			for _, r := range *p.Referrers() {
				if r.Block() == C {
					continue
				}
				useBlocks := []*ssa.BasicBlock{r.Block()}
				if up, isPhi := r.(*ssa.Phi); isPhi {
					useBlocks = nil
					for e, ev := range up.Edges {
						if ev == ssa.Value(p) {
							pb := up.Block().Preds[e]
							if pb == C && (up.Block() == T[0] || up.Block() == T[1]) {
								continue // handled by edge expansion
							}
							useBlocks = append(useBlocks, pb)
						}
					}
				}
				for _, ub := range useBlocks {
					good := false
					for k := 0; k < 2; k++ {
						if single[k] && Dominates(T[k], ub) {
							good = true
						}
					}
					if !good {
						okUses = false
					}
				}
			}
		}
		if !okUses {
			continue
		}
		// ---- apply
		var S [2][]int // indices of preds routed to T[k]
		var R []int
		for i, o := range outcome {
			switch o {
			case yes:
				S[0] = append(S[0], i)
			case no:
				S[1] = append(S[1], i)
			default:
				R = append(R, i)
			}
		}
		keepC := len(R) > 0
		var splitReturn []*ssa.BasicBlock
		origPreds := append([]*ssa.BasicBlock(nil), C.Preds...)
		// dominated-by sets, computed on the unchanged graph
		domBy := [2]map[*ssa.BasicBlock]bool{{}, {}}
		for k := 0; k < 2; k++ {
			if single[k] {
				for _, b := range fn.Blocks {
					if Dominates(T[k], b) {
						domBy[k][b] = true
					}
				}
			}
		}
		for k := 0; k < 2; k++ {
			if len(S[k]) == 0 {
				continue
			}
			t := T[k]
			if single[k] {
				var newPreds []*ssa.BasicBlock
				if keepC {
					newPreds = append(newPreds, C)
				}
				for _, i := range S[k] {
					newPreds = append(newPreds, origPreds[i])
				}
				var newPhis []ssa.Instruction
				for _, p := range phis {
					// does p have uses in the region dominated by t?
					need := false
					if p.Referrers() != nil {
						for _, r := range *p.Referrers() {
							if up, isPhi := r.(*ssa.Phi); isPhi {
								// (also a phi of C itself fed from inside the region: a loop-carried value)
								for e, ev := range up.Edges {
									if ev == ssa.Value(p) && e < len(up.Block().Preds) && domBy[k][up.Block().Preds[e]] {
										need = true
									}
								}
								continue
							}
							if r.Block() == C {
								continue
							}
							if domBy[k][r.Block()] {
								need = true
							}
						}
					}
					if !need {
						continue
					}
					var repl ssa.Value
					if len(newPreds) == 1 {
						repl = p.Edges[S[k][0]]
					} else {
						np := &ssa.Phi{Comment: p.Comment}
						if keepC {
							np.Edges = append(np.Edges, p)
						}
						for _, i := range S[k] {
							np.Edges = append(np.Edges, p.Edges[i])
						}
						setHidden(np, "block", t)
						setHidden(np, "typ", p.Type())
						setHidden(np, "pos", p.Pos())
						inlineCounter++
						setHidden(np, "num", inlineCounter)
						newPhis = append(newPhis, np)
						repl = np
					}
					// replace the uses in the dominated region
					for _, b := range fn.Blocks {
						for _, in := range b.Instrs {
							if up, isPhi := in.(*ssa.Phi); isPhi {
								for e := range up.Edges {
									if up.Edges[e] == ssa.Value(p) && e < len(b.Preds) && domBy[k][b.Preds[e]] {
										up.Edges[e] = repl
									}
								}
								continue
							}
							if !domBy[k][b] {
								continue
							}
							for _, op := range in.Operands(nil) {
								if *op == ssa.Value(p) {
									*op = repl
								}
							}
						}
					}
				}
				t.Instrs = append(newPhis, t.Instrs...)
				t.Preds = newPreds
				splitReturn = append(splitReturn, t)
			} else {
				ci := -1
				for i, p := range t.Preds {
					if p == C {
						ci = i
					}
				}
				for _, in := range t.Instrs {
					up, isPhi := in.(*ssa.Phi)
					if !isPhi {
						break
					}
					w := up.Edges[ci]
					var add []ssa.Value
					for _, i := range S[k] {
						if wp, ok := w.(*ssa.Phi); ok && wp.Block() == C {
							add = append(add, wp.Edges[i])
						} else {
							add = append(add, w)
						}
					}
					if keepC {
						up.Edges = append(up.Edges, add...)
					} else {
						up.Edges[ci] = add[0]
						up.Edges = append(up.Edges, add[1:]...)
					}
				}
				if keepC {
					for _, i := range S[k] {
						t.Preds = append(t.Preds, origPreds[i])
					}
				} else {
					t.Preds[ci] = origPreds[S[k][0]]
					for _, i := range S[k][1:] {
						t.Preds = append(t.Preds, origPreds[i])
					}
				}
			}
			for _, i := range S[k] {
				p := origPreds[i]
				for si, s := range p.Succs {
					if s == C {
						p.Succs[si] = t
					}
				}
			}
		}
		for _, t := range splitReturn {
			splitReturnBlock(fn, t)
		}
		if keepC {
			var np []*ssa.BasicBlock
			for _, i := range R {
				np = append(np, origPreds[i])
			}
			C.Preds = np
			for _, p := range phis {
				var ne []ssa.Value
				for _, i := range R {
					ne = append(ne, p.Edges[i])
				}
				p.Edges = ne
			}
		} else {
			// C disappears; successors that received nothing lose the edge from C
			for k := 0; k < 2; k++ {
				if len(S[k]) > 0 {
					continue
				}
				removePred(T[k], C)
			}
			C.Preds = nil
			C.Succs = nil
		}
		return true
	}
	return false
}

// splitReturnBlock: a block made of phis and a Return that has several
// predecessors is what `return a` and `return b` in an expanded helper become
// after threading; give every predecessor its own return again.
func splitReturnBlock(fn *ssa.Function, t *ssa.BasicBlock) {
	if len(t.Preds) < 2 {
		return
	}
	ret, ok := t.Instrs[len(t.Instrs)-1].(*ssa.Return)
	if !ok {
		return
	}
	phis := map[ssa.Value]*ssa.Phi{}
	for _, in := range t.Instrs[:len(t.Instrs)-1] {
		p, isPhi := in.(*ssa.Phi)
		if !isPhi {
			return
		}
		phis[p] = p
		if p.Referrers() != nil {
			for _, r := range *p.Referrers() {
				if r != ssa.Instruction(ret) {
					// referrer lists may be stale here; check operands instead below
				}
			}
		}
	}
	if len(phis) == 0 {
		return // one `return x` reached from several places is left as the source has it
	}
	// the phis must not be used anywhere else
	for _, b := range fn.Blocks {
		if b == t {
			continue
		}
		for _, in := range b.Instrs {
			for _, op := range in.Operands(nil) {
				if *op != nil {
					if _, isOurs := phis[*op]; isOurs {
						return
					}
				}
			}
		}
	}
	seen := map[*ssa.BasicBlock]bool{}
	for _, p := range t.Preds {
		if seen[p] {
			return
		}
		seen[p] = true
	}
	for i, p := range t.Preds {
		nb := newBlock(fn, t.Comment)
		nr := &ssa.Return{}
		rv := reflect.ValueOf(nr).Elem()
		rv.Set(reflect.ValueOf(ret).Elem())
		nr.Results = append([]ssa.Value(nil), ret.Results...)
		for k, v := range nr.Results {
			if ph, isOurs := phis[v]; isOurs {
				nr.Results[k] = ph.Edges[i]
			}
		}
		setHidden(nr, "block", nb)
		nb.Instrs = []ssa.Instruction{nr}
		nb.Preds = []*ssa.BasicBlock{p}
		for si, sc := range p.Succs {
			if sc == t {
				p.Succs[si] = nb
			}
		}
		fn.Blocks = append(fn.Blocks, nb)
	}
	t.Preds = nil
	dropBlock(fn, t)
}

// removePred deletes pred p (and the matching phi operands) from b.
func removePred(b, p *ssa.BasicBlock) {
	for i := 0; i < len(b.Preds); i++ {
		if b.Preds[i] != p {
			continue
		}
		b.Preds = append(b.Preds[:i:i], b.Preds[i+1:]...)
		for _, in := range b.Instrs {
			up, isPhi := in.(*ssa.Phi)
			if !isPhi {
				break
			}
			up.Edges = append(up.Edges[:i:i], up.Edges[i+1:]...)
		}
		i--
	}
}

// cleanup removes unreachable blocks, folds single-operand phis and jump-only
// blocks' bookkeeping, renumbers, and rebuilds the referrer lists.
func cleanup(fn *ssa.Function) {
	for changed := true; changed; {
		changed = false
		reach := map[*ssa.BasicBlock]bool{}
		var dfs func(b *ssa.BasicBlock)
		dfs = func(b *ssa.BasicBlock) {
			reach[b] = true
			for _, s := range b.Succs {
				if !reach[s] {
					dfs(s)
				}
			}
		}
		dfs(fn.Blocks[0])
		var keep []*ssa.BasicBlock
		for _, b := range fn.Blocks {
			if reach[b] {
				keep = append(keep, b)
				continue
			}
			changed = true
			for _, s := range b.Succs {
				if reach[s] {
					removePred(s, b)
				}
			}
			b.Succs = nil
			b.Preds = nil
		}
		fn.Blocks = keep
		// trivial phis: every operand is the phi itself or one and the same value
		repl := map[ssa.Value]ssa.Value{}
		for _, b := range fn.Blocks {
			var rest []ssa.Instruction
			for _, in := range b.Instrs {
				if up, isPhi := in.(*ssa.Phi); isPhi {
					var uniq ssa.Value
					trivial := true
					for _, e := range up.Edges {
						if e == ssa.Value(up) {
							continue
						}
						if uniq == nil {
							uniq = e
						} else if e != uniq {
							// two constants of equal value are the same operand
							cu, ok1 := uniq.(*ssa.Const)
							ce, ok2 := e.(*ssa.Const)
							if !(ok1 && ok2 && cu.Value != nil && ce.Value != nil && cu.Value.ExactString() == ce.Value.ExactString() && types.Identical(cu.Type(), ce.Type())) {
								trivial = false
							}
						}
					}
					if trivial && uniq != nil && (len(up.Edges) == 1 || onlyTouched[fn]) {
						repl[up] = uniq
						changed = true
						continue
					}
				}
				rest = append(rest, in)
			}
			b.Instrs = rest
		}
		if len(repl) > 0 {
			res := func(v ssa.Value) ssa.Value {
				for i := 0; i < 32; i++ {
					n, ok := repl[v]
					if !ok {
						return v
					}
					v = n
				}
				return v
			}
			for _, b := range fn.Blocks {
				for _, in := range b.Instrs {
					for _, op := range in.Operands(nil) {
						if *op != nil {
							if _, ok := repl[*op]; ok {
								*op = res(*op)
							}
						}
					}
				}
			}
		}
	}
	// `if !x goto A else B` (the negation used by nothing else) is `if x goto B else A`:
	// what an expanded boolean helper leaves behind when its caller wrote `!helper(...)`
	if onlyTouched[fn] {
		for _, b := range fn.Blocks {
			if len(b.Instrs) == 0 || len(b.Succs) != 2 || b.Succs[0] == b.Succs[1] {
				continue
			}
			iff, ok := b.Instrs[len(b.Instrs)-1].(*ssa.If)
			if !ok {
				continue
			}
			n, isNot := iff.Cond.(*ssa.UnOp)
			if !isNot || n.Op != token.NOT || n.Block() != b || n.Referrers() == nil || len(*n.Referrers()) != 1 {
				continue
			}
			if _, inlined := n.X.(*ssa.BinOp); !inlined {
				continue
			}
			iff.Cond = n.X
			b.Succs[0], b.Succs[1] = b.Succs[1], b.Succs[0]
			// drop the negation
			var keep []ssa.Instruction
			for _, in := range b.Instrs {
				if in != ssa.Instruction(n) {
					keep = append(keep, in)
				}
			}
			b.Instrs = keep
		}
	}
	for again := true; again; {
		again = false
		for _, b := range fn.Blocks {
			if len(b.Preds) == 0 && b != fn.Blocks[0] {
				continue
			}
			if fuseWithSuccessor(fn, b) || bypassEmpty(fn, b) {
				again = true
				break
			}
		}
	}
	for i, b := range fn.Blocks {
		b.Index = i
	}
	var locals []*ssa.Alloc
	live := map[*ssa.Alloc]bool{}
	for _, b := range fn.Blocks {
		for _, in := range b.Instrs {
			if a, ok := in.(*ssa.Alloc); ok {
				live[a] = true
			}
		}
	}
	for _, a := range fn.Locals {
		if live[a] {
			locals = append(locals, a)
		}
	}
	fn.Locals = locals
	rebuildReferrers(fn)
	InvalidateDom(fn)
}

func hasPhi(b *ssa.BasicBlock) bool {
	_, ok := b.Instrs[0].(*ssa.Phi)
	return ok
}

func dropBlock(fn *ssa.Function, b *ssa.BasicBlock) {
	var keep []*ssa.BasicBlock
	for _, x := range fn.Blocks {
		if x != b {
			keep = append(keep, x)
		}
	}
	fn.Blocks = keep
	b.Preds, b.Succs = nil, nil
}

// fuseWithSuccessor: a ends in a jump to b, and a is b's only predecessor.
func fuseWithSuccessor(fn *ssa.Function, a *ssa.BasicBlock) bool {
	if len(a.Succs) != 1 {
		return false
	}
	if _, ok := a.Instrs[len(a.Instrs)-1].(*ssa.Jump); !ok {
		return false
	}
	b := a.Succs[0]
	if b == a || b == fn.Blocks[0] || len(b.Preds) != 1 || hasPhi(b) {
		return false
	}
	a.Instrs = a.Instrs[:len(a.Instrs)-1]
	for _, in := range b.Instrs {
		setHidden(in, "block", a)
		a.Instrs = append(a.Instrs, in)
	}
	a.Succs = b.Succs
	for _, s := range a.Succs {
		for i, p := range s.Preds {
			if p == b {
				s.Preds[i] = a
			}
		}
	}
	dropBlock(fn, b)
	return true
}

// bypassEmpty: b holds nothing but a jump to c, and c has no phis: the
// predecessors of b go to c directly.
func bypassEmpty(fn *ssa.Function, b *ssa.BasicBlock) bool {
	if b == fn.Blocks[0] || len(b.Instrs) != 1 || len(b.Succs) != 1 {
		return false
	}
	if _, ok := b.Instrs[0].(*ssa.Jump); !ok {
		return false
	}
	c := b.Succs[0]
	if c == b || hasPhi(c) {
		return false
	}
	// a predecessor that already branches to c would get a duplicate edge: fine for
	// an If (both arms), as go/ssa itself produces
	for _, a := range b.Preds {
		for i, s := range a.Succs {
			if s == b {
				a.Succs[i] = c
			}
		}
	}
	var np []*ssa.BasicBlock
	for _, p := range c.Preds {
		if p == b {
			np = append(np, b.Preds...)
		} else {
			np = append(np, p)
		}
	}
	c.Preds = np
	dropBlock(fn, b)
	return true
}
