// Package ir loads the repository under analysis into one type-checked SSA
// program and offers the primitives the rules are written in: function lookup,
// callee resolution, CFG path queries, access paths and write effects.
//
// Nothing in here executes code of the analysed repository.
package ir

import (
	"fmt"
	"go/token"
	"go/types"
	"os"
	"path/filepath"
	"sort"
	"strings"

	"golang.org/x/tools/go/packages"
	"golang.org/x/tools/go/ssa"
	"golang.org/x/tools/go/ssa/ssautil"
)

// ModulePrefix is the import path prefix of every package of the repository.
const ModulePrefix = "tags.cncf.io/container-device-interface"

// Short names for the repository's packages.
var PkgAlias = map[string]string{
	"cdi":        ModulePrefix + "/pkg/cdi",
	"parser":     ModulePrefix + "/pkg/parser",
	"specs":      ModulePrefix + "/specs-go",
	"validation": ModulePrefix + "/internal/validation",
	"k8s":        ModulePrefix + "/internal/validation/k8s",
	"schema":     ModulePrefix + "/schema",
	"cmd":        ModulePrefix + "/cmd/cdi/cmd",
	"cdimain":    ModulePrefix + "/cmd/cdi",
	"validate":   ModulePrefix + "/cmd/validate",
}

// Universe is one loaded build configuration of the repository.
type Universe struct {
	Root string // repository root
	Dir  string // directory the load ran in
	GOOS string

	Initial          []*packages.Package
	Pkgs             map[string]*packages.Package // repo packages by import path
	Prog             *ssa.Program
	SSA              map[string]*ssa.Package
	Fset             *token.FileSet
	Inlined          []InlineReport         // helper calls expanded before analysis
	Renamed          []string               // functions recognised as renamed (old -> new)
	Expanded         map[*ssa.Function]bool // helpers all of whose uses were expanded: not analysed on their own
	ExpandedWrappers map[*ssa.Function]bool // bound-method wrappers into which an unknown method was expanded

	repoFuncs  []*ssa.Function
	byName     map[string]*ssa.Function
	callers    map[*ssa.Function][]ssa.CallInstruction
	allFuncs   map[*ssa.Function]bool
	closureOf  map[*ssa.Function][]*ssa.MakeClosure
	pathMemo   map[ssa.Value][]Path
	effMemo    map[*ssa.Function]*Effects
	effBusy    map[*ssa.Function]bool
	heapStores map[*ssa.Alloc][]heapStore
	heapSeen   map[string]bool
	callBusy   map[*ssa.Call]bool
	allocBusy  map[*ssa.Alloc]bool
}

// LoadError describes a failure to obtain a complete, type-correct program.
type LoadError struct{ Msg string }

func (e *LoadError) Error() string { return e.Msg }

// Load type-checks the packages matching patterns, seen from dir (a directory
// inside a module of the repository at root), for the given GOOS, and builds
// SSA for the whole program including dependencies.
func Load(root, dir, goos string, patterns ...string) (*Universe, error) {
	env := []string{}
	for _, kv := range os.Environ() {
		if strings.HasPrefix(kv, "GOFLAGS=") || strings.HasPrefix(kv, "GOWORK=") ||
			strings.HasPrefix(kv, "GOOS=") || strings.HasPrefix(kv, "GOARCH=") ||
			strings.HasPrefix(kv, "CGO_ENABLED=") || strings.HasPrefix(kv, "GOPROXY=") ||
			strings.HasPrefix(kv, "GOSUMDB=") || strings.HasPrefix(kv, "GOTOOLCHAIN=") {
			continue
		}
		env = append(env, kv)
	}
	env = append(env, "GOFLAGS=-mod=mod", "GOPROXY=off", "GOSUMDB=off",
		"GOTOOLCHAIN=local", "GOWORK=off", "GOARCH=amd64")
	if goos != "" {
		env = append(env, "GOOS="+goos)
		if goos != "linux" {
			env = append(env, "CGO_ENABLED=0")
		}
	} else {
		goos = "linux"
		env = append(env, "GOOS=linux")
	}
	cfg := &packages.Config{
		Mode:  packages.LoadAllSyntax | packages.NeedModule,
		Dir:   dir,
		Env:   env,
		Tests: false,
	}
	initial, err := packages.Load(cfg, patterns...)
	if err != nil {
		return nil, &LoadError{fmt.Sprintf("packages.Load(%s): %v", dir, err)}
	}
	if len(initial) == 0 {
		return nil, &LoadError{fmt.Sprintf("no packages matched %v in %s", patterns, dir)}
	}
	u := &Universe{
		Root: root, Dir: dir, GOOS: goos,
		Initial:    initial,
		Pkgs:       map[string]*packages.Package{},
		SSA:        map[string]*ssa.Package{},
		byName:     map[string]*ssa.Function{},
		callers:    map[*ssa.Function][]ssa.CallInstruction{},
		allFuncs:   map[*ssa.Function]bool{},
		closureOf:  map[*ssa.Function][]*ssa.MakeClosure{},
		pathMemo:   map[ssa.Value][]Path{},
		effMemo:    map[*ssa.Function]*Effects{},
		effBusy:    map[*ssa.Function]bool{},
		heapStores: map[*ssa.Alloc][]heapStore{},
		heapSeen:   map[string]bool{},
		callBusy:   map[*ssa.Call]bool{},
		allocBusy:  map[*ssa.Alloc]bool{},
	}
	collect := func(initial []*packages.Package) (map[string]*packages.Package, *token.FileSet, []string) {
		pk := map[string]*packages.Package{}
		var fs *token.FileSet
		var errs []string
		packages.Visit(initial, nil, func(p *packages.Package) {
			if strings.HasPrefix(p.PkgPath, ModulePrefix) {
				pk[p.PkgPath] = p
				for _, e := range p.Errors {
					errs = append(errs, e.Error())
				}
				if p.Fset != nil {
					fs = p.Fset
				}
			}
		})
		sort.Strings(errs)
		return pk, fs, errs
	}
	var errs []string
	u.Pkgs, u.Fset, errs = collect(initial)
	if len(errs) > 0 {
		return nil, &LoadError{"type errors in the repository: " + strings.Join(errs, "; ")}
	}
	// rename normalisation (renames.go): reload through an overlay in which renamed symbols
	// carry the names the rules know
	if ov, rep, err := RenameOverlay(u.Pkgs); err == nil && len(ov) > 0 {
		cfg2 := *cfg
		cfg2.Overlay = ov
		if again, err2 := packages.Load(&cfg2, patterns...); err2 == nil && len(again) > 0 {
			if pk2, fs2, errs2 := collect(again); len(errs2) == 0 {
				initial, u.Initial, u.Pkgs, u.Fset = again, again, pk2, fs2
				u.Renamed = rep
			} else {
				u.Renamed = []string{"rename normalisation abandoned (the rewritten source does not type-check: " + errs2[0] + ")"}
			}
		}
	}
	prog, _ := ssautil.AllPackages(initial, ssa.InstantiateGenerics)
	prog.Build()
	u.Prog = prog
	for path, p := range u.Pkgs {
		sp := prog.Package(p.Types)
		if sp == nil {
			return nil, &LoadError{"no SSA package for " + path}
		}
		u.SSA[path] = sp
	}
	if KnownFuncs != nil {
		u.Renamed = append(u.Renamed, u.detectRenames(KnownFuncs)...)
		u.renameParams()
		rep, err := u.InlineUnknownHelpers(func(key string) bool { return KnownFuncs[key] })
		if err != nil {
			return nil, &LoadError{"helper expansion failed: " + err.Error()}
		}
		u.Inlined = rep
		rep2, err := u.InlineUnknownClosures(func(key string) bool { return KnownFuncs[key] })
		if err != nil {
			return nil, &LoadError{"closure expansion failed: " + err.Error()}
		}
		u.Inlined = append(u.Inlined, rep2...)
	}
	if NormalizeCFG {
		if err := u.NormalizeAll(); err != nil {
			return nil, &LoadError{"control-flow normalisation failed: " + err.Error()}
		}
	}
	u.index()
	return u, nil
}

// NormalizeCFG: run jump threading (thread.go) over every repository function,
// so that `case a && b:` / `x := a || b; if x` (which go/ssa renders as a phi of
// booleans followed by a branch) and `if a { if b {` have the same graph.
var NormalizeCFG = true

// NormalizeAll threads jumps in every repository function.
func (u *Universe) NormalizeAll() error {
	for fn := range ssautil.AllFunctions(u.Prog) {
		if !u.IsRepoFunc(fn) || len(fn.Blocks) == 0 {
			continue
		}
		fwd := ForwardCellLoads(fn)
		if ThreadJumps(fn) > 0 || fwd > 0 {
			if err := checkFunction(fn); err != nil {
				return fmt.Errorf("%s: %v", fn, err)
			}
		}
	}
	return nil
}

// Aliases maps a function that was (only) renamed since the rules were written to
// the name the rules know it by (see detectRenames).
var Aliases = map[*ssa.Function]string{}

// sigKey: package, receiver base type and the types of the signature.
func (u *Universe) sigKey(fn *ssa.Function) string {
	sig := fn.Signature
	k := u.FuncPkgPath(fn) + "|"
	if r := sig.Recv(); r != nil {
		k += types.TypeString(r.Type(), nil)
	}
	k += "|("
	for i := 0; i < sig.Params().Len(); i++ {
		if sig.Variadic() && i == sig.Params().Len()-1 {
			k += "..."
		}
		k += types.TypeString(sig.Params().At(i).Type(), nil) + ","
	}
	k += ")"
	for i := 0; i < sig.Results().Len(); i++ {
		k += types.TypeString(sig.Results().At(i).Type(), nil) + ","
	}
	return k
}

// detectRenames: a known function that is gone and an unknown function of the
// same package, receiver and signature - when the pairing is unambiguous - are
// taken to be one function under a new name; the rules keep addressing it by
// the name they know. Returns "old -> new" descriptions.
func (u *Universe) detectRenames(known map[string]bool) []string {
	present := map[string]*ssa.Function{}
	var fresh []*ssa.Function
	for fn := range ssautil.AllFunctions(u.Prog) {
		if !u.IsRepoFunc(fn) || fn.Parent() != nil || fn.Synthetic != "" || len(fn.Blocks) == 0 {
			continue
		}
		k := u.funcKey(fn)
		present[k] = fn
		if !known[k] {
			fresh = append(fresh, fn)
		}
	}
	// pair a missing known function with a fresh one of the same package, receiver and
	// signature (recorded in the known list) when there is exactly one of each
	missing := map[string][]string{} // signature key -> rel names
	for k := range known {
		if strings.Contains(k, "$func") || present[k] != nil {
			continue
		}
		parts := strings.SplitN(k, "::", 2)
		sig := KnownSigs[k]
		if len(parts) != 2 || sig == "" {
			continue
		}
		missing[sig] = append(missing[sig], parts[1])
	}
	freshBy := map[string][]*ssa.Function{}
	for _, fn := range fresh {
		freshBy[u.sigKey(fn)] = append(freshBy[u.sigKey(fn)], fn)
	}
	var out []string
	for g, names := range missing {
		fs := freshBy[g]
		if len(names) != 1 || len(fs) != 1 {
			continue
		}
		Aliases[fs[0]] = names[0]
		out = append(out, names[0]+" -> "+fs[0].RelString(fs[0].Pkg.Pkg))
	}
	sort.Strings(out)
	return out
}

// renameParams gives the parameters of known functions and closures the names recorded
// for them (by position): decoded conditions mention parameters by name.
func (u *Universe) renameParams() {
	if Known == nil {
		return
	}
	for fn := range ssautil.AllFunctions(u.Prog) {
		if !u.IsRepoFunc(fn) || len(fn.Params) == 0 {
			continue
		}
		var names []string
		if fn.Parent() == nil {
			kp := Known.Pkgs[u.FuncPkgPath(fn)]
			if kp == nil {
				continue
			}
			if kf := kp.Funcs[u.RelName(fn)]; kf != nil {
				names = kf.Params
			}
		} else if Known.Closures != nil {
			key := u.ClosureKey(fn)
			names = Known.Closures[key]
			if names == nil {
				// a closure that moved, with its code, into a helper the rules do not
				// know: take the names of the known closure(s) of the same package and
				// signature when they agree
				if i := strings.Index(key, "$"); i >= 0 {
					pkg, _, _ := strings.Cut(key, "::")
					var cand []string
					ok := true
					for k, v := range Known.Closures {
						if j := strings.Index(k, "$"); j < 0 || k[j:] != key[i:] || !strings.HasPrefix(k, pkg+"::") {
							continue
						}
						if cand != nil && strings.Join(cand, ",") != strings.Join(v, ",") {
							ok = false
						}
						cand = v
					}
					if ok {
						names = cand
					}
				}
			}
		}
		if len(names) != len(fn.Params) {
			continue
		}
		for i, p := range fn.Params {
			if names[i] != "" && names[i] != "_" && p.Name() != names[i] {
				setHidden(p, "name", names[i])
			}
		}
	}
}

// KnownSigs: signature key (sigKey) of every known top-level function.
var KnownSigs = map[string]string{}

// KnownFuncs lists (by package path "::" relative name) the repository
// functions the rules were written against; calls to any other inlinable
// repository function are expanded in place before analysis (inline.go). nil
// switches the expansion off.
var KnownFuncs map[string]bool

// ClosureParams lists the parameter names of every anonymous repository function.
func (u *Universe) ClosureParams() map[string][]string {
	out := map[string][]string{}
	for _, fn := range u.repoFuncs {
		if fn.Parent() == nil {
			continue
		}
		var names []string
		for _, p := range fn.Params {
			names = append(names, p.Name())
		}
		out[u.ClosureKey(fn)] = names
	}
	return out
}

// FuncKeys lists the keys of all top-level repository functions (used to
// regenerate known_funcs.txt).
func (u *Universe) FuncKeys() []string {
	var out []string
	seen := map[string]bool{}
	for _, fn := range u.repoFuncs {
		k := u.funcKey(fn)
		line := k + "\t" + u.sigKey(fn)
		if fn.Parent() != nil {
			k = u.ClosureKey(fn)
			line = k
		}
		if !seen[k] {
			seen[k] = true
			out = append(out, line)
		}
	}
	sort.Strings(out)
	return out
}

func (u *Universe) index() {
	all := ssautil.AllFunctions(u.Prog)
	for fn := range all {
		u.allFuncs[fn] = true
		if !u.IsRepoFunc(fn) {
			continue
		}
		if u.Expanded[fn] {
			continue // (its closures stay: their creation was cloned into the callers)
		}
		if fn.Synthetic != "" && fn.Parent() == nil {
			// wrappers, thunks, init: keep package init (it holds global
			// initialisers) but no other synthetic function - except bound-method
			// wrappers that now hold the body of an expanded method
			if fn.Name() != "init" && !u.ExpandedWrappers[fn] && !strings.HasPrefix(fn.Synthetic, "instance of") {
				continue
			}
		}
		u.repoFuncs = append(u.repoFuncs, fn)
		u.byName[u.funcKey(fn)] = fn
	}
	sort.Slice(u.repoFuncs, func(i, j int) bool {
		return u.funcKey(u.repoFuncs[i]) < u.funcKey(u.repoFuncs[j])
	})
	for _, fn := range u.repoFuncs {
		for _, b := range fn.Blocks {
			for _, in := range b.Instrs {
				if x, ok := in.(*ssa.MakeClosure); ok {
					if f, ok := x.Fn.(*ssa.Function); ok {
						u.closureOf[f] = append(u.closureOf[f], x)
					}
				}
			}
		}
	}
	for _, fn := range u.repoFuncs {
		for _, b := range fn.Blocks {
			for _, in := range b.Instrs {
				if x, ok := in.(ssa.CallInstruction); ok {
					if c := u.StaticCallee(x); c != nil {
						u.callers[c] = append(u.callers[c], x)
					}
				}
			}
		}
	}
}

// FuncsUnder lists every function of the program (dependencies included) whose
// package path is prefix or below it, in a stable order.
func (u *Universe) FuncsUnder(prefix string) []*ssa.Function {
	var out []*ssa.Function
	for fn := range u.allFuncs {
		p := u.FuncPkgPath(fn)
		if p == prefix || strings.HasPrefix(p, prefix+"/") {
			out = append(out, fn)
		}
	}
	sort.Slice(out, func(i, j int) bool { return out[i].String() < out[j].String() })
	return out
}

// ClosureSites returns the MakeClosure instructions that create fn.
func (u *Universe) ClosureSites(fn *ssa.Function) []*ssa.MakeClosure { return u.closureOf[fn] }

// TopLevel is the outermost enclosing function of fn.
func TopLevel(fn *ssa.Function) *ssa.Function { return topLevel(fn) }

func topLevel(fn *ssa.Function) *ssa.Function {
	for fn.Parent() != nil {
		fn = fn.Parent()
	}
	return fn
}

func (u *Universe) funcKey(fn *ssa.Function) string {
	pkg := u.FuncPkgPath(fn)
	return pkg + "::" + u.RelName(fn)
}

// FuncPkgPath is the import path of the package a function (or closure,
// method, wrapper) belongs to, or "".
func (u *Universe) FuncPkgPath(fn *ssa.Function) string {
	for f := fn; f != nil; f = f.Parent() {
		if f.Pkg != nil {
			return f.Pkg.Pkg.Path()
		}
		if o := f.Object(); o != nil && o.Pkg() != nil {
			return o.Pkg().Path()
		}
	}
	if o := fn.Origin(); o != nil && o != fn {
		return u.FuncPkgPath(o)
	}
	return ""
}

// IsRepoFunc reports whether fn is defined in the repository under analysis.
func (u *Universe) IsRepoFunc(fn *ssa.Function) bool {
	return strings.HasPrefix(u.FuncPkgPath(fn), ModulePrefix)
}

// RelName is the name of fn relative to its package: "newSpec",
// "(*Cache).refresh", "(*Cache).refresh$1" (closure).
func (u *Universe) RelName(fn *ssa.Function) string {
	if fn == nil {
		return "<nil>"
	}
	if a, ok := Aliases[fn]; ok {
		return a
	}
	if top := topLevel(fn); top != fn {
		if a, ok := Aliases[top]; ok && top.Pkg != nil {
			raw := fn.RelString(top.Pkg.Pkg)
			return a + strings.TrimPrefix(raw, top.RelString(top.Pkg.Pkg))
		}
	}
	if fn.Pkg != nil {
		return fn.RelString(fn.Pkg.Pkg)
	}
	if p := fn.Parent(); p != nil {
		// anonymous function: name is already parent$N
		for q := p; q != nil; q = q.Parent() {
			if q.Pkg != nil {
				return fn.RelString(q.Pkg.Pkg)
			}
		}
	}
	return fn.String()
}

// ShortName is "pkgalias.RelName".
func (u *Universe) ShortName(fn *ssa.Function) string {
	if fn == nil {
		return "<nil>"
	}
	p := u.FuncPkgPath(fn)
	for a, full := range PkgAlias {
		if full == p {
			return a + "." + u.RelName(fn)
		}
	}
	if p == "" {
		return fn.String()
	}
	return p + "." + u.RelName(fn)
}

// Func finds a repository function by package alias (or import path) and
// package-relative name. It returns nil if there is none.
func (u *Universe) Func(pkg, name string) *ssa.Function {
	if full, ok := PkgAlias[pkg]; ok {
		pkg = full
	}
	return u.byName[pkg+"::"+name]
}

// RepoFuncs lists all functions, methods and closures of the repository,
// optionally restricted to packages (alias or import path).
func (u *Universe) RepoFuncs(pkgs ...string) []*ssa.Function {
	if len(pkgs) == 0 {
		return u.repoFuncs
	}
	want := map[string]bool{}
	for _, p := range pkgs {
		if full, ok := PkgAlias[p]; ok {
			p = full
		}
		want[p] = true
	}
	var out []*ssa.Function
	for _, fn := range u.repoFuncs {
		if want[u.FuncPkgPath(fn)] {
			out = append(out, fn)
		}
	}
	return out
}

// WithClosures returns fn and all anonymous functions nested in it.
func WithClosures(fn *ssa.Function) []*ssa.Function {
	out := []*ssa.Function{fn}
	for _, a := range fn.AnonFuncs {
		out = append(out, WithClosures(a)...)
	}
	return out
}

// Pos renders a position relative to the repository root.
func (u *Universe) Pos(p token.Pos) string {
	if !p.IsValid() || u.Fset == nil {
		return "-"
	}
	pp := u.Fset.Position(p)
	f := pp.Filename
	if rel, err := filepath.Rel(u.Root, f); err == nil && !strings.HasPrefix(rel, "..") {
		f = rel
	}
	return fmt.Sprintf("%s:%d", f, pp.Line)
}

// InstrPos gives the best available position for an instruction.
func (u *Universe) InstrPos(in ssa.Instruction) string {
	if in == nil {
		return "-"
	}
	if p := in.Pos(); p.IsValid() {
		return u.Pos(p)
	}
	// fall back to nearest instruction with a position in the same block
	if b := in.Block(); b != nil {
		for _, x := range b.Instrs {
			if x.Pos().IsValid() {
				return u.Pos(x.Pos()) + "~"
			}
		}
		if b.Parent() != nil {
			return u.Pos(b.Parent().Pos()) + "~"
		}
	}
	return "-"
}

// NamedType finds a named type of a repository package.
func (u *Universe) NamedType(pkg, name string) *types.Named {
	if full, ok := PkgAlias[pkg]; ok {
		pkg = full
	}
	p := u.Pkgs[pkg]
	if p == nil || p.Types == nil {
		return nil
	}
	o := p.Types.Scope().Lookup(name)
	if o == nil {
		return nil
	}
	n, _ := o.Type().(*types.Named)
	return n
}

// DepType finds a named type in any loaded package (dependencies included).
func (u *Universe) DepType(pkgPath, name string) *types.Named {
	for _, sp := range u.Prog.AllPackages() {
		if sp.Pkg.Path() == pkgPath {
			if o := sp.Pkg.Scope().Lookup(name); o != nil {
				n, _ := o.Type().(*types.Named)
				return n
			}
		}
	}
	return nil
}

// DepFunc finds a function or method in any loaded package:
// name is "Func" or "(*T).Method" / "(T).Method".
func (u *Universe) DepFunc(pkgPath, name string) *ssa.Function {
	for _, sp := range u.Prog.AllPackages() {
		if sp.Pkg.Path() != pkgPath {
			continue
		}
		if !strings.HasPrefix(name, "(") {
			return sp.Func(name)
		}
		// method
		close := strings.Index(name, ")")
		recv := name[1:close]
		meth := name[close+2:]
		ptr := strings.HasPrefix(recv, "*")
		recv = strings.TrimPrefix(recv, "*")
		o := sp.Pkg.Scope().Lookup(recv)
		if o == nil {
			return nil
		}
		var t types.Type = o.Type()
		if ptr {
			t = types.NewPointer(t)
		}
		sel := u.Prog.MethodSets.MethodSet(t).Lookup(sp.Pkg, meth)
		if sel == nil {
			return nil
		}
		return u.Prog.MethodValue(sel)
	}
	return nil
}

// StructOf returns the struct underlying a (pointer to a) named type.
func StructOf(t types.Type) *types.Struct {
	if t == nil {
		return nil
	}
	if p, ok := t.Underlying().(*types.Pointer); ok {
		t = p.Elem()
	}
	s, _ := t.Underlying().(*types.Struct)
	return s
}

// NamedOf returns the named type behind t, looking through one pointer.
func NamedOf(t types.Type) *types.Named {
	if t == nil {
		return nil
	}
	if p, ok := t.(*types.Pointer); ok {
		t = p.Elem()
	}
	n, _ := t.(*types.Named)
	return n
}

// TypeIs reports whether t (through at most one pointer) is the named type
// pkgPath.name.
func TypeIs(t types.Type, pkgPath, name string) bool {
	n := NamedOf(t)
	if n == nil || n.Obj() == nil || n.Obj().Pkg() == nil {
		return false
	}
	if full, ok := PkgAlias[pkgPath]; ok {
		pkgPath = full
	}
	return n.Obj().Pkg().Path() == pkgPath && n.Obj().Name() == name
}
