package ir

import (
	"go/token"
	"go/types"

	"golang.org/x/tools/go/ssa"
)

// BlockPath is a sequence of basic blocks connected by CFG edges.
type BlockPath []*ssa.BasicBlock

// MaxPaths bounds path enumeration; exceeding it makes EnumPaths report
// incompleteness (callers treat that as undecided).
const MaxPaths = 50000

// EnumPaths enumerates the paths from the start (an edge, or the function
// entry when start == nil) to every Return (and Panic when withPanics), in
// which no CFG edge is traversed twice. visit is called with the path and
// the terminating instruction. Constant-false edges are not followed. It
// returns false when the enumeration was cut off at MaxPaths.
func EnumPaths(fn *ssa.Function, start *Edge, withPanics bool, visit func(p BlockPath, end ssa.Instruction)) bool {
	return EnumPathsN(fn, start, withPanics, 1, visit)
}

// EnumPathsTo enumerates the paths from the start edge to a block for which stop is true, or
// to a Return, no edge traversed twice. The path handed to visit ends with the stop block.
func EnumPathsTo(fn *ssa.Function, start *Edge, stop func(*ssa.BasicBlock) bool, visit func(p BlockPath)) bool {
	count := 0
	complete := true
	used := map[Edge]int{}
	var path BlockPath
	var rec func(b *ssa.BasicBlock)
	rec = func(b *ssa.BasicBlock) {
		if !complete {
			return
		}
		path = append(path, b)
		defer func() { path = path[:len(path)-1] }()
		isRet := false
		if len(b.Instrs) > 0 {
			_, isRet = b.Instrs[len(b.Instrs)-1].(*ssa.Return)
		}
		if stop(b) || isRet {
			count++
			if count > MaxPaths {
				complete = false
				return
			}
			visit(append(BlockPath{}, path...))
			return
		}
		for k := range b.Succs {
			e := Edge{b, k}
			if used[e] >= 1 || constEdgeDead(e) {
				continue
			}
			used[e]++
			rec(b.Succs[k])
			used[e]--
		}
	}
	path = append(path, start.From)
	used[*start]++
	rec(start.To())
	return complete
}

// EnumPathsN is EnumPaths with every CFG edge traversed at most maxUse times
// (maxUse = 2 covers two iterations of every loop).
func EnumPathsN(fn *ssa.Function, start *Edge, withPanics bool, maxUse int, visit func(p BlockPath, end ssa.Instruction)) bool {
	if fn == nil || len(fn.Blocks) == 0 {
		return true
	}
	count := 0
	complete := true
	used := map[Edge]int{}
	var path BlockPath
	var rec func(b *ssa.BasicBlock)
	rec = func(b *ssa.BasicBlock) {
		if !complete {
			return
		}
		path = append(path, b)
		defer func() { path = path[:len(path)-1] }()
		if len(b.Instrs) > 0 {
			switch last := b.Instrs[len(b.Instrs)-1].(type) {
			case *ssa.Return:
				count++
				if count > MaxPaths {
					complete = false
					return
				}
				visit(append(BlockPath{}, path...), last)
				return
			case *ssa.Panic:
				if withPanics {
					count++
					visit(append(BlockPath{}, path...), last)
				}
				return
			}
		}
		for k := range b.Succs {
			e := Edge{b, k}
			if used[e] >= maxUse || constEdgeDead(e) {
				continue
			}
			used[e]++
			rec(b.Succs[k])
			used[e]--
		}
	}
	if start != nil {
		path = append(path, start.From)
		used[*start]++
		rec(start.To())
	} else {
		rec(fn.Blocks[0])
	}
	return complete
}

// ResolveOnPath resolves phi nodes of blocks lying on the path to the value
// flowing in along the path. Values not determined by the path are returned
// unchanged.
func ResolveOnPath(v ssa.Value, p BlockPath) ssa.Value {
	for depth := 0; depth < 32; depth++ {
		phi, ok := v.(*ssa.Phi)
		if !ok {
			return v
		}
		b := phi.Block()
		// last occurrence of the phi's block on the path with a predecessor
		idx := -1
		for i := len(p) - 1; i >= 1; i-- {
			if p[i] == b {
				idx = i
				break
			}
		}
		if idx < 1 {
			return v
		}
		pred := p[idx-1]
		found := false
		for k, pb := range b.Preds {
			if pb == pred {
				v = phi.Edges[k]
				found = true
				// truncate the path: earlier phis must be resolved by the
				// part of the path before this block
				p = p[:idx]
				break
			}
		}
		if !found {
			return v
		}
	}
	return v
}

// NilFact is what a path tells about a value.
type NilFact int

const (
	NilUnknown NilFact = iota
	IsNil
	NonNil
)

// NilOnPath reports what the nil tests along the path say about v (compared
// by identity after phi resolution, and by SameValue through u when u != nil).
func (u *Universe) NilOnPath(v ssa.Value, p BlockPath) NilFact {
	if IsNilConst(v) {
		return IsNil
	}
	res := NilUnknown
	for i := 0; i+1 < len(p); i++ {
		b := p[i]
		if len(b.Instrs) == 0 {
			continue
		}
		iff, ok := b.Instrs[len(b.Instrs)-1].(*ssa.If)
		if !ok {
			continue
		}
		tv, nilSucc, ok := NilTest(iff)
		if !ok {
			continue
		}
		tv = ResolveOnPath(tv, p[:i+1])
		if tv != v && !(u != nil && u.SameValue(tv, v)) {
			continue
		}
		if len(b.Succs) == 2 && b.Succs[0] == b.Succs[1] {
			continue
		}
		if p[i+1] == b.Succs[nilSucc] {
			res = IsNil
		} else {
			res = NonNil
		}
	}
	return res
}

// ErrorResultIndex returns the index of the last result of fn's signature if
// it is of type error, else -1.
func ErrorResultIndex(sig *types.Signature) int {
	n := sig.Results().Len()
	if n == 0 {
		return -1
	}
	if IsErrorType(sig.Results().At(n - 1).Type()) {
		return n - 1
	}
	return -1
}

// IsErrorType reports whether t is the predeclared error type.
func IsErrorType(t types.Type) bool {
	n, ok := t.(*types.Named)
	return ok && n.Obj() != nil && n.Obj().Pkg() == nil && n.Obj().Name() == "error"
}

// CallResult returns the SSA value holding result idx of a call (the call
// itself for single-result calls, the Extract otherwise), or nil if unused.
func CallResult(c ssa.CallInstruction, idx int) ssa.Value {
	v := c.Value()
	if v == nil {
		return nil
	}
	sig := c.Common().Signature()
	if sig.Results().Len() == 1 {
		if idx == 0 {
			return v
		}
		return nil
	}
	if v.Referrers() == nil {
		return nil
	}
	for _, r := range *v.Referrers() {
		if ex, ok := r.(*ssa.Extract); ok && ex.Index == idx {
			return ex
		}
	}
	return nil
}

// Loop describes a loop that visits the elements of a collection.
type Loop struct {
	Header *ssa.BasicBlock
	Body   Edge      // edge from the header into the body
	Exit   Edge      // edge from the header out of the loop
	Over   ssa.Value // the collection ranged over
	// Complete: the loop visits every element (index 0..len-1 step 1 for
	// slices; always for maps, strings and channels ranged with Next).
	Complete bool
	Elem     ssa.Value // element value or address, when identifiable (may be nil)
	Index    ssa.Value
	// IndexCell: set when the loop counter lives in a variable captured by a
	// closure (an Alloc cell read and written through loads and stores); IndexVals
	// are then the values stored into it (0 and cell+1).
	IndexCell *ssa.Alloc
	IndexVals []ssa.Value
}

// IsIndex reports whether v is the loop's index value (or one of the values
// its counter cell holds).
func (l *Loop) IsIndex(v ssa.Value) bool {
	if v == l.Index {
		return true
	}
	for _, x := range l.IndexVals {
		if x == v {
			return true
		}
	}
	return false
}

// counterCell: idx is a load of a local cell whose only stores are `= 0` and
// `= cell + 1`, and which no closure writes: a loop counter that happens to be
// captured by a closure.
func counterCell(idx ssa.Value) (*ssa.Alloc, []ssa.Value, bool) {
	ld, ok := idx.(*ssa.UnOp)
	if !ok || ld.Op != token.MUL {
		return nil, nil, false
	}
	cell, ok := ld.X.(*ssa.Alloc)
	if !ok || cell.Referrers() == nil {
		return nil, nil, false
	}
	var vals []ssa.Value
	zero, inc := 0, 0
	for _, r := range *cell.Referrers() {
		switch x := r.(type) {
		case *ssa.Store:
			if x.Addr != ssa.Value(cell) {
				return nil, nil, false // the cell's address is stored somewhere
			}
			if c, isConst := ConstInt(x.Val); isConst && c == 0 {
				zero++
				vals = append(vals, x.Val)
				continue
			}
			b, isBin := x.Val.(*ssa.BinOp)
			if !isBin || b.Op != token.ADD {
				return nil, nil, false
			}
			one, isOne := ConstInt(b.Y)
			l2, isLoad := b.X.(*ssa.UnOp)
			if !isOne || one != 1 || !isLoad || l2.Op != token.MUL || l2.X != ssa.Value(cell) {
				return nil, nil, false
			}
			inc++
			vals = append(vals, b)
		case *ssa.UnOp:
			// load
		case *ssa.MakeClosure:
			// the closure may read the cell but must not write it
			fn, _ := x.Fn.(*ssa.Function)
			if fn == nil {
				return nil, nil, false
			}
			for bi, bv := range x.Bindings {
				if bv != ssa.Value(cell) || bi >= len(fn.FreeVars) {
					continue
				}
				fv := fn.FreeVars[bi]
				if fv.Referrers() == nil {
					continue
				}
				for _, fr := range *fv.Referrers() {
					if u, isLoad := fr.(*ssa.UnOp); !isLoad || u.Op != token.MUL {
						return nil, nil, false
					}
				}
			}
		case *ssa.DebugRef:
		default:
			return nil, nil, false
		}
	}
	if zero != 1 || inc != 1 {
		return nil, nil, false
	}
	return cell, vals, true
}

// Loops finds the element loops of fn: range loops over slices/arrays (in
// go/ssa's rangeindex form or written as a counted for loop over len(x)) and
// range loops over maps and strings (Range/Next form).
func Loops(fn *ssa.Function) []*Loop {
	var out []*Loop
	for _, b := range fn.Blocks {
		if len(b.Instrs) == 0 {
			continue
		}
		iff, ok := b.Instrs[len(b.Instrs)-1].(*ssa.If)
		if !ok {
			continue
		}
		// map/string range: cond is extract(next(range x)) #0
		if ex, ok := iff.Cond.(*ssa.Extract); ok && ex.Index == 0 {
			if nx, ok := ex.Tuple.(*ssa.Next); ok {
				if rg, ok := nx.Iter.(*ssa.Range); ok {
					l := &Loop{Header: b, Body: Edge{b, 0}, Exit: Edge{b, 1}, Over: rg.X, Complete: true}
					if nx.Referrers() != nil {
						for _, r := range *nx.Referrers() {
							if e2, ok := r.(*ssa.Extract); ok {
								if e2.Index == 2 {
									l.Elem = e2
								} else if e2.Index == 1 {
									l.Index = e2
								}
							}
						}
					}
					out = append(out, l)
					continue
				}
			}
		}
		// counted loop: cond is i < len(x) (or i+1 < len in rotated form); the
		// block must really be a loop header (target of a back edge)
		isHeader := false
		for _, p := range b.Preds {
			if Dominates(b, p) {
				isHeader = true
			}
		}
		if !isHeader {
			continue
		}
		bin, ok := iff.Cond.(*ssa.BinOp)
		if !ok || bin.Op != token.LSS {
			continue
		}
		lenCall, ok := bin.Y.(*ssa.Call)
		if !ok || BuiltinName(lenCall) != "len" {
			continue
		}
		over := lenCall.Call.Args[0]
		idx := bin.X
		l := &Loop{Header: b, Body: Edge{b, 0}, Exit: Edge{b, 1}, Over: over, Index: idx}
		l.Complete = inductionFromZero(idx)
		if phi, isPhi := idx.(*ssa.Phi); isPhi && l.Complete {
			// the values the induction variable takes, for origin queries that
			// look through the phi (a counter handed to an expanded helper)
			l.IndexVals = append(l.IndexVals, phi.Edges...)
		}
		if cell, vals, ok := counterCell(idx); ok {
			l.IndexCell, l.IndexVals, l.Complete = cell, vals, true
			// element: over[load(cell)] inside the loop
			for _, r := range *cell.Referrers() {
				ld, isLoad := r.(*ssa.UnOp)
				if !isLoad || ld.Referrers() == nil {
					continue
				}
				for _, rr := range *ld.Referrers() {
					switch y := rr.(type) {
					case *ssa.IndexAddr:
						if y.Index == ssa.Value(ld) && sameCollection(y.X, over) {
							l.Elem = y
						}
					case *ssa.Index:
						if y.Index == ssa.Value(ld) && sameCollection(y.X, over) {
							l.Elem = y
						}
					}
				}
			}
		}
		// element: IndexAddr/Index of over by idx inside the loop
		if idx.Referrers() != nil {
			for _, r := range *idx.Referrers() {
				switch y := r.(type) {
				case *ssa.IndexAddr:
					if y.Index == idx && sameCollection(y.X, over) {
						l.Elem = y
					}
				case *ssa.Index:
					if y.Index == idx && sameCollection(y.X, over) {
						l.Elem = y
					}
				}
			}
		}
		out = append(out, l)
	}
	return out
}

func sameCollection(a, b ssa.Value) bool {
	if a == b {
		return true
	}
	// two loads of the same address
	la, oka := a.(*ssa.UnOp)
	lb, okb := b.(*ssa.UnOp)
	if oka && okb && la.Op == token.MUL && lb.Op == token.MUL {
		return la.X == lb.X || sameFieldAddr(la.X, lb.X)
	}
	return false
}

func sameFieldAddr(a, b ssa.Value) bool {
	fa, oka := a.(*ssa.FieldAddr)
	fb, okb := b.(*ssa.FieldAddr)
	if !oka || !okb || fa.Field != fb.Field {
		return false
	}
	return fa.X == fb.X || sameCollection(fa.X, fb.X) || sameFieldAddr(fa.X, fb.X)
}

// inductionFromZero: idx takes the values 0,1,2,... : either idx = phi(-1,
// idx')+1 (range form: t3 = t2 + 1 with t2 = phi[-1, t3]) or idx = phi(0, idx+1).
func inductionFromZero(idx ssa.Value) bool {
	// all phi edges are either the increment (back edges) or one constant
	split := func(phi *ssa.Phi, isBack func(ssa.Value) bool) (int64, bool) {
		back, inits := 0, 0
		var init int64
		for _, e := range phi.Edges {
			if isBack(e) {
				back++
				continue
			}
			c, ok := ConstInt(e)
			if !ok || (inits > 0 && c != init) {
				return 0, false
			}
			init = c
			inits++
		}
		if back == 0 || inits == 0 {
			return 0, false
		}
		return init, true
	}
	switch x := idx.(type) {
	case *ssa.BinOp: // rotated: idx = phi + 1, phi = [init -1, back idx]
		if x.Op != token.ADD {
			return false
		}
		one, ok := ConstInt(x.Y)
		if !ok || one != 1 {
			return false
		}
		phi, ok := x.X.(*ssa.Phi)
		if !ok {
			return false
		}
		init, ok := split(phi, func(v ssa.Value) bool { return v == idx })
		return ok && init == -1
	case *ssa.Phi: // idx = phi[init 0, back idx+1]
		isInc := func(v ssa.Value) bool {
			b, ok := v.(*ssa.BinOp)
			if !ok || b.Op != token.ADD || b.X != idx {
				return false
			}
			one, ok := ConstInt(b.Y)
			return ok && one == 1
		}
		init, ok := split(x, isInc)
		return ok && init == 0
	}
	return false
}

// LoopOf returns the innermost element loop whose body contains the block.
func LoopOf(fn *ssa.Function, loops []*Loop, b *ssa.BasicBlock) *Loop {
	var best *Loop
	for _, l := range loops {
		// b is in the loop if it is reachable from the body edge without
		// passing the header, or is the body target itself
		if inLoopBody(l, b) {
			if best == nil || inLoopBody(best, l.Header) {
				best = l
			}
		}
	}
	return best
}

func inLoopBody(l *Loop, b *ssa.BasicBlock) bool {
	seen := map[*ssa.BasicBlock]bool{l.Header: true}
	work := []*ssa.BasicBlock{l.Body.To()}
	for len(work) > 0 {
		x := work[len(work)-1]
		work = work[:len(work)-1]
		if seen[x] {
			continue
		}
		seen[x] = true
		if x == b {
			return true
		}
		// do not leave through blocks that cannot come back to the header
		work = append(work, x.Succs...)
	}
	return false
}

// BodyBlocks returns the blocks of the loop body: reachable from the body
// edge without passing the header and able to reach the header again.
func (l *Loop) BodyBlocks() map[*ssa.BasicBlock]bool {
	fwd := map[*ssa.BasicBlock]bool{}
	work := []*ssa.BasicBlock{l.Body.To()}
	for len(work) > 0 {
		x := work[len(work)-1]
		work = work[:len(work)-1]
		if fwd[x] || x == l.Header {
			continue
		}
		fwd[x] = true
		work = append(work, x.Succs...)
	}
	// backward from header
	back := map[*ssa.BasicBlock]bool{}
	work = append(work, l.Header.Preds...)
	for len(work) > 0 {
		x := work[len(work)-1]
		work = work[:len(work)-1]
		if back[x] || x == l.Header {
			continue
		}
		back[x] = true
		work = append(work, x.Preds...)
	}
	out := map[*ssa.BasicBlock]bool{}
	for b := range fwd {
		if back[b] {
			out[b] = true
		}
	}
	return out
}

// DefiniteNil says whether a value is certainly nil or certainly non-nil by
// construction (nil constant; allocation, make, append of at least one
// element, closure, constructor of an error value).
func DefiniteNil(v ssa.Value) NilFact {
	switch x := v.(type) {
	case *ssa.Const:
		if IsNilConst(x) {
			return IsNil
		}
		return NilUnknown
	case *ssa.Alloc, *ssa.MakeMap, *ssa.MakeSlice, *ssa.MakeChan, *ssa.MakeClosure, *ssa.Function, *ssa.FieldAddr, *ssa.IndexAddr:
		return NonNil
	case *ssa.MakeInterface:
		return NonNil
	case *ssa.ChangeInterface:
		return DefiniteNil(x.X)
	case *ssa.ChangeType:
		return DefiniteNil(x.X)
	case *ssa.Call:
		if BuiltinName(x) == "append" && len(x.Call.Args) == 2 {
			// append(s, elems...) with a non-empty literal argument list
			if sl, ok := x.Call.Args[1].(*ssa.Slice); ok {
				if _, ok := sl.X.(*ssa.Alloc); ok {
					return NonNil
				}
			}
			return DefiniteNil(x.Call.Args[0])
		}
		if f := x.Call.StaticCallee(); f != nil {
			switch f.String() {
			case "fmt.Errorf", "errors.New":
				return NonNil
			}
		}
	}
	return NilUnknown
}

// FeasiblePath reports false when the path contradicts itself: it takes the
// nil (non-nil) edge of a test of a value that, resolved along the path, is
// certainly non-nil (nil).
func FeasiblePath(p BlockPath) bool {
	for i := 0; i+1 < len(p); i++ {
		b := p[i]
		if len(b.Instrs) == 0 {
			continue
		}
		iff, ok := b.Instrs[len(b.Instrs)-1].(*ssa.If)
		if !ok {
			continue
		}
		// a boolean flag that the path itself has set: `found := false; ...; found = true; ...; if found`
		if b.Succs[0] != b.Succs[1] {
			cond := iff.Cond
			neg := false
			for k := 0; k < 3; k++ {
				if u, isNot := cond.(*ssa.UnOp); isNot && u.Op == token.NOT {
					cond, neg = u.X, !neg
				}
			}
			if _, isPhi := cond.(*ssa.Phi); isPhi {
				if bv, isConst := ConstBool(ResolveOnPath(cond, p[:i+1])); isConst {
					want := bv != neg
					tookTrue := p[i+1] == b.Succs[0]
					if tookTrue != want {
						return false
					}
					continue
				}
			}
		}
		tv, nilSucc, ok := NilTest(iff)
		if !ok {
			// an emptiness test of a slice decides like a nil test for
			// values that are nil or built by appending at least one element
			tv, nilSucc, ok = EmptyTest(iff)
		}
		if !ok || b.Succs[0] == b.Succs[1] {
			continue
		}
		tv = ResolveOnPath(tv, p[:i+1])
		tookNil := p[i+1] == b.Succs[nilSucc]
		switch DefiniteNil(tv) {
		case IsNil:
			if !tookNil {
				return false
			}
		case NonNil:
			if tookNil {
				return false
			}
		}
	}
	return true
}

// PathHasEdge reports whether the path traverses the edge.
func PathHasEdge(p BlockPath, e Edge) bool {
	for i := 0; i+1 < len(p); i++ {
		if p[i] == e.From && p[i+1] == e.To() {
			// make sure it is this successor (both successors may be the same block)
			return true
		}
	}
	return false
}

// PathIndexOfBlock returns the positions of block b on the path.
func PathIndexOfBlock(p BlockPath, b *ssa.BasicBlock) []int {
	var out []int
	for i, x := range p {
		if x == b {
			out = append(out, i)
		}
	}
	return out
}
