// Package report collects proof obligations of one property run, matches
// violations against the known-findings file and writes the evidence file.
package report

import (
	"bufio"
	"encoding/json"
	"fmt"
	"os"
	"path/filepath"
	"sort"
	"strings"
	"time"
)

// Status of an obligation.
type Status string

const (
	Discharged Status = "discharged"
	Violated   Status = "violated"
	Undecided  Status = "undecided"
	Noted      Status = "noted" // informational, never fails
)

// Obligation is one rule instance.
type Obligation struct {
	Rule   string `json:"rule"`
	Key    string `json:"key"` // rule-specific construct key (no line numbers)
	Status Status `json:"status"`
	Pos    string `json:"pos,omitempty"`
	Detail string `json:"detail,omitempty"`
	Config string `json:"config,omitempty"` // build configuration (GOOS) it was decided under
}

// Report accumulates the obligations of one property.
type Report struct {
	Property string
	Tier     string
	Seed     int64
	Start    time.Time

	Obligations []*Obligation
	Rules       map[string]string // rule id -> one-line statement
	RuleOrder   []string
	Floors      map[string]int // rule id -> minimum number of obligations
	Analysed    map[string]interface{}
	Assumptions []string
	Explanation string
	Config      string
}

// New creates a report.
func New(property, tier string, seed int64) *Report {
	return &Report{Property: property, Tier: tier, Seed: seed, Start: time.Now(),
		Rules: map[string]string{}, Floors: map[string]int{}, Analysed: map[string]interface{}{}}
}

// Rule registers a rule with its statement and instance floor.
func (r *Report) Rule(id, statement string, floor int) {
	if _, ok := r.Rules[id]; !ok {
		r.RuleOrder = append(r.RuleOrder, id)
	}
	r.Rules[id] = statement
	if floor > r.Floors[id] {
		r.Floors[id] = floor
	}
}

func (r *Report) add(rule, key string, st Status, pos, detail string) *Obligation {
	if _, ok := r.Rules[rule]; !ok {
		r.Rule(rule, "", 0)
	}
	o := &Obligation{Rule: rule, Key: key, Status: st, Pos: pos, Detail: detail, Config: r.Config}
	r.Obligations = append(r.Obligations, o)
	return o
}

// Check records an obligation that is discharged when ok, violated otherwise.
func (r *Report) Check(rule, key string, ok bool, pos, detail string) bool {
	if ok {
		r.add(rule, key, Discharged, pos, detail)
	} else {
		r.add(rule, key, Violated, pos, detail)
	}
	return ok
}

// OK records a discharged obligation.
func (r *Report) OK(rule, key, pos, detail string) { r.add(rule, key, Discharged, pos, detail) }

// Violation records a violated obligation.
func (r *Report) Violation(rule, key, pos, detail string) { r.add(rule, key, Violated, pos, detail) }

// Undecided records an obligation the analysis could not decide (anchor not
// found, idiom not recognised): fails closed.
func (r *Report) Undecided(rule, key, pos, detail string) { r.add(rule, key, Undecided, pos, detail) }

// Note records an informational finding that never fails the check.
func (r *Report) Note(rule, key, pos, detail string) { r.add(rule, key, Noted, pos, detail) }

// Known is one entry of the known-findings file.
type Known struct {
	Open     bool
	Property string
	Rule     string
	Key      string
	Text     string
}

// LoadKnown parses the known-findings file.
func LoadKnown(path string) ([]Known, error) {
	f, err := os.Open(path)
	if err != nil {
		if os.IsNotExist(err) {
			return nil, nil
		}
		return nil, err
	}
	defer f.Close()
	var out []Known
	sc := bufio.NewScanner(f)
	sc.Buffer(make([]byte, 1<<20), 1<<20)
	for sc.Scan() {
		line := strings.TrimSpace(sc.Text())
		if line == "" || strings.HasPrefix(line, "#") {
			continue
		}
		switch {
		case strings.HasPrefix(line, "open:"):
			rest := strings.TrimSpace(strings.TrimPrefix(line, "open:"))
			head, text, _ := strings.Cut(rest, "::")
			k := Known{Open: true, Text: strings.TrimSpace(text)}
			for _, f := range strings.Fields(head) {
				switch {
				case strings.HasPrefix(f, "property="):
					k.Property = strings.TrimPrefix(f, "property=")
				case strings.HasPrefix(f, "rule="):
					k.Rule = strings.TrimPrefix(f, "rule=")
				case strings.HasPrefix(f, "key="):
					k.Key = strings.TrimPrefix(f, "key=")
				}
			}
			if k.Property == "" || k.Rule == "" || k.Key == "" {
				return nil, fmt.Errorf("known findings: malformed open entry %q", line)
			}
			out = append(out, k)
		case strings.HasPrefix(line, "fixed:"):
			rest := strings.TrimSpace(strings.TrimPrefix(line, "fixed:"))
			k := Known{Open: false, Text: rest}
			for _, f := range strings.Fields(rest) {
				if strings.HasPrefix(f, "property=") {
					k.Property = strings.TrimPrefix(f, "property=")
				}
			}
			out = append(out, k)
		default:
			return nil, fmt.Errorf("known findings: unrecognised line %q", line)
		}
	}
	return out, sc.Err()
}

// Result is the outcome of Finish.
type Result struct {
	Violations int
	KnownHits  int
	ExitCode   int
}

type evidence struct {
	PropertyID  string                 `json:"property_id"`
	Tier        string                 `json:"tier"`
	Seed        int64                  `json:"seed"`
	Level       string                 `json:"level"`
	Coverage    map[string]interface{} `json:"coverage"`
	Assumptions []string               `json:"assumptions"`
	WallS       float64                `json:"wall_s"`
	Violations  int                    `json:"violations"`
}

// Finish applies instance floors, matches known findings, prints the
// verdict lines and writes the evidence and (on violation) the replay file.
func (r *Report) Finish(evidencePath string, known []Known, extra map[string]interface{}) Result {
	// floors: a rule matching fewer instances than confirmed by hand is undecided
	count := map[string]int{}
	for _, o := range r.Obligations {
		if o.Status != Noted {
			count[o.Rule]++
		}
	}
	for _, id := range r.RuleOrder {
		if fl := r.Floors[id]; count[id] < fl {
			r.add(id, "floor", Undecided, "", fmt.Sprintf("rule matched %d instance(s), floor confirmed by hand is %d: an anchor moved or the rule no longer sees the code it was written for", count[id], fl))
		}
	}
	var viol, knownHits []*Obligation
	discharged, total := 0, 0
	for _, o := range r.Obligations {
		switch o.Status {
		case Noted:
			continue
		case Discharged:
			discharged++
			total++
		default:
			total++
			matched := false
			if o.Status == Violated {
				for _, k := range known {
					if k.Open && k.Property == r.Property && k.Rule == o.Rule && k.Key == o.Key {
						matched = true
						fmt.Printf("KNOWN-FINDING: property=%s rule=%s key=%s %s\n", r.Property, o.Rule, o.Key, k.Text)
					}
				}
			}
			if matched {
				knownHits = append(knownHits, o)
			} else {
				viol = append(viol, o)
			}
		}
	}
	res := Result{Violations: len(viol), KnownHits: len(knownHits)}

	perRule := map[string]map[string]int{}
	for _, o := range r.Obligations {
		m := perRule[o.Rule]
		if m == nil {
			m = map[string]int{}
			perRule[o.Rule] = m
		}
		m[string(o.Status)]++
	}
	rules := []map[string]interface{}{}
	for _, id := range r.RuleOrder {
		rules = append(rules, map[string]interface{}{
			"rule": id, "statement": r.Rules[id], "floor": r.Floors[id], "instances": perRule[id],
		})
	}
	// every obligation, written out (rule, construct key, status, position, statement)
	samples := []interface{}{}
	for _, o := range r.Obligations {
		if o.Status == Noted {
			continue
		}
		samples = append(samples, o)
	}
	notes := []interface{}{}
	for _, o := range r.Obligations {
		if o.Status == Noted {
			notes = append(notes, o)
		}
	}
	cov := map[string]interface{}{
		"explanation":         r.Explanation,
		"obligations":         total,
		"discharged":          discharged,
		"known_findings":      len(knownHits),
		"rules":               rules,
		"obligation_list":     samples,
		"analysed":            r.Analysed,
		"notes":               notes,
		"exhaustive":          true,
		"checker_cmd":         "checker/bin/cdiverif (static: go/packages + go/ssa over /repo's working tree; nothing from /repo is executed)",
		"evaluations":         total,
		"distinct_nontrivial": distinctKeys(r.Obligations),
		"rule":                "one obligation per (rule, construct) instance found in the loaded program; distinct = distinct (rule,key,config) triples; all are non-trivial in the sense that each inspects a resolved program construct",
	}
	for k, v := range extra {
		cov[k] = v
	}
	ev := evidence{
		PropertyID: r.Property, Tier: r.Tier, Seed: r.Seed, Level: "other",
		Coverage: cov, Assumptions: r.Assumptions,
		WallS:      time.Since(r.Start).Seconds(),
		Violations: len(viol),
	}
	if evidencePath != "" {
		_ = os.MkdirAll(filepath.Dir(evidencePath), 0o755)
		data, _ := json.MarshalIndent(ev, "", " ")
		tmp := evidencePath + ".tmp"
		if err := os.WriteFile(tmp, append(data, '\n'), 0o644); err == nil {
			_ = os.Rename(tmp, evidencePath)
		}
	}
	if len(viol) > 0 {
		res.ExitCode = 1
		replay := ""
		if evidencePath != "" {
			dir := filepath.Join(filepath.Dir(evidencePath), "violations")
			_ = os.MkdirAll(dir, 0o755)
			replay = filepath.Join(dir, r.Property+"-"+r.Tier+".json")
			sort.SliceStable(viol, func(i, j int) bool { return viol[i].Rule < viol[j].Rule })
			data, _ := json.MarshalIndent(map[string]interface{}{
				"property": r.Property, "tier": r.Tier, "violations": viol,
				"how_to_replay": "cd /verif && ./check " + r.Property + " " + r.Tier + "   (re-analyses /repo's current tree; the entries below name rule, construct and position)",
			}, "", " ")
			_ = os.WriteFile(replay, append(data, '\n'), 0o644)
		}
		for _, o := range viol {
			fmt.Printf("  %s %s [%s] %s: %s\n", strings.ToUpper(string(o.Status)), o.Rule, o.Key, o.Pos, o.Detail)
		}
		fmt.Printf("VIOLATION property=%s replay=%s\n", r.Property, replay)
	} else {
		fmt.Printf("OK property=%s tier=%s obligations=%d discharged=%d known_findings=%d wall=%.1fs\n",
			r.Property, r.Tier, total, discharged, len(knownHits), time.Since(r.Start).Seconds())
	}
	return res
}

func distinctKeys(obs []*Obligation) int {
	seen := map[string]bool{}
	for _, o := range obs {
		if o.Status == Noted {
			continue
		}
		seen[o.Rule+"|"+o.Key+"|"+o.Config] = true
	}
	return len(seen)
}
