package rules

import (
	"bytes"
	"fmt"
	"go/token"
	"go/types"
	"os"
	"os/exec"
	"path/filepath"
	"regexp"
	"sort"
	"strconv"
	"strings"

	"golang.org/x/tools/go/ssa"

	"cdiverif/internal/ir"
)

// BOUNDS: every index / slice expression of the given packages must be proven
// in range. Prover 1 is the Go compiler's own prove pass: compiling with
// -d=ssa/check_bce/debug=1 lists exactly the bounds checks it could not
// eliminate; everything not listed is proven by the compiler. The listed
// residue must be discharged by one of the named rules below, otherwise it is
// a violation (a possible index-out-of-range panic).

var bceRe = regexp.MustCompile(`^(.+\.go):(\d+):(\d+): Found (IsInBounds|IsSliceInBounds)`)

type bcePos struct {
	file string
	line int
}

var bceCache = map[string]map[bcePos]int{}

// compilerUnproven runs the compiler's bounds-check listing in module dir
// (relative to the repository root) and returns the unproven positions.
func (c *Ctx) compilerUnproven(rule, moddir string) (map[bcePos]int, bool) {
	dir := filepath.Join(c.Root, moddir)
	key := dir + "|" + c.U.GOOS
	if m, ok := bceCache[key]; ok {
		return m, true
	}
	cmd := exec.Command("go", "build", "-gcflags="+ir.ModulePrefix+"/...=-l -d=ssa/check_bce/debug=1", "./...")
	cmd.Dir = dir
	env := []string{}
	for _, kv := range os.Environ() {
		if strings.HasPrefix(kv, "GOFLAGS=") || strings.HasPrefix(kv, "GOWORK=") || strings.HasPrefix(kv, "GOOS=") || strings.HasPrefix(kv, "GOARCH=") {
			continue
		}
		env = append(env, kv)
	}
	env = append(env, "GOFLAGS=-mod=mod", "GOPROXY=off", "GOSUMDB=off", "GOTOOLCHAIN=local", "GOWORK=off", "GOOS="+c.U.GOOS, "GOARCH=amd64")
	if c.U.GOOS != "linux" {
		env = append(env, "CGO_ENABLED=0")
	}
	cmd.Env = env
	var out bytes.Buffer
	cmd.Stdout = &out
	cmd.Stderr = &out
	err := cmd.Run()
	res := map[bcePos]int{}
	sawPkg := false
	for _, line := range strings.Split(out.String(), "\n") {
		if strings.HasPrefix(line, "# ") {
			sawPkg = true
			continue
		}
		m := bceRe.FindStringSubmatch(strings.TrimSpace(line))
		if m == nil {
			if strings.TrimSpace(line) != "" && err != nil {
				c.R.Undecided(rule, "compiler:"+moddir, "", "go build failed in "+moddir+": "+strings.TrimSpace(line))
				return nil, false
			}
			continue
		}
		f := m[1]
		if !filepath.IsAbs(f) {
			f = filepath.Join(dir, f)
		}
		rel, rerr := filepath.Rel(c.Root, f)
		if rerr != nil {
			rel = f
		}
		ln, _ := strconv.Atoi(m[2])
		res[bcePos{rel, ln}]++
	}
	if err != nil {
		c.R.Undecided(rule, "compiler:"+moddir, "", "go build for the bounds-check listing failed: "+err.Error()+": "+firstLine(out.String()))
		return nil, false
	}
	_ = sawPkg
	bceCache[key] = res
	return res, true
}

func firstLine(s string) string {
	s = strings.TrimSpace(s)
	if i := strings.Index(s, "\n"); i >= 0 {
		return s[:i]
	}
	return s
}

type indexOp struct {
	in   ssa.Instruction
	x    ssa.Value // the indexed value
	idx  ssa.Value // index (nil for slices)
	lo   ssa.Value
	hi   ssa.Value
	kind string // index | slice
	fn   *ssa.Function
}

func indexOps(fn *ssa.Function) []indexOp {
	var out []indexOp
	ir.Instrs(fn, func(in ssa.Instruction) {
		switch x := in.(type) {
		case *ssa.Index:
			out = append(out, indexOp{in: in, x: x.X, idx: x.Index, kind: "index", fn: fn})
		case *ssa.IndexAddr:
			out = append(out, indexOp{in: in, x: x.X, idx: x.Index, kind: "index", fn: fn})
		case *ssa.Lookup:
			if _, isMap := x.X.Type().Underlying().(*types.Map); !isMap {
				out = append(out, indexOp{in: in, x: x.X, idx: x.Index, kind: "index", fn: fn})
			}
		case *ssa.Slice:
			out = append(out, indexOp{in: in, x: x.X, lo: x.Low, hi: x.High, kind: "slice", fn: fn})
		}
	})
	return out
}

// boundsCheck records the bounds obligations of the given packages under rule.
func boundsCheck(c *Ctx, rule string, pkgs []string) {
	r := c.R
	// module directories to compile
	moddirs := map[string]bool{}
	for _, p := range pkgs {
		switch p {
		case "schema":
			moddirs["schema"] = true
		default:
			moddirs["."] = true
		}
	}
	unproven := map[bcePos]int{}
	for d := range moddirs {
		m, ok := c.compilerUnproven(rule, d)
		if !ok {
			return
		}
		for k, v := range m {
			unproven[k] = v
		}
	}
	total, byCompiler, byRule := 0, 0, 0
	for _, pkg := range pkgs {
		for _, fn := range c.U.RepoFuncs(pkg) {
			for _, op := range indexOps(fn) {
				total++
				pos := c.U.Fset.Position(op.in.Pos())
				if !op.in.Pos().IsValid() {
					// synthesized (varargs slices, range lowering): always in range by construction
					byCompiler++
					continue
				}
				rel, err := filepath.Rel(c.Root, pos.Filename)
				if err != nil {
					rel = pos.Filename
				}
				if unproven[bcePos{rel, pos.Line}] == 0 {
					byCompiler++
					continue
				}
				why := c.dischargeBounds(op)
				key := fmt.Sprintf("bounds:%s:%s", c.U.RelName(fn), normExpr(fn, []string{c.exprDesc(op.in.(ssa.Value))})[0])
				if why != "" {
					byRule++
					r.OK(rule, key, c.pos(op.in), "not proven by the compiler; discharged by rule "+why)
				} else {
					r.Violation(rule, key, c.pos(op.in), fmt.Sprintf("%s in %s: neither the compiler's prove pass nor any bounds rule shows the index/slice bounds to be in range under the conditions that hold here (%v): possible runtime panic on input",
						c.exprDesc(op.in.(ssa.Value)), c.U.RelName(fn), c.exprGuardsOf(fn, op.in)))
				}
			}
		}
	}
	r.Analysed[rule+".index_and_slice_expressions"] = total
	r.Analysed[rule+".proven_by_compiler"] = byCompiler
	r.Analysed[rule+".discharged_by_rule"] = byRule
	if total == 0 {
		r.Undecided(rule, "bounds:none", "", "no index or slice expression found in "+strings.Join(pkgs, ","))
		return
	}
	r.OK(rule, "bounds:compiler-proved", "", fmt.Sprintf("%d of %d index/slice expressions in %v are proven in range by the compiler's prove pass, %d by named rules", byCompiler, total, pkgs, byRule))
}

// dischargeBounds tries the named rules; returns the rule's name or "".
func (c *Ctx) dischargeBounds(op indexOp) string {
	fn := op.fn
	// R1 sort.Interface contract
	if op.kind == "index" {
		if par, ok := op.idx.(*ssa.Parameter); ok && c.sortContract(fn, par) {
			return "sort-interface-contract (indices handed to Less/Swap by package sort are in range)"
		}
	}
	// R1b the less function handed to sort.Slice / sort.SliceStable: its indices are indices of
	// the slice handed over with it
	if op.kind == "index" && fn.Parent() != nil {
		if par, ok := op.idx.(*ssa.Parameter); ok && len(fn.Params) == 2 && (par == fn.Params[0] || par == fn.Params[1]) {
			for _, mc := range c.U.ClosureSites(fn) {
				if mc.Referrers() == nil {
					continue
				}
				for _, ref := range *mc.Referrers() {
					call, isCall := ref.(*ssa.Call)
					if !isCall || call.Call.StaticCallee() == nil || len(call.Call.Args) != 2 || call.Call.Args[1] != ssa.Value(mc) {
						continue
					}
					switch call.Call.StaticCallee().String() {
					case "sort.Slice", "sort.SliceStable", "sort.SliceIsSorted":
						arg := call.Call.Args[0]
						if mi, isMI := arg.(*ssa.MakeInterface); isMI {
							arg = mi.X
						}
						if c.exprDesc(arg) == c.exprDesc(op.x) && !c.writesPathIn(fn, op.x) {
							return "sort-slice-contract (indices handed to the less function by package sort are indices of the slice it was given)"
						}
					}
				}
			}
		}
	}
	// R2 loop index over the same collection
	if op.kind == "index" {
		for _, l := range ir.Loops(fn) {
			if l.Index == op.idx && l.Complete && (l.Over == op.x || c.U.SameValue(l.Over, op.x)) && l.BodyBlocks()[op.in.Block()] {
				if !c.writesPathIn(fn, op.x) {
					return "range-reload (index runs over len of the same, unmodified collection)"
				}
			}
		}
	}
	// R2b the same with a loop counter that is captured by a closure (it lives in a cell): the
	// index is a load of the cell, and the increment cannot run between the loop test and it
	if op.kind == "index" {
		if ld, ok := op.idx.(*ssa.UnOp); ok && ld.Op == token.MUL {
			for _, l := range ir.Loops(fn) {
				if l.IndexCell == nil || ld.X != ssa.Value(l.IndexCell) || !l.Complete || !(l.Over == op.x || c.U.SameValue(l.Over, op.x)) || !l.BodyBlocks()[op.in.Block()] {
					continue
				}
				var inc ssa.Instruction
				for _, r := range *l.IndexCell.Referrers() {
					if st, isStore := r.(*ssa.Store); isStore {
						if _, isConst := ir.ConstInt(st.Val); !isConst {
							inc = st
						}
					}
				}
				header := l.Header
				if inc != nil && !c.writesPathIn(fn, op.x) && !ir.CanReach(fn, ir.PathQuery{From: inc, To: op.in, Stop: func(in ssa.Instruction) bool { return in.Block() == header }}) {
					return "range-reload (counter cell runs over len of the same, unmodified collection; no increment between the loop test and the access)"
				}
			}
		}
	}
	// R3 SplitN guarded by Contains
	if op.kind == "index" {
		if call, ok := op.x.(*ssa.Call); ok && call.Call.StaticCallee() != nil && call.Call.StaticCallee().String() == "strings.SplitN" {
			k, isK := ir.ConstInt(op.idx)
			n, isN := ir.ConstInt(call.Call.Args[2])
			if isK && isN && k == 1 && n == 2 {
				want := "strings.Contains(" + c.exprDesc(call.Call.Args[0]) + "," + c.exprDesc(call.Call.Args[1]) + ")"
				for _, g := range c.exprGuardsOf(fn, op.in) {
					if g == want {
						return "split-guard (the separator is known to occur, SplitN yields 2 parts)"
					}
				}
			}
		}
	}
	// R6 tail slice x[i:] under the loop test i < len(x), i counting up from a non-negative start
	if op.kind == "slice" && op.lo != nil && op.hi == nil && nonNegative(op.lo, 0) {
		for _, e := range ir.Ifs(fn) {
			bin, ok := e.Cond.(*ssa.BinOp)
			if !ok || bin.Op != token.LSS || bin.X != op.lo || !c.isLenMinus(bin.Y, op.x, 0) {
				continue
			}
			if ir.OnlyViaEdge(fn, op.in, ir.Edge{From: e.Block(), Succ: 0}) && !c.writesPathIn(fn, op.x) {
				return "guarded-tail-slice (0 <= i < len(x) holds where x[i:] is taken)"
			}
		}
	}
	// R4/R5 lower bound on len(x)
	lb := c.lenLowerBound(fn, op.x, op.in)
	switch op.kind {
	case "index":
		if k, ok := ir.ConstInt(op.idx); ok && k >= 0 && k < lb {
			return fmt.Sprintf("len-lower-bound (len >= %d here)", lb)
		}
		if c.isLenMinus(op.idx, op.x, 1) && lb >= 1 {
			return fmt.Sprintf("len-lower-bound (len >= %d here, index len-1)", lb)
		}
	case "slice":
		lo := int64(0)
		okLo := true
		if op.lo != nil {
			lo, okLo = ir.ConstInt(op.lo)
		}
		switch {
		case op.hi == nil && okLo && lo <= lb:
			return fmt.Sprintf("len-lower-bound (len >= %d here)", lb)
		case op.hi != nil && okLo:
			for d := int64(0); d <= 2; d++ {
				if c.isLenMinus(op.hi, op.x, d) && lo <= lb-d {
					return fmt.Sprintf("len-lower-bound (len >= %d here, slice [%d:len-%d])", lb, lo, d)
				}
			}
			if hi, ok := ir.ConstInt(op.hi); ok && lo <= hi && hi <= lb {
				return fmt.Sprintf("len-lower-bound (len >= %d here)", lb)
			}
		}
	}
	return ""
}

// nonNegative: v is a constant >= 0, a length, a byte count returned by a
// utf8 decoding function, or a phi / sum of such values.
func nonNegative(v ssa.Value, depth int) bool {
	if depth > 6 {
		return false
	}
	if k, ok := ir.ConstInt(v); ok {
		return k >= 0
	}
	switch x := v.(type) {
	case *ssa.Phi:
		for _, e := range x.Edges {
			if e == ssa.Value(x) {
				continue
			}
			if b, ok := e.(*ssa.BinOp); ok && b.Op == token.ADD && (b.X == ssa.Value(x) || b.Y == ssa.Value(x)) {
				other := b.Y
				if b.Y == ssa.Value(x) {
					other = b.X
				}
				if !nonNegative(other, depth+1) {
					return false
				}
				continue
			}
			if !nonNegative(e, depth+1) {
				return false
			}
		}
		return true
	case *ssa.BinOp:
		return x.Op == token.ADD && nonNegative(x.X, depth+1) && nonNegative(x.Y, depth+1)
	case *ssa.Call:
		return ir.BuiltinName(x) == "len" || ir.BuiltinName(x) == "cap"
	case *ssa.Extract:
		if call, ok := x.Tuple.(*ssa.Call); ok && x.Index == 1 {
			if f := call.Call.StaticCallee(); f != nil {
				switch f.String() {
				case "unicode/utf8.DecodeRune", "unicode/utf8.DecodeRuneInString", "unicode/utf8.DecodeLastRune", "unicode/utf8.DecodeLastRuneInString":
					return true // documented: the width in bytes, 0 only for empty input
				}
			}
		}
	}
	return false
}

// isLenMinus: v is len(x) - d.
func (c *Ctx) isLenMinus(v, x ssa.Value, d int64) bool {
	isLen := func(y ssa.Value) bool {
		call, ok := y.(*ssa.Call)
		return ok && ir.BuiltinName(call) == "len" && (call.Call.Args[0] == x || c.exprDesc(call.Call.Args[0]) == c.exprDesc(x))
	}
	if d == 0 {
		return isLen(v)
	}
	b, ok := v.(*ssa.BinOp)
	if !ok || b.Op != token.SUB {
		return false
	}
	k, isK := ir.ConstInt(b.Y)
	return isK && k == d && isLen(b.X)
}

// lenLowerBound derives a lower bound of len(x) at instruction `at` from the
// conditions that dominate it and from how x is built.
func (c *Ctx) lenLowerBound(fn *ssa.Function, x ssa.Value, at ssa.Instruction) int64 {
	lb := int64(0)
	// construction: string concatenation with a non-empty constant part
	var minLen func(v ssa.Value, depth int) int64
	minLen = func(v ssa.Value, depth int) int64 {
		if depth > 6 {
			return 0
		}
		if s, ok := ir.ConstString(v); ok {
			return int64(len(s))
		}
		if b, ok := v.(*ssa.BinOp); ok && b.Op == token.ADD {
			return minLen(b.X, depth+1) + minLen(b.Y, depth+1)
		}
		return 0
	}
	if m := minLen(x, 0); m > lb {
		lb = m
	}
	xd := c.exprDesc(x)
	notOne := false
	for _, g := range c.exprGuardsOf(fn, at) {
		switch {
		case g == xd+` != ""`:
			if lb < 1 {
				lb = 1
			}
		case strings.HasPrefix(g, "len("+xd+") "):
			rest := strings.TrimPrefix(g, "len("+xd+") ")
			parts := strings.SplitN(rest, " ", 2)
			if len(parts) != 2 {
				continue
			}
			n, err := strconv.ParseInt(parts[1], 10, 64)
			if err != nil {
				continue
			}
			switch parts[0] {
			case "==":
				if n > lb {
					lb = n
				}
			case ">":
				if n+1 > lb {
					lb = n + 1
				}
			case ">=":
				if n > lb {
					lb = n
				}
			case "!=":
				if n == 0 && lb < 1 {
					lb = 1
				}
				if n == 1 {
					notOne = true
				}
			}
		}
	}
	if notOne && lb == 1 {
		lb = 2
	}
	return lb
}

// sortContract: par is an index parameter of Less/Swap of a sort.Interface
// implementation, or of a helper only called with such parameters.
func (c *Ctx) sortContract(fn *ssa.Function, par *ssa.Parameter) bool {
	return c.sortContract1(fn, par, 0)
}

func (c *Ctx) sortContract1(fn *ssa.Function, par *ssa.Parameter, depth int) bool {
	if depth > 3 || fn.Signature.Recv() == nil {
		return false
	}
	recv := fn.Signature.Recv().Type()
	if !implementsSortInterface(recv) {
		return false
	}
	if fn.Name() == "Less" || fn.Name() == "Swap" {
		return paramIndex(par) >= 1
	}
	// helper: every call site passes an index parameter that itself satisfies the contract
	sites := c.U.CallSitesOf(fn)
	if len(sites) == 0 {
		return false
	}
	idx := paramIndex(par)
	for _, s := range sites {
		args := s.Common().Args
		if idx >= len(args) {
			return false
		}
		ap, ok := args[idx].(*ssa.Parameter)
		if !ok || !c.sortContract1(s.Parent(), ap, depth+1) {
			return false
		}
	}
	return true
}

func implementsSortInterface(t types.Type) bool {
	ms := types.NewMethodSet(t)
	need := map[string]bool{"Len": false, "Less": false, "Swap": false}
	for i := 0; i < ms.Len(); i++ {
		if _, ok := need[ms.At(i).Obj().Name()]; ok {
			need[ms.At(i).Obj().Name()] = true
		}
	}
	for _, v := range need {
		if !v {
			return false
		}
	}
	return true
}

// writesPathIn: fn (or its callees) may write the collection x denotes.
func (c *Ctx) writesPathIn(fn *ssa.Function, x ssa.Value) bool {
	want := map[string]bool{}
	for _, p := range c.U.PathsOf(x) {
		want[p.String()] = true
	}
	for _, w := range c.U.EffectsOf(fn).Writes {
		if want[w.Path.String()] {
			return true
		}
	}
	return false
}

var _ = sort.Strings
