package rules

import (
	"fmt"
	"go/token"
	"go/types"
	"sort"
	"strings"

	"golang.org/x/tools/go/ssa"

	"cdiverif/internal/ir"
)

// C01 — device resolution follows Spec-directory precedence.

func init() {
	register(&Property{
		ID: "C01",
		Explanation: "Structural analysis of the scan -> index construction in pkg/cdi (scanSpecDirs, its walk callback, (*Cache).refresh, its scan callback and conflict closure, the listing methods) on go/ssa. " +
			"Decided: (C01.1) every site that filters by file extension compares with exactly {.json,.yaml}; (C01.2) the walk callback loads a file only if it is not a directory and has a Spec extension, skips sub-directories (SkipDir) and never descends; " +
			"(C01.3) the priority handed to ReadSpec and to the scan function is the index of the ascending complete loop over the directory list, and reaches Spec.priority unchanged through newSpec; " +
			"(C01.4) conflict resolution evaluated abstractly over the three order types of (new priority, old priority): every path of the conflict closure is classified by the comparisons it takes; '>' must replace the device and forget a recorded conflict, '=' must record a conflict for both files and keep the old entry, '<' must change nothing; the scan callback stores the device exactly when there was no entry or the closure said 'replace'; recorded conflicts are removed from the device index after the scan; " +
			"(C01.5) only successfully loaded Specs reach the index; (C01.6) the index fields are replaced by the maps built in this scan; (C01.7) the listing/lookup methods read the index they are named after, after refreshIfRequired. " +
			"Not decided: equality of the resulting index with the specified function for every directory population and history; filepath.Walk and file-system semantics; validity of Specs (C05).",
		Assumptions: []string{
			"filepath.Walk calls the callback for the root first, then for each entry in lexical order, and honours SkipDir",
			"integers compared only through <,=,> are fully abstracted by their order type",
		},
		Run: runC01,
	})
}

var specExts = []string{".json", ".yaml"}

// extCompareSets returns, per filepath.Ext call in fn, the constants its
// result is compared with.
func (c *Ctx) extCompareSets(fn *ssa.Function) map[ssa.Value][]string {
	out := map[ssa.Value][]string{}
	for _, call := range ir.Calls(fn) {
		f := call.Common().StaticCallee()
		if f == nil || f.String() != "path/filepath.Ext" {
			continue
		}
		v := call.Value()
		var consts []string
		for _, sc := range c.stringCompares(fn, func(x ssa.Value) bool { return x == ssa.Value(v) }) {
			consts = append(consts, sc.Const)
		}
		sort.Strings(consts)
		out[v] = consts
	}
	return out
}

type scanShape struct {
	refresh, scan, walkCB, scanCB, rc *ssa.Function
	scanCall                          ssa.CallInstruction
	specsMap, devicesMap, errorsMap   *ssa.MakeMap
	conflicts                         *ssa.MakeMap
}

func mapRoot(c *Ctx, v ssa.Value) *ssa.MakeMap {
	var mm *ssa.MakeMap
	for _, p := range c.U.PathsOf(v) {
		m, ok := p.Root.(*ssa.MakeMap)
		if !ok || len(p.Sels) != 0 {
			return nil
		}
		if mm != nil && mm != m {
			return nil
		}
		mm = m
	}
	return mm
}

func analyseScan(c *Ctx, rule string) *scanShape {
	s := &scanShape{}
	s.refresh = c.fn(rule, "cdi", "(*Cache).refresh")
	s.scan = c.fn(rule, "cdi", "scanSpecDirs")
	if s.refresh == nil || s.scan == nil {
		return nil
	}
	calls := c.callsTo(s.refresh, true, "cdi", "scanSpecDirs")
	if len(calls) != 1 {
		c.R.Undecided(rule, "anchor:scan-call", c.U.Pos(s.refresh.Pos()), fmt.Sprintf("%d calls of scanSpecDirs in refresh (one expected)", len(calls)))
		return nil
	}
	s.scanCall = calls[0]
	cbs := c.U.FuncValues(s.scanCall.Common().Args[1])
	if len(cbs) != 1 {
		c.R.Undecided(rule, "anchor:scan-callback", c.pos(s.scanCall), "the scan callback passed to scanSpecDirs is not a single function literal")
		return nil
	}
	s.scanCB = cbs[0]
	// walk callback: function value passed to filepath.Walk in scanSpecDirs
	for _, call := range ir.Calls(s.scan) {
		if f := call.Common().StaticCallee(); f != nil && (f.String() == "path/filepath.Walk" || f.String() == "path/filepath.WalkDir") {
			fs := c.U.FuncValues(call.Common().Args[1])
			if len(fs) == 1 {
				s.walkCB = fs[0]
			}
		}
	}
	if s.walkCB == nil {
		c.R.Undecided(rule, "anchor:walk-callback", c.U.Pos(s.scan.Pos()), "scanSpecDirs does not pass a function literal to filepath.Walk")
		return nil
	}
	// index maps: what refresh stores into c.specs / c.devices / c.errors
	ir.Instrs(s.refresh, func(in ssa.Instruction) {
		st, ok := in.(*ssa.Store)
		if !ok {
			return
		}
		fa, ok := st.Addr.(*ssa.FieldAddr)
		if !ok || !ir.TypeIs(fa.X.Type(), "cdi", "Cache") {
			return
		}
		name := ir.StructOf(fa.X.Type()).Field(fa.Field).Name()
		m := mapRoot(c, st.Val)
		switch name {
		case "specs":
			s.specsMap = m
		case "devices":
			s.devicesMap = m
		case "errors":
			s.errorsMap = m
		}
	})
	if s.specsMap == nil || s.devicesMap == nil || s.errorsMap == nil {
		c.R.Undecided(rule, "anchor:index-maps", c.U.Pos(s.refresh.Pos()), "refresh does not publish c.specs, c.devices and c.errors from maps made in the same call")
		return nil
	}
	// conflict set: delete(devices, k) for k ranging over a map made in refresh
	ir.Instrs(s.refresh, func(in ssa.Instruction) {
		call, ok := in.(*ssa.Call)
		if !ok || ir.BuiltinName(call) != "delete" {
			return
		}
		if mapRoot(c, call.Call.Args[0]) != s.devicesMap {
			return
		}
		if ex, ok := call.Call.Args[1].(*ssa.Extract); ok && ex.Index == 1 {
			if nx, ok := ex.Tuple.(*ssa.Next); ok {
				if rg, ok := nx.Iter.(*ssa.Range); ok {
					s.conflicts = mapRoot(c, rg.X)
				}
			}
		}
	})
	return s
}

func runC01(c *Ctx) {
	r := c.R
	r.Rule("C01.1", "ext-table: extension filters compare with exactly {.json,.yaml}", 5)
	r.Rule("C01.2", "scan-filter: only non-directory entries with a Spec extension are loaded; sub-directories are skipped", 4)
	r.Rule("C01.3", "priority-flow: the directory index reaches Spec.priority unchanged", 4)
	r.Rule("C01.4", "conflict-by-order-type: '>' replaces and forgets the conflict, '=' records a conflict and keeps, '<' changes nothing; conflicts are removed after the scan", 5)
	r.Rule("C01.5", "index-only-from-valid: index insertions happen only for successfully loaded Specs", 2)
	r.Rule("C01.6", "rebuilt-wholesale: the index fields are assigned the maps built by this scan", 3)
	r.Rule("C01.7", "listers: each query method reads the index it is named after, after refreshIfRequired", 6)

	// ---- C01.1
	// the scan's filter site is the function handed to filepath.Walk, whatever it is called
	walkCB := "scanSpecDirs$1"
	if scan := c.U.Func("cdi", "scanSpecDirs"); scan != nil {
		for _, call := range ir.Calls(scan) {
			if f := call.Common().StaticCallee(); f != nil && (f.String() == "path/filepath.Walk" || f.String() == "path/filepath.WalkDir") && len(call.Common().Args) == 2 {
				for _, cb := range c.U.FuncValues(call.Common().Args[1]) {
					walkCB = c.U.RelName(cb)
				}
			}
		}
	}
	filterSites := map[string]bool{walkCB: false, "(*watch).watch": false, "(*Cache).WriteSpec": false, "(*Cache).RemoveSpec": false, "newSpec": false}
	nExt := 0
	for _, fn := range c.U.RepoFuncs("cdi") {
		for v, consts := range c.extCompareSets(fn) {
			nExt++
			name := c.U.RelName(fn)
			key := "ext:" + name
			pos := c.U.Pos(v.Pos())
			inTable := true
			for _, k := range consts {
				if k != ".json" && k != ".yaml" {
					inTable = false
				}
			}
			if !inTable {
				r.Violation("C01.1", key, pos, fmt.Sprintf("%s compares a file extension with %v: only .json and .yaml name Spec files", name, consts))
				continue
			}
			if _, isFilter := filterSites[name]; isFilter {
				filterSites[name] = true
				r.Check("C01.1", key, sameSet(consts, specExts), pos, fmt.Sprintf("%s filters by extension %v (both .json and .yaml must be tested)", name, consts))
			} else {
				r.OK("C01.1", key, pos, fmt.Sprintf("%s compares the extension with %v (subset of the Spec extensions)", name, consts))
			}
		}
	}
	for name, seen := range filterSites {
		if !seen {
			r.Violation("C01.1", "ext:"+name, "", name+" no longer filters by file extension")
		}
	}

	s := analyseScan(c, "C01.2")
	if s == nil {
		return
	}
	c01Walk(c, s)
	c01Priority(c, s)
	c01Conflicts(c, s)
	c01Listers(c)
}

// c01Walk: C01.2 — the walk callback.
func c01Walk(c *Ctx, s *scanShape) {
	r := c.R
	cb := s.walkCB
	reads := c.callsTo(cb, false, "cdi", "ReadSpec")
	if len(reads) != 1 {
		r.Violation("C01.2", "read-call", c.U.Pos(cb.Pos()), fmt.Sprintf("%d ReadSpec calls in the walk callback (one expected)", len(reads)))
		return
	}
	gs := c.guardsOf(cb, reads[0].(ssa.Instruction))
	var notDir, ext, infoOK bool
	var extra []string
	infoName := "info"
	if len(cb.Params) == 3 {
		// the callback's parameters by position, whatever they are called
		for i, g := range gs {
			for k, std := range []string{"path", "info", "err"} {
				g = strings.ReplaceAll(g, "param:"+cb.Params[k].Name()+")", "param:"+std+")")
			}
			gs[i] = g
		}
	}
	for _, g := range gs {
		switch {
		case g == "!IsDir(param:"+infoName+")":
			// decided on the entry information Walk itself obtained (Lstat): a verdict
			// taken from anything else (a Stat through a symbolic link) disagrees with
			// what Walk does with the callback's answer
			notDir = true
		case strings.HasPrefix(g, "path/filepath.Ext(param:path) in {"):
			ext = g == `path/filepath.Ext(param:path) in {".json",".yaml"}`
		case g == "nonnil(param:info)":
			infoOK = true
		case g == "nil(param:err)":
		default:
			extra = append(extra, g)
		}
	}
	r.Check("C01.2", "load-filter", notDir && ext && infoOK && len(extra) == 0, c.pos(reads[0]),
		fmt.Sprintf("ReadSpec is reached exactly for entries that are not directories and whose extension is .json or .yaml (conditions %v)", gs))
	// the path read is the entry's path
	r.Check("C01.2", "load-path", reads[0].Common().Args[0] == ssa.Value(cb.Params[0]), c.pos(reads[0]), "the file read is the walked entry itself")
	// directories: nil only for the root, SkipDir otherwise
	nDir := 0
	type dirCase struct {
		ret *ssa.Return
		gs  []string
	}
	var cases []dirCase
	seenCase := map[string]bool{}
	for _, ret := range ir.NormalReturns(cb) {
		// per feasible way to the return (`case a && b:` followed by `case a:` reaches the
		// second only with !b), with the dominating conditions added
		dom := c.guardsOf(cb, ret)
		for _, gs := range c.feasiblePathConds(cb, ret) {
			all := append(append([]string{}, dom...), gs...)
			sort.Strings(all)
			var uniq []string
			for i, g := range all {
				if i == 0 || g != all[i-1] {
					uniq = append(uniq, g)
				}
			}
			k := c.pos(ret) + strings.Join(uniq, "&")
			if !seenCase[k] {
				seenCase[k] = true
				cases = append(cases, dirCase{ret, uniq})
			}
		}
	}
	for _, dc := range cases {
		ret, g2 := dc.ret, dc.gs
		isDir := false
		rootOnly := false
		for _, g := range g2 {
			if strings.HasPrefix(g, "!IsDir(") {
				isDir = false
				break
			}
			if strings.HasPrefix(g, "IsDir(") {
				isDir = true
				if len(cb.Params) == 3 && g != "IsDir(param:"+cb.Params[1].Name()+")" {
					r.Violation("C01.2", "dir:walk-info", c.pos(ret), "the directory test "+g+" is not taken on the entry information Walk passed to the callback: Walk treats the answer (SkipDir) according to its own Lstat result, so for a symbolic link the rest of the directory is dropped")
				}
			}
			if strings.HasPrefix(g, "param:path == ") {
				rootOnly = true
			}
		}
		if !isDir {
			continue
		}
		nDir++
		rv := ir.ReturnResult(ret, 0)
		d := c.valueDesc(rv)
		switch {
		case d == "global:SkipDir":
			r.OK("C01.2", "dir:skip", c.pos(ret), "directories other than the scanned one are skipped (SkipDir)")
		case ir.IsNilConst(rv) && rootOnly:
			// the compared value must be the directory being scanned
			r.OK("C01.2", "dir:root", c.pos(ret), "the scanned directory itself is entered")
		case rootOnly && c01IsScanFnReport(cb, rv) && subset([]string{"nonnil(param:" + cb.Params[2].Name() + ")"}, g2):
			// Walk's second call for the scanned directory, with the error of reading it
			r.OK("C01.2", "dir:root-unreadable", c.pos(ret), "a scanned directory that cannot be read is reported to the scan function (no file of it is loaded)")
		default:
			r.Violation("C01.2", "dir:descend", c.pos(ret), fmt.Sprintf("for a directory entry the callback returns %s under %v: sub-directories would be descended into, or the directory itself skipped", d, g2))
		}
	}
	_ = nDir
	dirRets := map[*ssa.Return]bool{}
	for _, dc := range cases {
		for _, g := range dc.gs {
			if strings.HasPrefix(g, "IsDir(") {
				dirRets[dc.ret] = true
			}
		}
	}
	if len(dirRets) < 2 {
		r.Violation("C01.2", "dir:cases", c.U.Pos(cb.Pos()), "the walk callback does not distinguish the scanned directory from sub-directories")
	}
}

// c01IsScanFnReport: v is the result of calling the scan function (a function-typed
// parameter or free variable with four arguments) with a nil Spec and Walk's error.
func c01IsScanFnReport(cb *ssa.Function, v ssa.Value) bool {
	call, ok := v.(*ssa.Call)
	if !ok || call.Call.StaticCallee() != nil || call.Call.IsInvoke() || len(call.Call.Args) != 4 || len(cb.Params) != 3 {
		return false
	}
	return call.Call.Args[0] == ssa.Value(cb.Params[0]) && ir.IsNilConst(call.Call.Args[2]) && call.Call.Args[3] == ssa.Value(cb.Params[2])
}

// c01Priority: C01.3.
func c01Priority(c *Ctx, s *scanShape) {
	r := c.R
	var dirLoop *ir.Loop
	for _, l := range ir.Loops(s.scan) {
		if c.valueDesc(l.Over) == "param:dirs" {
			dirLoop = l
		}
	}
	if dirLoop == nil {
		r.Undecided("C01.3", "dir-loop", c.U.Pos(s.scan.Pos()), "no loop over the dirs parameter in scanSpecDirs")
		return
	}
	// each directory is walked once per scan: a walk repeated for the same directory hands the
	// files already reported to the scan function again (a device then conflicts with itself)
	for _, call := range ir.Calls(s.scan) {
		if f := call.Common().StaticCallee(); f != nil && (f.String() == "path/filepath.Walk" || f.String() == "path/filepath.WalkDir") {
			hdr := dirLoop.Header
			again := ir.CanReach(s.scan, ir.PathQuery{From: call.(ssa.Instruction), To: call.(ssa.Instruction), Stop: func(in ssa.Instruction) bool { return in.Block() == hdr }})
			r.Check("C01.3", "walk-once-per-dir", !again, c.pos(call), "within one iteration over the directories the directory is walked once (no retry loop around the walk)")
		}
	}
	r.Check("C01.3", "dir-loop", dirLoop.Complete, c.pos(dirLoop.Header.Instrs[len(dirLoop.Header.Instrs)-1]), "directories are scanned by a complete ascending loop (lowest priority first)")
	isIndex := func(v ssa.Value) bool {
		for _, p := range c.U.PathsOf(v) {
			if !dirLoop.IsIndex(p.Root) || len(p.Sels) != 0 {
				return false
			}
		}
		return len(c.U.PathsOf(v)) > 0
	}
	// ReadSpec priority argument and scanFn priority argument
	for _, call := range ir.Calls(s.walkCB) {
		if c.U.CalleeIs(call, "cdi", "ReadSpec") {
			r.Check("C01.3", "readspec-priority", isIndex(call.Common().Args[1]), c.pos(call), "ReadSpec gets the directory's index as priority (found "+c.valueDesc(call.Common().Args[1])+")")
			continue
		}
		// calls of the scan function parameter
		if call.Common().StaticCallee() == nil && !call.Common().IsInvoke() && len(call.Common().Args) == 4 {
			r.Check("C01.3", "scanfn-priority", isIndex(call.Common().Args[1]), c.pos(call), "the scan function gets the directory's index as priority (found "+c.valueDesc(call.Common().Args[1])+")")
		}
	}
	// the walked directory is dirs[index]
	for _, call := range ir.Calls(s.scan) {
		if f := call.Common().StaticCallee(); f != nil && f.String() == "path/filepath.Walk" {
			r.Check("C01.3", "walk-dir", c.valueDesc(call.Common().Args[0]) == "param:dirs[*]", c.pos(call), "the directory walked is the loop's element of dirs")
		}
	}
	// ReadSpec -> newSpec -> Spec.priority
	read := c.fn("C01.3", "cdi", "ReadSpec")
	newSpec := c.fn("C01.3", "cdi", "newSpec")
	if read != nil && newSpec != nil {
		for _, call := range c.callsTo(read, false, "cdi", "newSpec") {
			r.Check("C01.3", "readspec-passes-priority", call.Common().Args[2] == ssa.Value(read.Params[1]), c.pos(call), "ReadSpec passes its priority parameter to newSpec")
		}
		n := 0
		for _, fn := range c.U.RepoFuncs("cdi") {
			ir.Instrs(fn, func(in ssa.Instruction) {
				st, ok := in.(*ssa.Store)
				if !ok {
					return
				}
				fa, ok := st.Addr.(*ssa.FieldAddr)
				if !ok || !ir.TypeIs(fa.X.Type(), "cdi", "Spec") || ir.StructOf(fa.X.Type()).Field(fa.Field).Name() != "priority" {
					return
				}
				n++
				ok2 := fn == newSpec && st.Val == ssa.Value(newSpec.Params[2])
				r.Check("C01.3", "priority-store:"+c.U.RelName(fn), ok2, c.pos(st), "Spec.priority is set only by newSpec, from its priority parameter")
			})
		}
		if n == 0 {
			r.Violation("C01.3", "priority-store", c.U.Pos(newSpec.Pos()), "Spec.priority is never set")
		}
	}
	if gp := c.fn("C01.3", "cdi", "(*Spec).GetPriority"); gp != nil {
		ok := false
		for _, ret := range ir.NormalReturns(gp) {
			ok = c.valueDesc(ret.Results[0]) == "param:s.priority"
		}
		r.Check("C01.3", "getpriority", ok, c.U.Pos(gp.Pos()), "GetPriority returns the stored priority")
	}
}

// ordOf parses a decoded comparison of the two priorities and returns the
// order types (subset of ">", "=", "<" for new versus old) it admits.
func ordOf(g, newP, oldP string) (map[string]bool, bool) {
	for _, op := range []string{" >= ", " <= ", " == ", " != ", " > ", " < "} {
		i := strings.Index(g, op)
		if i < 0 {
			continue
		}
		l, rr := g[:i], g[i+len(op):]
		o := strings.TrimSpace(op)
		if l == oldP && rr == newP {
			// mirror
			o = map[string]string{">": "<", "<": ">", ">=": "<=", "<=": ">=", "==": "==", "!=": "!="}[o]
		} else if !(l == newP && rr == oldP) {
			return nil, false
		}
		switch o {
		case ">":
			return map[string]bool{">": true}, true
		case "<":
			return map[string]bool{"<": true}, true
		case "==":
			return map[string]bool{"=": true}, true
		case "!=":
			return map[string]bool{">": true, "<": true}, true
		case ">=":
			return map[string]bool{">": true, "=": true}, true
		case "<=":
			return map[string]bool{"<": true, "=": true}, true
		}
	}
	return nil, false
}

// nonEmptyLiteral: v is a slice of a local array of constant length >= 1 (a variadic
// argument list or a composite literal).
func nonEmptyLiteral(v ssa.Value) bool {
	sl, ok := v.(*ssa.Slice)
	if !ok || sl.Low != nil || sl.High != nil {
		return false
	}
	a, ok := sl.X.(*ssa.Alloc)
	if !ok {
		return false
	}
	pt, ok := a.Type().Underlying().(*types.Pointer)
	if !ok {
		return false
	}
	arr, ok := pt.Elem().Underlying().(*types.Array)
	return ok && arr.Len() >= 1
}

// c01Conflicts: C01.4, C01.5, C01.6.
func c01Conflicts(c *Ctx, s *scanShape) {
	r := c.R
	cb := s.scanCB
	isMap := func(v ssa.Value, m *ssa.MakeMap) bool { return m != nil && mapRoot(c, v) == m }

	// ---- insertions in the scan callback
	var devStore *ssa.MapUpdate
	var devStores []*ssa.MapUpdate
	var specStores []*ssa.MapUpdate
	ir.Instrs(cb, func(in ssa.Instruction) {
		mu, ok := in.(*ssa.MapUpdate)
		if !ok {
			return
		}
		switch {
		case isMap(mu.Map, s.devicesMap):
			// (several insertions are fine when they store the same thing under the same key,
			// e.g. one on the 'replace' branch and one for a name not yet indexed)
			if devStore != nil && (c.valueDesc(mu.Key) != c.valueDesc(devStore.Key) || c.valueDesc(mu.Value) != c.valueDesc(devStore.Value)) {
				r.Violation("C01.4", "device-store:count", c.pos(mu), "the scan callback inserts different things into the device index")
			}
			devStores = append(devStores, mu)
			if devStore == nil {
				devStore = mu
			}
		case isMap(mu.Map, s.specsMap):
			specStores = append(specStores, mu)
		}
	})
	if devStore == nil {
		r.Undecided("C01.4", "anchor:device-store", c.U.Pos(cb.Pos()), "the scan callback does not insert into the device index map")
		return
	}
	// C01.5
	for _, mu := range append(append([]*ssa.MapUpdate{}, devStores...), specStores...) {
		gs := c.guardsOf(cb, mu)
		okErr := false
		for _, g := range gs {
			if g == "nil(param:err)" {
				okErr = true
			}
		}
		what := "Spec"
		for _, ds := range devStores {
			if mu == ds {
				what = "device"
			}
		}
		r.Check("C01.5", "insert-after-load-ok:"+what, okErr, c.pos(mu), fmt.Sprintf("%s index insertion happens only when the file loaded without error (conditions %v)", what, gs))
	}
	if len(specStores) != 1 {
		r.Violation("C01.5", "spec-store", c.U.Pos(cb.Pos()), fmt.Sprintf("%d insertions into the Spec index per file (one expected)", len(specStores)))
	} else {
		mu := specStores[0]
		keyOK := c.valueDesc(mu.Key) == "param:spec.vendor"
		valOK := false
		if ap, ok := mu.Value.(*ssa.Call); ok && ir.BuiltinName(ap) == "append" {
			elems := c.U.ContainerElems(ap.Call.Args[1])
			isSpec := len(elems) == 1 && (elems[0] == ssa.Value(cb.Params[len(cb.Params)-2]) || c.valueDesc(elems[0]) == "param:spec")
			if lk, isLk := ap.Call.Args[0].(*ssa.Lookup); isSpec && isLk && isMap(lk.X, s.specsMap) && c.valueDesc(lk.Index) == c.valueDesc(mu.Key) {
				valOK = true
			}
		}
		r.Check("C01.5", "spec-store", keyOK && valOK, c.pos(mu), "specs[vendor of the Spec] = append(specs[vendor], the Spec)")
	}
	// device key and value
	{
		keyOK := false
		if call, ok := devStore.Key.(*ssa.Call); ok && c.U.CalleeIs(call, "cdi", "(*Device).GetQualifiedName") && call.Call.Args[0] == devStore.Value {
			keyOK = true
		}
		valOK := c.valueDesc(devStore.Value) == "param:spec.devices[*]"
		r.Check("C01.5", "device-store-key", keyOK && valOK, c.pos(devStore), "devices[qualified name of d] = d for each device d of the Spec")
		var devLoop *ir.Loop
		for _, l := range ir.Loops(cb) {
			if c.valueDesc(l.Over) == "param:spec.devices" {
				devLoop = l
			}
		}
		r.Check("C01.5", "all-devices", devLoop != nil && devLoop.Complete && devLoop.BodyBlocks()[devStore.Block()], c.pos(devStore), "the insertion is inside a complete loop over the Spec's devices")
	}

	// ---- conflict resolution, evaluated on the scan callback itself. The conflict closure and
	// the error collector of refresh (closures, methods, or written out) are expanded into the
	// callback before analysis, so the rule reads one iteration of the device loop: from the
	// edge on which the name is already indexed to the next iteration (or a return), every
	// path is classified by the order types of (new priority, old priority) its comparisons admit,
	// and its effects must be exactly those the order type calls for.
	var presentIf *ssa.If
	var oldDev ssa.Value
	presentSucc := 0
	for _, iff := range ir.Ifs(cb) {
		if ex, ok := iff.Cond.(*ssa.Extract); ok && ex.Index == 1 {
			if lk, ok := ex.Tuple.(*ssa.Lookup); ok && isMap(lk.X, s.devicesMap) {
				presentIf, presentSucc = iff, 0
			}
		} else if tv, nilSucc, ok := ir.NilTest(iff); ok {
			if lk, ok := tv.(*ssa.Lookup); ok && isMap(lk.X, s.devicesMap) {
				presentIf, presentSucc = iff, 1-nilSucc
			}
		}
	}
	if presentIf == nil {
		r.Undecided("C01.4", "anchor:present-test", c.U.Pos(cb.Pos()), "the scan callback does not test whether the device name is already indexed")
		return
	}
	// the indexed (old) device: the value of the lookup the test is about
	if ex, ok := presentIf.Cond.(*ssa.Extract); ok {
		if lk, ok := ex.Tuple.(*ssa.Lookup); ok && lk.Referrers() != nil {
			for _, ref := range *lk.Referrers() {
				if e0, ok := ref.(*ssa.Extract); ok && e0.Index == 0 {
					oldDev = e0
				}
			}
		}
	} else if tv, _, ok := ir.NilTest(presentIf); ok {
		oldDev = tv
	}
	newD := c.valueDesc(devStore.Value) // param:spec.devices[*]
	oldD := "make:map(devices)[*]"
	if oldDev != nil {
		oldD = c.valueDesc(oldDev)
	}
	newP, oldP := newD+".spec.priority", oldD+".spec.priority"
	newPath, oldPath := newD+".spec.path", oldD+".spec.path"
	keyD := c.valueDesc(devStore.Key)
	var devLoopHdr *ssa.BasicBlock
	for _, l := range ir.Loops(cb) {
		if c.valueDesc(l.Over) == "param:spec.devices" {
			devLoopHdr = l.Header
		}
	}
	loops := ir.Loops(cb)
	type pathInfo struct {
		orders                                        map[string]bool
		stored, delConflict, setConflict, collectBoth bool
		recorded                                      map[string]bool
		otherEffects                                  []string
	}
	var infos []pathInfo
	present := ir.Edge{From: presentIf.Block(), Succ: presentSucc}
	complete := ir.EnumPathsTo(cb, &present, func(b *ssa.BasicBlock) bool { return b == devLoopHdr }, func(p ir.BlockPath) {
		pi := pathInfo{orders: map[string]bool{">": true, "=": true, "<": true}, recorded: map[string]bool{}}
		for i := 0; i+1 < len(p); i++ {
			b := p[i]
			iff, ok := b.Instrs[len(b.Instrs)-1].(*ssa.If)
			if !ok || b.Succs[0] == b.Succs[1] {
				continue
			}
			succ := 0
			if p[i+1] == b.Succs[1] {
				succ = 1
			}
			if o, ok := ordOf(c.condDesc(iff, succ, loops), newP, oldP); ok {
				for k := range pi.orders {
					if !o[k] {
						delete(pi.orders, k)
					}
				}
			}
		}
		if len(pi.orders) == 0 {
			return // contradictory comparisons: infeasible
		}
		// a loop over a literal list (the paths handed to the expanded collector) runs at least once
		for _, l := range loops {
			if !nonEmptyLiteral(l.Over) {
				continue
			}
			through, body := false, false
			for i := 0; i+1 < len(p); i++ {
				if p[i] == l.Header {
					through = true
					if p[i+1] == l.Body.To() {
						body = true
					}
				}
			}
			if through && !body {
				return
			}
		}
		for _, b := range p[1:] {
			if b == devLoopHdr {
				continue
			}
			for _, in := range b.Instrs {
				switch x := in.(type) {
				case *ssa.MapUpdate:
					switch {
					case x == devStore || (isMap(x.Map, s.devicesMap) && c.valueDesc(x.Key) == keyD):
						pi.stored = true
					case isMap(x.Map, s.conflicts) && c.valueDesc(x.Key) == keyD:
						pi.setConflict = true
					default:
						if kd, ok := directErrorRecord(c, s, x, false); ok {
							for _, k := range strings.Split(kd, "|") {
								pi.recorded[k] = true
							}
							if pi.recorded[newPath] && pi.recorded[oldPath] {
								pi.collectBoth = true
							}
						} else {
							pi.otherEffects = append(pi.otherEffects, "map update at "+c.pos(x)+" (map "+c.valueDesc(x.Map)+", key "+c.valueDesc(x.Key)+")")
						}
					}
				case *ssa.Call:
					if ir.BuiltinName(x) == "delete" {
						if isMap(x.Call.Args[0], s.conflicts) && c.valueDesc(x.Call.Args[1]) == keyD {
							pi.delConflict = true
						} else {
							pi.otherEffects = append(pi.otherEffects, "delete at "+c.pos(x))
						}
					}
				case *ssa.Store:
					if _, local := x.Addr.(*ssa.Alloc); !local {
						if _, idx := x.Addr.(*ssa.IndexAddr); !idx {
							pi.otherEffects = append(pi.otherEffects, "store at "+c.pos(x))
						}
					}
				}
			}
		}
		infos = append(infos, pi)
	})
	if !complete || len(infos) == 0 {
		r.Undecided("C01.4", "conflict-paths", c.pos(presentIf), "the paths of one iteration from 'name already indexed' to the next iteration could not be enumerated")
		return
	}
	covered := map[string]bool{}
	bad := 0
	for _, pi := range infos {
		var os []string
		for k := range pi.orders {
			os = append(os, k)
			covered[k] = true
		}
		sort.Strings(os)
		for _, o := range os {
			var problem string
			switch o {
			case ">":
				if !pi.stored {
					problem = "does not replace the indexed device by the one of the higher-priority Spec"
				} else if s.conflicts != nil && !pi.delConflict {
					problem = "replaces the device but does not forget a conflict recorded among lower-priority Specs: the device would be removed after the scan"
				} else if pi.setConflict || pi.collectBoth {
					problem = "records a conflict although the new Spec simply has higher priority"
				}
			case "=":
				if pi.stored {
					problem = "replaces the indexed device although both Specs have the same priority"
				} else if !pi.setConflict {
					problem = "does not record the conflict: one of the two equal-priority definitions would silently win"
				} else if !pi.collectBoth {
					problem = fmt.Sprintf("does not report the conflict for both Spec files (recorded under %v, wanted %s and %s)", keys(pi.recorded), newPath, oldPath)
				} else if pi.delConflict {
					problem = "forgets the conflict it should record"
				}
			case "<":
				if pi.stored {
					problem = "lets a lower-priority Spec replace the indexed device"
				} else if pi.setConflict || pi.delConflict || pi.collectBoth {
					problem = "a definition in a lower-priority directory changes the conflict state"
				}
			}
			if problem == "" && len(pi.otherEffects) > 0 {
				problem = "has side effects outside the conflict bookkeeping: " + strings.Join(pi.otherEffects, ", ")
			}
			if problem != "" {
				bad++
				r.Violation("C01.4", "order:"+o, c.pos(presentIf), fmt.Sprintf("a path of the iteration taken when new priority %s old priority %s", o, problem))
			}
		}
	}
	for _, o := range []string{">", "=", "<"} {
		if !covered[o] {
			bad++
			r.Violation("C01.4", "order:"+o, c.pos(presentIf), "no path of the iteration handles new priority "+o+" old priority")
		}
	}
	if bad == 0 {
		for _, o := range []string{">", "=", "<"} {
			r.OK("C01.4", "order:"+o, c.pos(presentIf), fmt.Sprintf("all %d paths from 'name already indexed' to the next iteration behave as specified for new priority %s old priority", len(infos), o))
		}
	}
	// the priorities compared are the Specs' priorities of (new, old)
	cmpSeen := false
	for _, iff := range ir.Ifs(cb) {
		if _, ok := ordOf(c.condDesc(iff, 0, loops), newP, oldP); ok {
			cmpSeen = true
		}
	}
	r.Check("C01.4", "compares-priorities", cmpSeen, c.pos(presentIf), "the priorities compared are "+newP+" and "+oldP)
	// absent -> store
	{
		absent := ir.Edge{From: presentIf.Block(), Succ: 1 - presentSucc}
		hdr := func(in ssa.Instruction) bool {
			for _, l := range ir.Loops(cb) {
				if in.Block() == l.Header {
					return true
				}
			}
			_, isRet := in.(*ssa.Return)
			return isRet
		}
		ok := !ir.CanReach(cb, ir.PathQuery{FromEdge: &absent, ToAny: hdr, Stop: func(in ssa.Instruction) bool {
			for _, ds := range devStores {
				if in == ssa.Instruction(ds) {
					return true
				}
			}
			return false
		}})
		r.Check("C01.4", "absent-stores", ok, c.pos(presentIf), "a name not yet indexed is always stored")
	}

	// ---- after the scan: conflicts removed
	if s.conflicts == nil {
		r.Violation("C01.4", "conflicts-removed", c.U.Pos(s.refresh.Pos()), "refresh does not remove the names recorded as conflicting from the device index after the scan: one of several equal-priority definitions would resolve")
	} else {
		var del *ssa.Call
		ir.Instrs(s.refresh, func(in ssa.Instruction) {
			if call, ok := in.(*ssa.Call); ok && ir.BuiltinName(call) == "delete" && isMap(call.Call.Args[0], s.devicesMap) {
				del = call
			}
		})
		after := del != nil && ir.CanReach(s.refresh, ir.PathQuery{From: s.scanCall.(ssa.Instruction), To: del}) &&
			!ir.CanReach(s.refresh, ir.PathQuery{From: del, To: s.scanCall.(ssa.Instruction)})
		gs := []string{}
		if del != nil {
			gs = c.guardsOf(s.refresh, del)
		}
		onlyLoop := len(gs) == 1 && strings.HasPrefix(gs[0], "loop(")
		// the published store comes after the deletion loop
		var pub *ssa.Store
		ir.Instrs(s.refresh, func(in ssa.Instruction) {
			if st, ok := in.(*ssa.Store); ok {
				if fa, ok := st.Addr.(*ssa.FieldAddr); ok && ir.TypeIs(fa.X.Type(), "cdi", "Cache") && ir.StructOf(fa.X.Type()).Field(fa.Field).Name() == "devices" {
					pub = st
				}
			}
		})
		r.Check("C01.4", "conflicts-removed", after && onlyLoop, c.U.Pos(s.refresh.Pos()), fmt.Sprintf("after the scan every recorded conflict is deleted from the device index unconditionally (conditions %v)", gs))
		_ = pub
	}
	// C01.6
	for name, m := range map[string]*ssa.MakeMap{"specs": s.specsMap, "devices": s.devicesMap, "errors": s.errorsMap} {
		r.Check("C01.6", "publish:"+name, m != nil && m.Parent() == s.refresh, c.U.Pos(s.refresh.Pos()), "c."+name+" is assigned the map built during this scan")
	}
}

func (c *Ctx) valueDescContains(v ssa.Value, sub string) bool {
	return strings.Contains(c.valueDesc(v), sub)
}

// c01Listers: C01.7.
func c01Listers(c *Ctx) {
	// a configured directory that is missing at first and appears later, already holding
	// Spec files, takes part in precedence from the query that first sees it: the query's
	// update() must report the newly watched directory so that refreshIfRequired scans
	if ok, found, pos := addReportsChange(c); found {
		c.R.Check("C01.7", "late-directory-scanned", ok, pos, "when update() starts watching a configured directory it reports a change on every path: the query that notices the directory also scans it (its definitions resolve and shadow lower ones at once, not only after the next file event)")
	}
	r := c.R
	type lister struct {
		name  string
		index string // field of Cache read
	}
	for _, l := range []lister{
		{"(*Cache).GetDevice", "devices"}, {"(*Cache).ListDevices", "devices"},
		{"(*Cache).ListVendors", "specs"}, {"(*Cache).ListClasses", "specs"}, {"(*Cache).GetVendorSpecs", "specs"},
		{"(*Cache).InjectDevices", "devices"},
	} {
		fn := c.fn("C01.7", "cdi", l.name)
		if fn == nil {
			continue
		}
		// reads of index fields
		var reads []ssa.Instruction
		fields := map[string]bool{}
		ir.Instrs(fn, func(in ssa.Instruction) {
			fa, ok := in.(*ssa.FieldAddr)
			if !ok || !ir.TypeIs(fa.X.Type(), "cdi", "Cache") {
				return
			}
			n := ir.StructOf(fa.X.Type()).Field(fa.Field).Name()
			if n == "specs" || n == "devices" {
				fields[n] = true
				reads = append(reads, in)
			}
		})
		r.Check("C01.7", "reads:"+l.name, fields[l.index] && len(fields) == 1, c.U.Pos(fn.Pos()), fmt.Sprintf("%s answers from c.%s (index fields read: %v)", l.name, l.index, keys(fields)))
		for i, rd := range reads {
			ok := ir.MustPassBefore(fn, rd, func(in ssa.Instruction) bool {
				call, ok := in.(ssa.CallInstruction)
				return ok && c.U.CalleeIs(call, "cdi", "(*Cache).refreshIfRequired")
			})
			r.Check("C01.7", fmt.Sprintf("refresh-first:%s:%d", l.name, i), ok, c.pos(rd), "the index is read only after refreshIfRequired")
		}
	}
	// result shapes of the simple getters
	if fn := c.U.Func("cdi", "(*Cache).GetDevice"); fn != nil {
		for _, ret := range ir.NormalReturns(fn) {
			d := c.valueDesc(ir.ReturnResult(ret, 0))
			r.Check("C01.7", "result:GetDevice", d == "param:c.devices[*]" && c01LookupKeyIsParam(c, fn, ir.ReturnResult(ret, 0)), c.pos(ret), "GetDevice returns c.devices[its argument] (found "+d+")")
		}
	}
	if fn := c.U.Func("cdi", "(*Cache).GetVendorSpecs"); fn != nil {
		for _, ret := range ir.NormalReturns(fn) {
			d := c.valueDesc(ir.ReturnResult(ret, 0))
			r.Check("C01.7", "result:GetVendorSpecs", d == "param:c.specs[*]" && c01LookupKeyIsParam(c, fn, ir.ReturnResult(ret, 0)), c.pos(ret), "GetVendorSpecs returns c.specs[its argument] (found "+d+")")
		}
	}
	// key listers: appended values are the range keys of the index
	for _, l := range []lister{{"(*Cache).ListDevices", "devices"}, {"(*Cache).ListVendors", "specs"}} {
		fn := c.U.Func("cdi", l.name)
		if fn == nil {
			continue
		}
		ok := false
		sorted := false
		for _, call := range ir.Calls(fn) {
			if ir.BuiltinName(call) == "append" {
				for _, ev := range c.U.ContainerElems(call.Common().Args[1]) {
					if ex, isEx := ev.(*ssa.Extract); isEx && ex.Index == 1 {
						if nx, isNx := ex.Tuple.(*ssa.Next); isNx {
							if rg, isRg := nx.Iter.(*ssa.Range); isRg && c.valueDesc(rg.X) == "param:c."+l.index {
								ok = true
							}
						}
					}
				}
			}
			if f := call.Common().StaticCallee(); f != nil && f.String() == "sort.Strings" {
				sorted = true
			}
		}
		_ = sorted
		r.Check("C01.7", "result:"+l.name, ok, c.U.Pos(fn.Pos()), l.name+" returns the keys of c."+l.index)
	}
	if fn := c.U.Func("cdi", "(*Cache).ListClasses"); fn != nil {
		ok := false
		for _, call := range ir.Calls(fn) {
			if c.U.CalleeIs(call, "cdi", "(*Spec).GetClass") && c.valueDesc(call.Common().Args[0]) == "param:c.specs[*][*]" {
				ok = true
			}
		}
		r.Check("C01.7", "result:(*Cache).ListClasses", ok, c.U.Pos(fn.Pos()), "ListClasses collects GetClass() of every Spec in c.specs")
	}
}

func c01LookupKeyIsParam(c *Ctx, fn *ssa.Function, v ssa.Value) bool {
	lk, ok := v.(*ssa.Lookup)
	if !ok {
		return false
	}
	for _, p := range fn.Params[1:] {
		if lk.Index == ssa.Value(p) {
			return true
		}
	}
	return false
}

func keys(m map[string]bool) []string {
	var out []string
	for k := range m {
		out = append(out, k)
	}
	sort.Strings(out)
	return out
}

var _ = token.ADD
