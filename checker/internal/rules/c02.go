package rules

import (
	"go/token"
	"fmt"
	"go/types"
	"strings"

	"golang.org/x/tools/go/ssa"

	"cdiverif/internal/ir"
)

// C02 — injection is the ordered composition of the selected Specs' and devices' edits.

func init() {
	register(&Property{
		ID: "C02",
		Explanation: "Structural analysis of (*Cache).InjectDevices and (*ContainerEdits).Append on go/ssa with access-path origins. " +
			"Decided: (C02.1) the request is walked by one complete ascending loop over the devices parameter and each name is looked up as is; " +
			"(C02.2) in each iteration that resolves a device, the device's own edits are appended exactly on every path, the Spec-level edits of the device's Spec are appended only under a first-time test on a set created once per call and keyed by the Spec's identity (the same key is inserted on that branch), and Spec edits come before device edits; " +
			"(C02.3) every Append argument is the edits of the device just looked up or of its Spec (access paths c.devices[*].Device.ContainerEdits / c.devices[*].spec.Spec.ContainerEdits) - nothing from other devices or Specs can enter; " +
			"(C02.4) exactly one Apply of the accumulator to the OCI spec parameter, after the loop, its error propagated; " +
			"(C02.5) Append concatenates every slice field receiver-first with the same field of the argument, overrides the pointer field only when the argument's is non-nil, and covers every field of specs.ContainerEdits. " +
			"Not decided: that applying the concatenated list equals applying the parts in sequence (C03 and the OCI generator), and which Specs the index holds (C01).",
		Assumptions: []string{"Spec identity = pointer identity of *cdi.Spec objects created once per file by refresh (C12.4/C13.4)"},
		Run:         runC02,
	})
}

func runC02(c *Ctx) {
	r := c.R
	r.Rule("C02.1", "request-order: complete ascending loop over the devices parameter, names looked up verbatim", 2)
	r.Rule("C02.2", "once-per-Spec: Spec-level edits appended under a first-time test keyed by Spec identity, before the device's edits, which are appended on every resolving path", 5)
	r.Rule("C02.3", "sources: Append arguments are the edits of the looked-up device or of its Spec", 2)
	r.Rule("C02.4", "single-apply: one Apply of the accumulator to the OCI spec after the loop, error propagated", 2)
	r.Rule("C02.5", "append-shape: field-wise receiver-first concatenation covering every field of specs.ContainerEdits", 6)

	s := analyseInject(c, "C02.1")
	if s != nil {
		c02Inject(c, s)
	}
	// the once-per-Spec set is keyed by the Spec objects of one index state
	c.noRebuildAfterLookup("C02.2", c.U.Func("cdi", "(*Cache).InjectDevices"))
	c02Append(c)
}

func c02Inject(c *Ctx, s *injectShape) {
	r := c.R
	fn := s.fn
	if s.loop == nil {
		r.Undecided("C02.1", "request-loop", c.U.Pos(fn.Pos()), "no loop over the devices parameter found in InjectDevices")
		return
	}
	hdrPos := c.pos(s.loop.Header.Instrs[len(s.loop.Header.Instrs)-1])
	r.Check("C02.1", "request-loop-complete", s.loop.Complete, hdrPos, "loop over the devices parameter visits index 0..len-1 in ascending order")
	for i, lk := range s.lookups {
		l, ok := lk.(*ssa.Lookup)
		if !ok {
			continue
		}
		good := false
		for _, p := range c.U.PathsOf(l.Index) {
			if rootedAt(p, s.devices) && len(p.Sels) == 1 && p.Sels[0].F == nil {
				good = true
			}
		}
		r.Check("C02.1", fmt.Sprintf("lookup-verbatim:%d", i), good, c.U.Pos(l.Pos()), "device index looked up with the requested name itself")
		inBody := s.loop.BodyBlocks()[l.Block()]
		r.Check("C02.1", fmt.Sprintf("lookup-in-loop:%d", i), inBody, c.U.Pos(l.Pos()), "the lookup is made inside the request loop")
	}

	// classify Append calls
	wrapperT := c.U.NamedType("cdi", "ContainerEdits")
	if wrapperT == nil {
		r.Undecided("C02.3", "anchor:cdi.ContainerEdits", "", "type cdi.ContainerEdits not found")
		return
	}
	inner := ir.FieldByName(wrapperT, "ContainerEdits")
	type app struct {
		call ssa.CallInstruction
		kind string // spec | device | other
		desc string
	}
	var apps []app
	body := s.loop.BodyBlocks()
	for _, call := range c.callsTo(fn, false, "cdi", "(*ContainerEdits).Append") {
		a := app{call: call, kind: "other"}
		args := call.Common().Args
		if len(args) == 2 && inner != nil {
			ps := c.U.Extend(c.U.PathsOf(args[1]), inner)
			var ds []string
			allSpec, allDev := len(ps) > 0, len(ps) > 0
			for _, p := range ps {
				ds = append(ds, p.String())
				okRoot := rootedAt(p, s.cache)
				if !(okRoot && selNames(p) == "devices.*.spec.Spec.ContainerEdits") {
					allSpec = false
				}
				if !(okRoot && selNames(p) == "devices.*.Device.ContainerEdits") {
					allDev = false
				}
			}
			a.desc = strings.Join(ds, ",")
			if allSpec {
				a.kind = "spec"
			} else if allDev {
				a.kind = "device"
			}
		}
		apps = append(apps, a)
	}
	if len(apps) == 0 {
		r.Undecided("C02.3", "anchor:appends", c.U.Pos(fn.Pos()), "no Append call in InjectDevices: the accumulation idiom changed")
		return
	}
	var specApps, devApps []app
	for i, a := range apps {
		in := a.call.(ssa.Instruction)
		r.Check("C02.3", fmt.Sprintf("append-source:%d", i), a.kind != "other", c.pos(in),
			"Append argument is "+a.desc+" (must be the edits of the looked-up device, c.devices[*].Device.ContainerEdits, or of its Spec, c.devices[*].spec.Spec.ContainerEdits)")
		r.Check("C02.3", fmt.Sprintf("append-in-loop:%d", i), body[in.Block()], c.pos(in), "Append happens inside the request loop")
		// the device whose edits are appended is the one looked up in this iteration:
		// the argument derives from a lookup value of this loop (SSA value identity)
		if a.kind != "other" {
			r.Check("C02.3", fmt.Sprintf("append-this-device:%d", i), s.derivesFromLookup(a.call.Common().Args[1], map[ssa.Value]bool{}), c.pos(in),
				"the appended edits derive from the device looked up in this iteration")
		}
		switch a.kind {
		case "spec":
			specApps = append(specApps, a)
		case "device":
			devApps = append(devApps, a)
		}
	}
	header := func(in ssa.Instruction) bool {
		return in.Block() == s.loop.Header
	}
	isDevApp := func(in ssa.Instruction) bool {
		for _, a := range devApps {
			if a.call.(ssa.Instruction) == in {
				return true
			}
		}
		return false
	}
	isSpecApp := func(in ssa.Instruction) bool {
		for _, a := range specApps {
			if a.call.(ssa.Instruction) == in {
				return true
			}
		}
		return false
	}
	// device edits on every hit path, once
	r.Check("C02.2", "device-edits-count", len(devApps) == 1, c.U.Pos(fn.Pos()), fmt.Sprintf("%d Append call(s) of device-level edits (exactly one expected)", len(devApps)))
	for i, e := range s.hitEdges {
		e := e
		escaped := ir.CanReach(fn, ir.PathQuery{FromEdge: &e, ToAny: func(in ssa.Instruction) bool {
			if _, ok := in.(*ssa.Return); ok {
				return true
			}
			return header(in)
		}, Stop: isDevApp})
		r.Check("C02.2", fmt.Sprintf("device-edits-always:%d", i), !escaped, c.pos(e.From.Instrs[len(e.From.Instrs)-1]),
			"after a successful lookup every path appends the device's edits before the next iteration or a return")
	}
	for _, a := range devApps {
		again := ir.CanReach(fn, ir.PathQuery{From: a.call.(ssa.Instruction), ToAny: isDevApp, Stop: header})
		r.Check("C02.2", "device-edits-once", !again, c.pos(a.call.(ssa.Instruction)), "device edits are not appended twice in one iteration")
	}
	// spec edits
	r.Check("C02.2", "spec-edits-count", len(specApps) == 1, c.U.Pos(fn.Pos()), fmt.Sprintf("%d Append call(s) of Spec-level edits (exactly one expected)", len(specApps)))
	for _, a := range specApps {
		in := a.call.(ssa.Instruction)
		// find the first-time guard: comma-ok lookup in a map made in this call, not-present edge
		var guard *ir.Edge
		var guardMap ssa.Value
		var guardKey ssa.Value
		for _, iff := range ir.Ifs(fn) {
			ex, ok := iff.Cond.(*ssa.Extract)
			if !ok || ex.Index != 1 {
				continue
			}
			lk, ok := ex.Tuple.(*ssa.Lookup)
			if !ok || !lk.CommaOk {
				continue
			}
			e := ir.Edge{From: iff.Block(), Succ: 1}
			if ir.OnlyViaEdge(fn, in, e) {
				guard, guardMap, guardKey = &e, lk.X, lk.Index
			}
		}
		// the same set spelt as map[K]bool: `if !seen[k] { seen[k] = true; ... }` - absent keys
		// read as false, and only true is ever stored
		boolSet := false
		if guard == nil {
			for _, iff := range ir.Ifs(fn) {
				cond, falseSucc := iff.Cond, 1
				if n, isNot := cond.(*ssa.UnOp); isNot && n.Op == token.NOT {
					cond, falseSucc = n.X, 0
				}
				lk, ok := cond.(*ssa.Lookup)
				if !ok || lk.CommaOk {
					continue
				}
				mt, isMap := lk.X.Type().Underlying().(*types.Map)
				if !isMap {
					continue
				}
				if b, isB := mt.Elem().Underlying().(*types.Basic); !isB || b.Kind() != types.Bool {
					continue
				}
				e := ir.Edge{From: iff.Block(), Succ: falseSucc}
				if ir.OnlyViaEdge(fn, in, e) {
					guard, guardMap, guardKey, boolSet = &e, lk.X, lk.Index, true
				}
			}
			if boolSet {
				ir.Instrs(fn, func(x ssa.Instruction) {
					if mu, ok := x.(*ssa.MapUpdate); ok && mu.Map == guardMap {
						if b, isB := ir.ConstBool(mu.Value); !isB || !b {
							guard = nil // something other than true is stored: membership is not "reads true"
						}
					}
				})
			}
		}
		if guard == nil {
			r.Violation("C02.2", "first-time-guard", c.pos(in), "the Append of Spec-level edits is not guarded by the not-present branch of a membership test: Spec edits would be applied once per device")
			continue
		}
		r.OK("C02.2", "first-time-guard", c.pos(in), "Spec-level edits appended only on the not-present branch of a set lookup")
		// the set is made once per call, before the loop
		mk, isMake := guardMap.(*ssa.MakeMap)
		okSet := isMake && mk.Parent() == fn && !body[mk.Block()]
		r.Check("C02.2", "set-per-call", okSet, c.pos(in), "the set is a map made in this call, outside the request loop")
		// keyed by Spec identity
		keyOK := false
		var kd []string
		for _, p := range c.U.PathsOf(guardKey) {
			kd = append(kd, p.String())
			if rootedAt(p, s.cache) && (selNames(p) == "devices.*.spec" || selNames(p) == "devices.*.spec.path") {
				keyOK = true
			} else {
				keyOK = false
				break
			}
		}
		r.Check("C02.2", "set-key", keyOK, c.pos(in), "set keyed by "+strings.Join(kd, ",")+" (must be the Spec of the looked-up device: its pointer or its path)")
		// same key inserted on that branch, together with the append
		inserted := false
		ir.Instrs(fn, func(x ssa.Instruction) {
			mu, ok := x.(*ssa.MapUpdate)
			if !ok || mu.Map != guardMap {
				return
			}
			if !c.U.SameValue(mu.Key, guardKey) && !samePathSet(c, mu.Key, guardKey) {
				return
			}
			if ir.OnlyViaEdge(fn, x, *guard) {
				// insertion on every path from the guard edge to the next iteration
				esc := ir.CanReach(fn, ir.PathQuery{FromEdge: guard, ToAny: func(y ssa.Instruction) bool {
					if _, ok := y.(*ssa.Return); ok {
						return true
					}
					return header(y)
				}, Stop: func(y ssa.Instruction) bool { return y == x }})
				if !esc {
					inserted = true
				}
			}
		})
		r.Check("C02.2", "set-insert", inserted, c.pos(in), "the tested key is inserted into the set on every path through the first-time branch")
		// order: spec edits before device edits
		follows := !ir.CanReach(fn, ir.PathQuery{From: in, ToAny: func(y ssa.Instruction) bool {
			if _, ok := y.(*ssa.Return); ok {
				return true
			}
			return header(y)
		}, Stop: isDevApp})
		r.Check("C02.2", "spec-before-device", follows, c.pos(in), "after appending Spec-level edits the device's edits are appended in the same iteration")
	}
	for _, a := range devApps {
		back := ir.CanReach(fn, ir.PathQuery{From: a.call.(ssa.Instruction), ToAny: isSpecApp, Stop: header})
		r.Check("C02.2", "device-not-before-spec", !back, c.pos(a.call.(ssa.Instruction)), "no path appends Spec-level edits after the device's edits within one iteration")
	}

	// C02.4 single apply
	applies := c.callsTo(fn, true, "cdi", "(*ContainerEdits).Apply")
	r.Check("C02.4", "apply-count", len(applies) == 1, c.U.Pos(fn.Pos()), fmt.Sprintf("%d Apply call(s) in InjectDevices (exactly one expected)", len(applies)))
	for i, ap := range applies {
		in := ap.(ssa.Instruction)
		args := ap.Common().Args
		r.Check("C02.4", fmt.Sprintf("apply-after-loop:%d", i), in.Parent() == fn && !body[in.Block()] && ir.OnlyViaEdge(fn, in, s.loop.Exit), c.pos(in), "Apply runs after the request loop has finished")
		r.Check("C02.4", fmt.Sprintf("apply-target:%d", i), len(args) == 2 && args[1] == ssa.Value(s.oci), c.pos(in), "Apply is given the OCI spec parameter")
		sameAcc := len(args) == 2
		for _, a := range apps {
			if !c.U.SameValue(a.call.Common().Args[0], args[0]) && a.call.Common().Args[0] != args[0] {
				sameAcc = false
			}
		}
		r.Check("C02.4", fmt.Sprintf("apply-accumulator:%d", i), sameAcc, c.pos(in), "Apply's receiver is the accumulator every Append wrote to")
		// the accumulator starts empty in every request: an object that outlives the call
		// (a field of the cache, a package variable, a pool) carries the edits of a request
		// that ended before its Apply - e.g. with an unresolvable name - into the next one
		if len(args) == 2 {
			fresh, desc := true, []string{}
			for _, p := range c.U.PathsOf(args[0]) {
				desc = append(desc, p.String())
				if a, ok := p.Root.(*ssa.Alloc); !ok || a.Parent() != fn || len(p.Sels) != 0 {
					fresh = false
				}
			}
			r.Check("C02.4", fmt.Sprintf("accumulator-per-request:%d", i), fresh && len(desc) > 0, c.pos(in),
				"the accumulator applied is "+strings.Join(desc, ",")+" (must be an object created by this call, so that it holds the edits of this request only)")
		}
		if in.Parent() == fn {
			msg := c.errflow(fn, ap)
			r.Check("C02.4", fmt.Sprintf("apply-error:%d", i), msg == "", c.pos(in), "error of Apply propagated"+ifMsg(msg))
		}
	}
}

func ifMsg(m string) string {
	if m == "" {
		return ""
	}
	return ": " + m
}

func samePathSet(c *Ctx, a, b ssa.Value) bool {
	pa, pb := ir.PathStrings(c.U.PathsOf(a)), ir.PathStrings(c.U.PathsOf(b))
	if len(pa) == 0 || len(pa) != len(pb) {
		return false
	}
	for i := range pa {
		if pa[i] != pb[i] || strings.HasPrefix(pa[i], "call") || strings.HasPrefix(pa[i], "value") {
			return false
		}
	}
	return true
}

// derivesFromLookup: the value is computed (through calls, field selections,
// phis) from one of the lookup results of this function.
func (s *injectShape) derivesFromLookup(v ssa.Value, seen map[ssa.Value]bool) bool {
	if v == nil || seen[v] {
		return false
	}
	seen[v] = true
	for _, lk := range s.lookups {
		if v == lk {
			return true
		}
		if l, ok := lk.(*ssa.Lookup); ok && l.CommaOk {
			if ex, ok := v.(*ssa.Extract); ok && ex.Tuple == ssa.Value(l) && ex.Index == 0 {
				return true
			}
		}
	}
	switch x := v.(type) {
	case *ssa.Call:
		for _, a := range x.Call.Args {
			if s.derivesFromLookup(a, seen) {
				return true
			}
		}
	case *ssa.FieldAddr:
		return s.derivesFromLookup(x.X, seen)
	case *ssa.Field:
		return s.derivesFromLookup(x.X, seen)
	case *ssa.UnOp:
		return s.derivesFromLookup(x.X, seen)
	case *ssa.Phi:
		for _, e := range x.Edges {
			if !s.derivesFromLookup(e, seen) {
				return false
			}
		}
		return len(x.Edges) > 0
	case *ssa.Extract:
		return s.derivesFromLookup(x.Tuple, seen)
	case *ssa.ChangeType:
		return s.derivesFromLookup(x.X, seen)
	}
	return false
}

// c02Append checks the shape of (*ContainerEdits).Append.
func c02Append(c *Ctx) {
	r := c.R
	fn := c.fn("C02.5", "cdi", "(*ContainerEdits).Append")
	if fn == nil {
		return
	}
	if len(fn.Params) != 2 {
		r.Undecided("C02.5", "anchor:Append-params", c.U.Pos(fn.Pos()), "Append no longer has (receiver, other) parameters")
		return
	}
	e, o := fn.Params[0], fn.Params[1]
	specsCE := c.U.NamedType("specs", "ContainerEdits")
	if specsCE == nil {
		r.Undecided("C02.5", "anchor:specs.ContainerEdits", "", "type specs.ContainerEdits not found")
		return
	}
	st := ir.StructOf(specsCE)
	// index stores by field
	stores := map[string][]*ssa.Store{}
	ir.Instrs(fn, func(in ssa.Instruction) {
		s, ok := in.(*ssa.Store)
		if !ok {
			return
		}
		fa, ok := s.Addr.(*ssa.FieldAddr)
		if !ok {
			return
		}
		so := ir.StructOf(fa.X.Type())
		if so == nil || !types.Identical(so, st) {
			return
		}
		stores[so.Field(fa.Field).Name()] = append(stores[so.Field(fa.Field).Name()], s)
	})
	hasParamPath := func(v ssa.Value, par *ssa.Parameter, field string) bool {
		for _, p := range c.U.PathsOf(v) {
			if rootedAt(p, par) && selNames(p) == "ContainerEdits."+field {
				return true
			}
		}
		return false
	}
	onlyParamPath := func(v ssa.Value, par *ssa.Parameter, field string) bool {
		ps := c.U.PathsOf(v)
		if len(ps) == 0 {
			return false
		}
		for _, p := range ps {
			if !(rootedAt(p, par) && selNames(p) == "ContainerEdits."+field) {
				return false
			}
		}
		return true
	}
	// the return that hands back the receiver after the work: last normal return
	var finalRets []*ssa.Return
	for _, ret := range ir.NormalReturns(fn) {
		// a return reached after at least one store into the receiver's fields
		finalRets = append(finalRets, ret)
	}
	for i := 0; i < st.NumFields(); i++ {
		f := st.Field(i)
		name := f.Name()
		ss := stores[name]
		key := "field:" + name
		if len(ss) == 0 {
			r.Violation("C02.5", key, c.U.Pos(fn.Pos()), "Append never assigns field "+name+" of the receiver: edits of that kind are lost when combining")
			continue
		}
		if len(ss) > 1 {
			r.Violation("C02.5", key, c.pos(ss[1]), "Append assigns field "+name+" more than once")
			continue
		}
		s0 := ss[0]
		switch f.Type().Underlying().(type) {
		case *types.Slice:
			call, ok := s0.Val.(*ssa.Call)
			if !ok || ir.BuiltinName(call) != "append" || len(call.Call.Args) != 2 {
				r.Violation("C02.5", key, c.pos(s0), "field "+name+" is not assigned the result of append(receiver."+name+", other."+name+"...)")
				continue
			}
			a0, a1 := call.Call.Args[0], call.Call.Args[1]
			ok0 := hasParamPath(a0, e, name) && !hasParamPath(a0, o, name)
			ok1 := onlyParamPath(a1, o, name)
			r.Check("C02.5", key, ok0 && ok1, c.pos(s0),
				fmt.Sprintf("receiver.%s = append(%s, %s...): must be append(receiver.%s, other.%s...)", name, pathsString(c.U.PathsOf(a0)), pathsString(c.U.PathsOf(a1)), name, name))
			// unconditional: every return that some field store can reach (the
			// returns after the nil guards) is reached only through this store
			for _, ret := range finalRets {
				work := false
				for _, ss2 := range stores {
					for _, s2 := range ss2 {
						if ir.CanReach(fn, ir.PathQuery{From: s2, To: ret}) {
							work = true
						}
					}
				}
				if work && ir.CanReach(fn, ir.PathQuery{To: ret, Stop: func(in ssa.Instruction) bool { return in == ssa.Instruction(s0) }}) {
					r.Violation("C02.5", key+":conditional", c.pos(s0), "field "+name+" is concatenated only on some of the paths that combine the edits")
				}
			}
		case *types.Pointer:
			okVal := onlyParamPath(s0.Val, o, name)
			// guarded by other.F != nil
			guarded := false
			for _, iff := range ir.Ifs(fn) {
				tv, nilSucc, ok := ir.NilTest(iff)
				if !ok || !onlyParamPath(tv, o, name) {
					continue
				}
				if ir.OnlyViaEdge(fn, s0, ir.Edge{From: iff.Block(), Succ: 1 - nilSucc}) {
					guarded = true
				}
			}
			r.Check("C02.5", key, okVal && guarded, c.pos(s0), "receiver."+name+" = other."+name+" only when other."+name+" != nil (last one wins, a nil one never clears it)")
		default:
			r.Undecided("C02.5", key, c.pos(s0), "field "+name+" has a kind this rule has no combination law for")
		}
	}
	// the receiver owns its storage: the embedded pointer is only ever set to an
	// object allocated here, never to the argument's (cached) object
	wrapperT := c.U.NamedType("cdi", "ContainerEdits")
	ir.Instrs(fn, func(in ssa.Instruction) {
		s, ok := in.(*ssa.Store)
		if !ok {
			return
		}
		fa, ok := s.Addr.(*ssa.FieldAddr)
		if !ok || wrapperT == nil || !ir.TypeIs(fa.X.Type(), "cdi", "ContainerEdits") {
			return
		}
		fresh := true
		var ds []string
		for _, p := range c.U.PathsOf(s.Val) {
			ds = append(ds, p.String())
			if a, isAlloc := p.Root.(*ssa.Alloc); !isAlloc || a.Parent() != fn || len(p.Sels) != 0 {
				fresh = false
			}
		}
		r.Check("C02.5", "receiver-owns-storage", fresh, c.pos(s), "the receiver's edits object is one allocated by Append itself (found "+strings.Join(ds, ",")+"): adopting the argument's object would make later Appends write into it")
	})
	// guards: nil other returns the receiver unchanged
	for _, ret := range ir.NormalReturns(fn) {
		rv := ir.ReturnResult(ret, 0)
		ok := false
		for _, p := range c.U.PathsOf(rv) {
			if rootedAt(p, e) && len(p.Sels) == 0 {
				ok = true
			}
			if a, isAlloc := p.Root.(*ssa.Alloc); isAlloc && a.Parent() == fn && len(p.Sels) == 0 {
				ok = true
			}
		}
		r.Check("C02.5", "returns-receiver", ok, c.pos(ret), "Append returns its (possibly newly allocated) receiver")
	}
}
