package rules

import (
	"fmt"
	"go/constant"
	"go/token"
	"go/types"
	"regexp"
	"sort"
	"strings"

	"golang.org/x/tools/go/ssa"

	"cdiverif/internal/ir"
)

// C03 — container edits are applied to the OCI spec with the documented semantics.

func init() {
	register(&Property{
		ID: "C03",
		Explanation: "Static decision of the translation table behind (*ContainerEdits).Apply. For every instruction of Apply the interprocedural write-effect analysis (through the source of the OCI generator) yields its footprint on the *oci.Spec parameter; " +
			"the CFG yields the exact set of branch conditions it depends on (decoded: nil/empty tests, string-set membership, comparisons, element loops); access paths yield where its arguments come from. " +
			"Decided: (C03.1) the four toOCI field maps carry every CDI field to the right OCI field with no cross-wiring; (C03.2) hook dispatch: each of the six stage names (= keys of validHookNames = JSON names of oci.Hooks) appends to exactly that stage's list; " +
			"(C03.3) device nodes: fill-in error returned, uid/gid defaults only when unset, process present and id > 0 (no cross-over), node added from the filled copy, cgroup allow rule exactly for types b and c with (true, type, &major, &minor, permissions or rwm when empty); " +
			"(C03.4) mounts: RemoveMount(containerPath) before AddMount in every iteration, a stable sort by strictly-less path depth after the loop; (C03.5) additional GIDs added only when != 0; (C03.6) Intel RDT replaces the setting only when present; " +
			"(C03.7) the union of all footprints is within the documented sections - nothing else of the OCI spec can change; (C03.8) every field of specs.ContainerEdits is consumed; fillMissingInfo takes type/major/minor from the host stat without crossing them. " +
			"Not decided: the OCI generator's own behaviour beyond what the effect analysis reads from its source (replace-by-name of env, RemoveMount removing one match), lstat results, the full postcondition over all specs and edit lists.",
		Assumptions: []string{
			"runtime-tools/generate behaves as its source (analysed for write effects only)",
			"sort.Stable is stable; filepath.Clean/strings.Count as documented",
		},
		Run:       runC03,
		OtherGOOS: []string{"darwin"},
	})
}

var baseGuardRe = regexp.MustCompile(`^(nonnil\(param:(spec|e|e\.ContainerEdits)\)|loopdone\(.*\))$`)

func stripBase(gs []string) []string {
	var out []string
	for _, g := range gs {
		if baseGuardRe.MatchString(g) {
			continue
		}
		out = append(out, g)
	}
	return out
}

func runC03(c *Ctx) {
	r := c.R
	r.Rule("C03.1", "field-map: toOCI methods copy every CDI field to the documented OCI field, no cross-wiring", 20)
	r.Rule("C03.2", "hook-dispatch: stage names = validHookNames = JSON names of oci.Hooks; each name appends to its own stage list", 8)
	r.Rule("C03.3", "device-nodes: fill-in, uid/gid default, add, cgroup allow rule for b/c with permissions or rwm", 8)
	r.Rule("C03.4", "mounts: remove-before-add per mount, stable depth sort afterwards", 6)
	r.Rule("C03.5", "gids: additional GIDs are added only when non-zero", 1)
	r.Rule("C03.6", "rdt: the Intel RDT section is replaced only when the edits carry one", 2)
	r.Rule("C03.7", "nothing-else: the write footprint of Apply on the OCI spec stays within the documented sections", 10)
	r.Rule("C03.8", "fields: Apply consumes every field of specs.ContainerEdits; fillMissingInfo maps host stat results to type/major/minor", 6)

	c03FieldMaps(c)
	apply := c.fn("C03.7", "cdi", "(*ContainerEdits).Apply")
	if apply == nil {
		return
	}
	spec := paramOfType(apply, ociSpecsPkg, "Spec")
	if spec == nil || len(apply.Params) != 2 {
		r.Undecided("C03.7", "anchor:Apply-params", c.U.Pos(apply.Pos()), "Apply no longer has (receiver, *oci.Spec) parameters")
		return
	}
	e := apply.Params[0]
	c.U.RefineHeap([]*ssa.Function{apply}, 2)

	// ---- collect sites and footprints
	type site struct {
		in     ssa.Instruction
		writes []string
		fams   []string
		guards []string
	}
	allowed := map[string]string{
		"Process": "init", "Process.Env": "env", "Process.Env.*": "env",
		"Linux": "init", "Linux.Devices": "devices", "Linux.Devices.*": "devices",
		"Linux.Resources": "init", "Linux.Resources.Devices": "cgroup", "Linux.Resources.Devices.*": "cgroup",
		"Mounts": "mounts", "Mounts.*": "mounts",
		"Hooks":          "init",
		"Linux.IntelRdt": "rdt", "Linux.IntelRdt.ClosID": "rdt",
		"Process.User.AdditionalGids": "gids", "Process.User.AdditionalGids.*": "gids",
	}
	hooksT := c.U.DepType(ociSpecsPkg, "Hooks")
	stageByJSON := map[string]string{}
	if hooksT == nil {
		r.Undecided("C03.2", "anchor:oci.Hooks", "", "type oci.Hooks not found in the loaded program")
	} else {
		st := ir.StructOf(hooksT)
		for i := 0; i < st.NumFields(); i++ {
			j, _ := jsonName(st, i)
			stageByJSON[j] = st.Field(i).Name()
			allowed["Hooks."+st.Field(i).Name()] = "hooks." + st.Field(i).Name()
			allowed["Hooks."+st.Field(i).Name()+".*"] = "hooks." + st.Field(i).Name()
		}
	}
	var sites []*site
	byFam := map[string][]*site{}
	footprint := map[string]bool{}
	ir.Instrs(apply, func(in ssa.Instruction) {
		ws := c.siteWrites(apply, in, spec)
		if len(ws) == 0 {
			return
		}
		s := &site{in: in, writes: ws, guards: stripBase(c.guardsOf(apply, in))}
		fams := map[string]bool{}
		for _, w := range ws {
			footprint[w] = true
			fam, ok := allowed[w]
			if !ok {
				r.Violation("C03.7", "footprint:"+w, c.pos(in), fmt.Sprintf("%s can write %s of the OCI spec, which no CDI edit kind is documented to change", c.calleeNameOfInstr(in), w))
				continue
			}
			if fam != "init" {
				fams[fam] = true
			}
		}
		for f := range fams {
			s.fams = append(s.fams, f)
			byFam[f] = append(byFam[f], s)
		}
		sort.Strings(s.fams)
		sites = append(sites, s)
	})
	var fp []string
	for w := range footprint {
		fp = append(fp, w)
		if _, ok := allowed[w]; ok {
			r.OK("C03.7", "footprint:"+w, c.U.Pos(apply.Pos()), "written only by the edit kind '"+allowed[w]+"'")
		}
	}
	sort.Strings(fp)
	r.Analysed["C03.apply_footprint"] = fp
	r.Analysed["C03.apply_write_sites"] = len(sites)
	for _, o := range c.U.EffectsOf(apply).Opaque {
		for _, ap := range o.Args {
			if rootedAt(ap, spec) {
				r.Undecided("C03.7", "opaque:"+o.Callee, c.pos(o.Site), "the OCI spec ("+ap.String()+") is handed to "+o.Callee+", whose effects the analysis cannot see")
			}
		}
	}
	ePath := func(field string) string { return "param:e.ContainerEdits." + field }

	// ---- env
	if ss := byFam["env"]; len(ss) == 0 {
		r.Violation("C03.8", "env", c.U.Pos(apply.Pos()), "Apply has no instruction that sets process environment variables")
	} else {
		for _, s := range ss {
			ok := len(minus(s.guards, "nonempty("+ePath("Env")+")")) == 0
			argOK := false
			if call, isCall := s.in.(ssa.CallInstruction); isCall {
				for _, a := range call.Common().Args {
					if c.valueDesc(a) == ePath("Env") {
						argOK = true
					}
				}
			}
			r.Check("C03.8", "env", ok && argOK, c.pos(s.in), fmt.Sprintf("environment edits: guards %v (only 'Env non-empty' allowed), argument is the edits' Env list: %v", s.guards, argOK))
		}
	}

	// ---- device nodes
	fillCalls := c.callsTo(apply, false, "cdi", "(*DeviceNode).fillMissingInfo")
	if len(fillCalls) != 1 {
		r.Violation("C03.3", "fill-call", c.U.Pos(apply.Pos()), fmt.Sprintf("%d calls of fillMissingInfo in Apply (one expected)", len(fillCalls)))
	}
	errOKGuard := "nil(err:cdi.(*DeviceNode).fillMissingInfo)"
	loopDN := "loop(" + ePath("DeviceNodes") + ")"
	var filled ssa.Value
	for _, fc := range fillCalls {
		msg := c.errflow(apply, fc)
		r.Check("C03.3", "fill-error", msg == "", c.pos(fc), "error of fillMissingInfo returned"+ifMsg(msg))
		filled = fc.Common().Args[0]
		gs := stripBase(c.guardsOf(apply, fc.(ssa.Instruction)))
		r.Check("C03.3", "fill-per-node", sameSet(gs, []string{loopDN}), c.pos(fc), fmt.Sprintf("fillMissingInfo runs for every device node unconditionally (guards %v)", gs))
	}
	var devLocal *ssa.Alloc // the oci.LinuxDevice local
	toOCIcalls := c.callsTo(apply, false, "cdi", "(*DeviceNode).toOCI")
	for _, tc := range toOCIcalls {
		same := filled != nil && tc.Common().Args[0] == filled
		if !same && filled != nil {
			// another wrapper around the same node object
			under := func(v ssa.Value) string {
				ps := ir.PathStrings(c.U.Extend(c.U.PathsOf(v), ir.FieldByName(c.U.NamedType("cdi", "DeviceNode"), "DeviceNode")))
				sort.Strings(ps)
				return strings.Join(ps, "|")
			}
			a, b := under(filled), under(tc.Common().Args[0])
			same = a != "" && a == b && strings.HasPrefix(a, "local:")
		}
		r.Check("C03.3", "toOCI-of-filled", same, c.pos(tc), "the OCI device is built from the same node object that fillMissingInfo completed")
		if v := tc.Value(); v != nil && v.Referrers() != nil {
			for _, ref := range *v.Referrers() {
				if st, ok := ref.(*ssa.Store); ok {
					if a, ok := st.Addr.(*ssa.Alloc); ok {
						devLocal = a
					}
				}
			}
		}
	}
	// the device may be handed on by value (a helper that returns it): locals that receive a
	// whole-struct copy of the device local hold the same device
	devLocals := map[ssa.Value]bool{}
	if devLocal != nil {
		devLocals[devLocal] = true
		for grown := true; grown; {
			grown = false
			for a := range devLocals {
				refs := a.Referrers()
				if refs == nil {
					continue
				}
				for _, ref := range *refs {
					ld, ok := ref.(*ssa.UnOp)
					if !ok || ld.Op != token.MUL || ld.Referrers() == nil {
						continue
					}
					for _, r2 := range *ld.Referrers() {
						if st, ok := r2.(*ssa.Store); ok && st.Val == ssa.Value(ld) {
							if a2, ok := st.Addr.(*ssa.Alloc); ok && !devLocals[a2] {
								devLocals[a2] = true
								grown = true
							}
						}
					}
				}
			}
		}
	}
	if len(toOCIcalls) != 1 || devLocal == nil {
		r.Undecided("C03.3", "anchor:dev-local", c.U.Pos(apply.Pos()), "the local holding the OCI device (result of DeviceNode.toOCI) was not found")
	}
	isDevField := func(v ssa.Value, field string) bool {
		// v is &dev.field or a load of it
		if ld, ok := v.(*ssa.UnOp); ok && ld.Op == token.MUL {
			v = ld.X
		}
		fa, ok := v.(*ssa.FieldAddr)
		if !ok || devLocal == nil || !devLocals[fa.X] {
			return false
		}
		return ir.StructOf(fa.X.Type()).Field(fa.Field).Name() == field
	}
	devSites := byFam["devices"]
	addSeen := false
	for _, s := range devSites {
		call, ok := s.in.(ssa.CallInstruction)
		if !ok {
			r.Undecided("C03.3", "devices-site", c.pos(s.in), "device list written by something other than a generator call")
			continue
		}
		name := c.calleeName(call)
		gsOK := sameSet(s.guards, []string{loopDN, errOKGuard})
		switch {
		case strings.HasSuffix(name, ".AddDevice"):
			addSeen = true
			arg := call.Common().Args[1]
			argOK := false
			if ld, ok := arg.(*ssa.UnOp); ok && devLocal != nil && devLocals[ld.X] {
				argOK = true
			}
			r.Check("C03.3", "add-device", gsOK && argOK, c.pos(s.in), fmt.Sprintf("AddDevice(dev) for every node after a successful fill-in (guards %v, argument is the local OCI device: %v)", s.guards, argOK))
			// no iteration finishes without it (a `continue` taken on some computed condition - "this
			// node is already there" - skips the node and everything that follows for it)
			for _, l := range ir.Loops(apply) {
				if !l.BodyBlocks()[s.in.Block()] || !strings.HasSuffix(c.valueDesc(l.Over), "DeviceNodes") {
					continue
				}
				body, hdr := l.Body, l.Header
				skip := ir.CanReach(apply, ir.PathQuery{FromEdge: &body, ToAny: func(in ssa.Instruction) bool { return in.Block() == hdr },
					Stop: func(in ssa.Instruction) bool { return in == s.in }})
				r.Check("C03.3", "add-device-every-node", !skip, c.pos(s.in), "no iteration over the device nodes reaches the next one without AddDevice (only an error return leaves early)")
			}
		case strings.HasSuffix(name, ".RemoveDevice"):
			argOK := isDevField(call.Common().Args[1], "Path")
			r.Check("C03.3", "remove-device", gsOK && argOK, c.pos(s.in), fmt.Sprintf("RemoveDevice(dev.Path) (guards %v, argument dev.Path: %v)", s.guards, argOK))
		default:
			r.Violation("C03.3", "devices-site:"+name, c.pos(s.in), "unexpected writer of Linux.Devices: "+name)
		}
	}
	if !addSeen {
		r.Violation("C03.3", "add-device", c.U.Pos(apply.Pos()), "no AddDevice call: device nodes are not added to the OCI spec")
	}
	// uid / gid defaults
	if devLocal != nil {
		for _, id := range []string{"UID", "GID"} {
			var stores []*ssa.Store
			ir.Instrs(apply, func(in ssa.Instruction) {
				if st, ok := in.(*ssa.Store); ok && isDevField(st.Addr, id) {
					stores = append(stores, st)
				}
			})
			if len(stores) != 1 {
				r.Violation("C03.3", "default-"+id, c.U.Pos(apply.Pos()), fmt.Sprintf("%d stores to dev.%s in Apply (one expected: the process %s default)", len(stores), id, id))
				continue
			}
			st := stores[0]
			// stored pointer -> local cell -> value from spec.Process.User.<id>
			src := ""
			if cell, ok := st.Val.(*ssa.Alloc); ok {
				for _, v := range c.U.StoredValues(cell) {
					src = c.valueDesc(v)
				}
			}
			want := "param:spec.Process.User." + id
			gs := minus(s2(stripBase(c.guardsOf(apply, st))), loopDN, errOKGuard)
			var norm []string
			for _, g := range gs {
				switch {
				case strings.HasPrefix(g, "nil(") && strings.Contains(g, "DeviceNodes[*]."+id+")") || strings.HasPrefix(g, "nil(") && strings.Contains(g, "."+id+"|") || strings.HasPrefix(g, "nil(") && strings.HasSuffix(g, "."+id+")"):
					norm = append(norm, "unset")
				case g == "nonnil(param:spec.Process)":
					norm = append(norm, "process")
				case g == want+" > 0" || g == want+" != 0":
					norm = append(norm, "positive")
				default:
					norm = append(norm, "?"+g)
				}
			}
			ok := src == want && sameSet(norm, []string{"unset", "process", "positive"})
			r.Check("C03.3", "default-"+id, ok, c.pos(st), fmt.Sprintf("dev.%s defaults to %s (found %s) exactly when unset, a process section exists and the id is > 0 (conditions found: %v)", id, want, src, gs))
		}
	}
	// cgroup rule
	if ss := byFam["cgroup"]; len(ss) != 1 {
		r.Violation("C03.3", "cgroup-rule", c.U.Pos(apply.Pos()), fmt.Sprintf("%d instructions write Linux.Resources.Devices (exactly one allow rule per b/c node expected)", len(ss)))
	} else {
		s := ss[0]
		call, _ := s.in.(ssa.CallInstruction)
		gs := minus(s.guards, loopDN, errOKGuard)
		typeOK := len(gs) == 1 && strings.HasSuffix(gs[0], ` in {"b","c"}`) && strings.Contains(gs[0], "Type")
		r.Check("C03.3", "cgroup-types", typeOK, c.pos(s.in), fmt.Sprintf("the device cgroup rule is added exactly for node types b and c (conditions found: %v)", gs))
		if call == nil || len(call.Common().Args) != 6 || !strings.HasSuffix(c.calleeName(call), ".AddLinuxResourcesDevice") {
			r.Undecided("C03.3", "cgroup-args", c.pos(s.in), "cgroup rule not added through AddLinuxResourcesDevice(allow, type, major, minor, access)")
		} else {
			a := call.Common().Args
			allow, isB := ir.ConstBool(a[1])
			okArgs := isB && allow && isDevField(a[2], "Type") && isDevField(a[3], "Major") && isDevField(a[4], "Minor")
			r.Check("C03.3", "cgroup-args", okArgs, c.pos(s.in), "AddLinuxResourcesDevice(true, dev.Type, &dev.Major, &dev.Minor, access)")
			// access = Permissions or "rwm" when empty
			accOK := false
			detail := c.valueDesc(a[5])
			if phi, ok := a[5].(*ssa.Phi); ok && len(phi.Edges) == 2 {
				var cst string
				var other ssa.Value
				var cstPred *ssa.BasicBlock
				for k, ed := range phi.Edges {
					if sv, ok := ir.ConstString(ed); ok {
						cst, cstPred = sv, phi.Block().Preds[k]
					} else {
						other = ed
					}
				}
				if cst == "rwm" && other != nil && c.hasPathSuffix(other, "Permissions") && cstPred != nil {
					// the constant flows in only when Permissions == ""
					gs2 := c.edgeGuards(apply, cstPred, phi.Block())
					for _, g := range gs2 {
						if strings.HasSuffix(g, `Permissions == ""`) || (strings.HasPrefix(g, "empty(") && strings.Contains(g, "Permissions")) {
							accOK = true
						}
					}
				}
				detail = fmt.Sprintf("phi(%q, %s)", cst, c.valueDesc(other))
			}
			r.Check("C03.3", "cgroup-access", accOK, c.pos(s.in), "access is the node's permissions, or \"rwm\" exactly when they are empty (found "+detail+")")
		}
	}

	// ---- mounts
	loopM := "loop(" + ePath("Mounts") + ")"
	nonemptyM := "nonempty(" + ePath("Mounts") + ")"
	var addMount, removeMount, sortSite *site
	for _, s := range byFam["mounts"] {
		call, ok := s.in.(ssa.CallInstruction)
		if !ok {
			r.Undecided("C03.4", "mounts-site", c.pos(s.in), "mount list written by something other than a call")
			continue
		}
		name := c.calleeName(call)
		switch {
		case strings.HasSuffix(name, ".AddMount"):
			addMount = s
		case strings.HasSuffix(name, ".RemoveMount"):
			removeMount = s
		case name == "cdi.sortMounts":
			sortSite = s
		default:
			r.Violation("C03.4", "mounts-site:"+name, c.pos(s.in), "unexpected writer of Mounts: "+name)
		}
	}
	if addMount == nil {
		r.Violation("C03.4", "add-mount", c.U.Pos(apply.Pos()), "no AddMount call in Apply")
	} else {
		call := addMount.in.(ssa.CallInstruction)
		gs := minus(addMount.guards, nonemptyM)
		// argument: toOCI of a Mount wrapper around the loop element
		argOK := false
		var elem ssa.Value
		// the OCI mount may be kept in a local first: `mnt := (&Mount{m}).toOCI()`
		amArg := call.Common().Args[1]
		var mntLocal *ssa.Alloc
		if ld, ok := amArg.(*ssa.UnOp); ok && ld.Op == token.MUL {
			if a, ok := ld.X.(*ssa.Alloc); ok {
				if vals := c.U.StoredValues(a); len(vals) == 1 {
					amArg, mntLocal = vals[0], a
				}
			}
		}
		if tc, ok := amArg.(*ssa.Call); ok && c.U.CalleeIs(tc, "cdi", "(*Mount).toOCI") {
			ps := c.U.Extend(c.U.PathsOf(tc.Call.Args[0]), ir.FieldByName(c.U.NamedType("cdi", "Mount"), "Mount"))
			if len(ps) == 1 && ps[0].String() == ePath("Mounts")+"[*]" {
				argOK = true
			}
			elem = tc.Call.Args[0]
		}
		_ = elem
		r.Check("C03.4", "add-mount", sameSet(gs, []string{loopM}) && argOK, c.pos(addMount.in), fmt.Sprintf("AddMount(toOCI(m)) for every mount of the edits (guards %v, argument from the loop element: %v)", gs, argOK))
		if removeMount == nil {
			r.Violation("C03.4", "remove-before-add", c.pos(addMount.in), "no RemoveMount call: a mount at an existing destination is added next to the old one instead of replacing it")
		} else {
			rc := removeMount.in.(ssa.CallInstruction)
			argR := c.valueDesc(rc.Common().Args[1]) == ePath("Mounts")+"[*].ContainerPath"
			if !argR && mntLocal != nil {
				// the Destination of the very OCI mount that is added: toOCI sets it to the
				// edit's containerPath (C03.1 mount field map)
				if ld, ok := rc.Common().Args[1].(*ssa.UnOp); ok && ld.Op == token.MUL {
					if fa, ok := ld.X.(*ssa.FieldAddr); ok && fa.X == ssa.Value(mntLocal) && ir.StructOf(fa.X.Type()).Field(fa.Field).Name() == "Destination" {
						argR = true
					}
				}
			}
			// RemoveMount precedes AddMount in the iteration
			var loopHdr *ssa.BasicBlock
			for _, l := range ir.Loops(apply) {
				if c.valueDesc(l.Over) == ePath("Mounts") {
					loopHdr = l.Header
				}
			}
			before := loopHdr != nil && !ir.CanReach(apply, ir.PathQuery{From: loopHdr.Instrs[len(loopHdr.Instrs)-1], To: addMount.in,
				Stop: func(in ssa.Instruction) bool { return in == removeMount.in }})
			r.Check("C03.4", "remove-before-add", argR && before, c.pos(removeMount.in), fmt.Sprintf("RemoveMount(m.ContainerPath) precedes AddMount in every iteration (argument ok: %v, order ok: %v)", argR, before))
		}
		if sortSite == nil {
			r.Violation("C03.4", "sort-after", c.U.Pos(apply.Pos()), "mounts are not sorted after adding")
		} else {
			// every path from AddMount to a normal return passes sortMounts
			always := ir.AlwaysFollowedBy(apply, addMount.in, func(in ssa.Instruction) bool {
				if in == sortSite.in {
					return true
				}
				// error returns after the mounts section do not count as missing the sort
				return false
			})
			// tolerate error returns: only success returns must be preceded
			if !always {
				always = true
				for _, ret := range ir.NormalReturns(apply) {
					if ir.DefiniteNil(ir.ReturnResult(ret, 0)) != ir.IsNil {
						continue
					}
					if ir.CanReach(apply, ir.PathQuery{From: addMount.in, To: ret, Stop: func(in ssa.Instruction) bool { return in == sortSite.in },
						Cut: c.contradictedEdges(apply, addMount.in)}) {
						always = false
					}
				}
			}
			gs2 := minus(sortSite.guards, nonemptyM)
			r.Check("C03.4", "sort-after", always && len(gs2) == 0, c.pos(sortSite.in), fmt.Sprintf("sortMounts runs after the mounts were added, before Apply returns successfully (extra conditions %v)", gs2))
		}
	}
	c03SortMounts(c)

	// ---- hooks
	loopH := "loop(" + ePath("Hooks") + ")"
	hookName := ePath("Hooks") + "[*].HookName"
	seenStage := map[string]bool{}
	for fam, ss := range byFam {
		if !strings.HasPrefix(fam, "hooks.") {
			continue
		}
		stage := strings.TrimPrefix(fam, "hooks.")
		jname := ""
		for j, f := range stageByJSON {
			if f == stage {
				jname = j
			}
		}
		for _, s := range ss {
			var eq []string
			var rest []string
			for _, g := range minus(s.guards, loopH) {
				switch {
				case strings.HasPrefix(g, hookName+" == "):
					eq = append(eq, strings.Trim(strings.TrimPrefix(g, hookName+" == "), `"`))
				case strings.HasPrefix(g, hookName+" != "):
				default:
					rest = append(rest, g)
				}
			}
			ok := len(eq) == 1 && eq[0] == jname && len(rest) == 0 && len(s.fams) == 1
			if ok {
				seenStage[stage] = true
			}
			// the hook appended is toOCI of the hook whose name was tested
			argOK := c03HookArg(c, apply, s.in, ePath("Hooks")+"[*]")
			r.Check("C03.2", "dispatch:"+stage+":"+c.calleeNameOfInstr(s.in), ok && argOK, c.pos(s.in),
				fmt.Sprintf("hooks named %q are appended to Hooks.%s only (name tests found: %v, other conditions: %v, other lists written: %v, appended value is toOCI of that hook: %v)", jname, stage, eq, rest, minus(s.fams, fam), argOK))
		}
	}
	for j, f := range stageByJSON {
		if !seenStage[f] {
			r.Violation("C03.2", "stage:"+f, c.U.Pos(apply.Pos()), fmt.Sprintf("no instruction of Apply appends hooks named %q to Hooks.%s", j, f))
		}
	}
	// validHookNames agrees with oci.Hooks
	if g := c.globalVar("cdi", "validHookNames"); g == nil {
		r.Undecided("C03.2", "anchor:validHookNames", "", "package variable validHookNames not found")
	} else {
		var keys []string
		for _, k := range c.U.MapLiteralKeys(g) {
			if s, ok := ir.ConstString(k); ok {
				keys = append(keys, s)
			}
		}
		var want []string
		for j := range stageByJSON {
			want = append(want, j)
		}
		sort.Strings(keys)
		sort.Strings(want)
		r.Check("C03.2", "validHookNames", sameSet(keys, want), c.U.Pos(g.Pos()), fmt.Sprintf("validHookNames %v = JSON names of oci.Hooks %v", keys, want))
	}
	// unknown names are an error, not silently skipped
	{
		var eqEdges []ir.Edge
		for _, iff := range ir.Ifs(apply) {
			op, x, y, ok := ir.Comparison(iff)
			if !ok || op != token.EQL {
				continue
			}
			if _, isC := ir.ConstString(y); isC && c.valueDesc(x) == hookName {
				eqEdges = append(eqEdges, ir.Edge{From: iff.Block(), Succ: 1})
			}
		}
		if len(eqEdges) > 0 {
			last := eqEdges[len(eqEdges)-1]
			okDefault := true
			n := 0
			ir.EnumPaths(apply, &last, false, func(p ir.BlockPath, end ssa.Instruction) {
				// only the immediate fall-through: paths that take no further name test
				for i := 1; i+1 < len(p); i++ {
					for _, e2 := range eqEdges[:len(eqEdges)-1] {
						if p[i] == e2.From {
							return
						}
					}
				}
				n++
			})
			// simpler and stronger: from the all-names-failed edge a return with a non-nil error must be unavoidable before the next iteration
			var hdr *ssa.BasicBlock
			for _, l := range ir.Loops(apply) {
				if c.valueDesc(l.Over) == ePath("Hooks") {
					hdr = l.Header
				}
			}
			if hdr != nil && ir.CanReach(apply, ir.PathQuery{FromEdge: &last, ToAny: func(in ssa.Instruction) bool { return in.Block() == hdr }}) {
				okDefault = false
			}
			r.Check("C03.2", "unknown-name-is-error", okDefault, c.pos(last.From.Instrs[len(last.From.Instrs)-1]), "a hook whose name matches no stage makes Apply return (an error) instead of being skipped")
		}
	}

	// ---- rdt
	if ss := byFam["rdt"]; len(ss) == 0 {
		r.Violation("C03.6", "rdt", c.U.Pos(apply.Pos()), "Apply never sets Linux.IntelRdt")
	} else {
		finalStore := false
		for _, s := range ss {
			ok := sameSet(s.guards, []string{"nonnil(" + ePath("IntelRdt") + ")"})
			r.Check("C03.6", "rdt-guard:"+c.calleeNameOfInstr(s.in), ok, c.pos(s.in), fmt.Sprintf("the RDT section is touched only when the edits carry one (conditions %v)", s.guards))
			if st, isStore := s.in.(*ssa.Store); isStore {
				if tc, ok := st.Val.(*ssa.Call); ok && c.U.CalleeIs(tc, "cdi", "(*IntelRdt).toOCI") {
					ps := c.U.Extend(c.U.PathsOf(tc.Call.Args[0]), ir.FieldByName(c.U.NamedType("cdi", "IntelRdt"), "IntelRdt"))
					if len(ps) == 1 && ps[0].String() == ePath("IntelRdt") {
						// Linux must have been initialised before the store
						initBefore := ir.MustPassBefore(apply, st, func(in ssa.Instruction) bool {
							for _, w := range c.siteWrites(apply, in, spec) {
								if w == "Linux" {
									return true
								}
							}
							return false
						})
						r.Check("C03.6", "rdt-replace", initBefore, c.pos(st), "spec.Linux.IntelRdt = toOCI(edits.IntelRdt) after a call that initialises spec.Linux")
						finalStore = true
					}
				}
			}
		}
		if !finalStore {
			r.Violation("C03.6", "rdt-replace", c.U.Pos(apply.Pos()), "no store of toOCI(edits.IntelRdt) into spec.Linux.IntelRdt: the previous RDT setting is not replaced as a whole")
		}
	}

	// ---- gids
	if ss := byFam["gids"]; len(ss) != 1 {
		r.Violation("C03.5", "gids", c.U.Pos(apply.Pos()), fmt.Sprintf("%d instructions add additional GIDs (one expected)", len(ss)))
	} else {
		s := ss[0]
		elem := ePath("AdditionalGIDs") + "[*]"
		gs := minus(s.guards, "loop("+ePath("AdditionalGIDs")+")")
		ok := len(gs) == 1 && (gs[0] == elem+" != 0" || gs[0] == elem+" > 0")
		argOK := false
		if call, isCall := s.in.(ssa.CallInstruction); isCall && len(call.Common().Args) == 2 {
			argOK = c.valueDesc(call.Common().Args[1]) == elem
		}
		r.Check("C03.5", "gids", ok && argOK && len(s.guards) == len(gs)+1, c.pos(s.in), fmt.Sprintf("each additional GID of the edits is added exactly when it is not 0 (conditions %v, argument is the element: %v)", s.guards, argOK))
	}

	// ---- C03.8 all fields consumed
	specsCE := c.U.NamedType("specs", "ContainerEdits")
	if specsCE != nil {
		st := ir.StructOf(specsCE)
		read := map[string]bool{}
		ir.Instrs(apply, func(in ssa.Instruction) {
			if fa, ok := in.(*ssa.FieldAddr); ok {
				if so := ir.StructOf(fa.X.Type()); so != nil && types.Identical(so, st) {
					read[so.Field(fa.Field).Name()] = true
				}
			}
		})
		for i := 0; i < st.NumFields(); i++ {
			n := st.Field(i).Name()
			r.Check("C03.8", "consumes:"+n, read[n], c.U.Pos(apply.Pos()), "Apply reads field "+n+" of the edits")
		}
	}
	_ = e
	c03FillMissing(c)
}

func s2(x []string) []string { return x }

// globalVar finds a package-level variable.
func (c *Ctx) globalVar(pkg, name string) *ssa.Global {
	sp := c.U.SSA[ir.PkgAlias[pkg]]
	if sp == nil {
		return nil
	}
	g, _ := sp.Members[name].(*ssa.Global)
	return g
}

// c03HookArg: the value a hook-list write appends is toOCI() of a Hook
// wrapper around the element whose name was tested.
func c03HookArg(c *Ctx, fn *ssa.Function, in ssa.Instruction, elemPath string) bool {
	isHookToOCI := func(v ssa.Value) bool {
		tc, ok := v.(*ssa.Call)
		if !ok || !c.U.CalleeIs(tc, "cdi", "(*Hook).toOCI") {
			return false
		}
		ps := c.U.Extend(c.U.PathsOf(tc.Call.Args[0]), ir.FieldByName(c.U.NamedType("cdi", "Hook"), "Hook"))
		return len(ps) == 1 && ps[0].String() == elemPath
	}
	switch x := in.(type) {
	case ssa.CallInstruction:
		if ir.BuiltinName(x) == "append" {
			for _, ev := range c.U.ContainerElems(x.Common().Args[1]) {
				if isHookToOCI(ev) {
					return true
				}
			}
			return false
		}
		for _, a := range x.Common().Args {
			if isHookToOCI(a) {
				return true
			}
		}
	case *ssa.Store:
		// store of an append result
		if call, ok := x.Val.(*ssa.Call); ok && ir.BuiltinName(call) == "append" {
			for _, ev := range c.U.ContainerElems(call.Call.Args[1]) {
				if isHookToOCI(ev) {
					return true
				}
			}
		}
	}
	return false
}

// c03FieldMaps checks the toOCI translation tables.
func c03FieldMaps(c *Ctx) {
	r := c.R
	type fm struct {
		recv, cdiType, ociType string
		table                  map[string]string // OCI field -> CDI field
		excluded               map[string]string // CDI field -> reason
	}
	maps := []fm{
		{"Hook", "Hook", "Hook", map[string]string{"Path": "Path", "Args": "Args", "Env": "Env", "Timeout": "Timeout"},
			map[string]string{"HookName": "selects the stage list (C03.2), not part of an OCI hook"}},
		{"Mount", "Mount", "Mount", map[string]string{"Source": "HostPath", "Destination": "ContainerPath", "Options": "Options", "Type": "Type"}, nil},
		{"DeviceNode", "DeviceNode", "LinuxDevice", map[string]string{"Path": "Path", "Type": "Type", "Major": "Major", "Minor": "Minor", "FileMode": "FileMode", "UID": "UID", "GID": "GID"},
			map[string]string{"HostPath": "only used to stat the host node", "Permissions": "goes to the device cgroup rule (C03.3)"}},
		{"IntelRdt", "IntelRdt", "LinuxIntelRdt", map[string]string{"ClosID": "ClosID", "L3CacheSchema": "L3CacheSchema", "MemBwSchema": "MemBwSchema", "EnableCMT": "EnableCMT", "EnableMBM": "EnableMBM"}, nil},
	}
	for _, m := range maps {
		fn := c.fn("C03.1", "cdi", "(*"+m.recv+").toOCI")
		if fn == nil {
			continue
		}
		cdiT := c.U.NamedType("specs", m.cdiType)
		if cdiT == nil {
			r.Undecided("C03.1", "anchor:specs."+m.cdiType, "", "type not found")
			continue
		}
		// the result object: stores into fields of an oci struct local
		got := map[string]string{}
		ir.Instrs(fn, func(in ssa.Instruction) {
			st, ok := in.(*ssa.Store)
			if !ok {
				return
			}
			fa, ok := st.Addr.(*ssa.FieldAddr)
			if !ok {
				return
			}
			if !ir.TypeIs(fa.X.Type(), ociSpecsPkg, m.ociType) {
				return
			}
			of := ir.StructOf(fa.X.Type()).Field(fa.Field).Name()
			src := "?"
			ps := c.U.PathsOf(st.Val)
			if len(ps) == 1 && rootedAt(ps[0], fn.Params[0]) && len(ps[0].Sels) == 2 && ps[0].Sels[0].F != nil && ps[0].Sels[0].F.Name() == m.recv && ps[0].Sels[1].F != nil {
				src = ps[0].Sels[1].F.Name()
			} else if len(ps) > 0 {
				src = "?" + pathsString(ps)
			}
			if old, dup := got[of]; dup {
				src = old + "+" + src
			}
			got[of] = src
		})
		// the result must be that local
		for of, want := range m.table {
			key := fmt.Sprintf("%s.toOCI:%s", m.recv, of)
			r.Check("C03.1", key, got[of] == want, c.U.Pos(fn.Pos()), fmt.Sprintf("oci.%s.%s is set from %s.%s (found %q)", m.ociType, of, m.cdiType, want, got[of]))
		}
		for of, src := range got {
			if _, ok := m.table[of]; !ok {
				r.Violation("C03.1", fmt.Sprintf("%s.toOCI:%s", m.recv, of), c.U.Pos(fn.Pos()), fmt.Sprintf("oci.%s.%s is set (from %s) although the documented mapping has no such field", m.ociType, of, src))
			}
		}
		// every CDI field is carried or excluded with a reason
		st := ir.StructOf(cdiT)
		used := map[string]bool{}
		for _, src := range got {
			used[src] = true
		}
		for i := 0; i < st.NumFields(); i++ {
			n := st.Field(i).Name()
			if used[n] {
				continue
			}
			if _, ex := m.excluded[n]; ex {
				continue
			}
			r.Violation("C03.1", fmt.Sprintf("%s.toOCI:unmapped:%s", m.recv, n), c.U.Pos(fn.Pos()), fmt.Sprintf("field %s of specs.%s is not carried over to the OCI %s and no rule says where else it goes", n, m.cdiType, m.ociType))
		}
	}
}

// c03SortMounts checks sortMounts and the orderedMounts ordering.
func c03SortMounts(c *Ctx) {
	r := c.R
	fn := c.fn("C03.4", "cdi", "sortMounts")
	if fn == nil {
		return
	}
	var sorts []string
	stable := false
	for _, call := range ir.Calls(fn) {
		if f := call.Common().StaticCallee(); f != nil && (strings.HasPrefix(f.String(), "sort.") || strings.HasPrefix(f.String(), "slices.Sort")) {
			sorts = append(sorts, f.String())
			if f.String() == "sort.Stable" || f.String() == "sort.SliceStable" || f.String() == "slices.SortStableFunc" {
				stable = true
			}
		}
	}
	r.Check("C03.4", "stable-sort", stable && len(sorts) == 1, c.U.Pos(fn.Pos()), fmt.Sprintf("sortMounts uses exactly one, stable, sort (found %v): equally deep mounts keep their order", sorts))
	// the ordering: the function the sort consults - Less of the sorted type for sort.Stable, the
	// closure for sort.SliceStable - compares the depths of its two elements strictly; depth =
	// number of separators in the cleaned destination (helpers such as parts() are expanded)
	var less *ssa.Function
	for _, call := range ir.Calls(fn) {
		f := call.Common().StaticCallee()
		if f == nil {
			continue
		}
		switch f.String() {
		case "sort.Stable":
			arg := call.Common().Args[0]
			if mi, ok := arg.(*ssa.MakeInterface); ok {
				arg = mi.X
			}
			if m := c.U.Prog.LookupMethod(arg.Type(), fn.Pkg.Pkg, "Less"); m != nil {
				less = m
			}
		case "sort.SliceStable":
			for _, lf := range c.U.FuncValues(call.Common().Args[1]) {
				less = lf
			}
		}
	}
	if less == nil || len(less.Params) < 2 {
		r.Undecided("C03.4", "less-strict", c.U.Pos(fn.Pos()), "the comparison function of the sort could not be identified")
		return
	}
	np := len(less.Params)
	ip, jp := less.Params[np-2], less.Params[np-1]
	// a comparison function that only forwards to another one of the repository
	for depth := 0; depth < 3; depth++ {
		rets := ir.NormalReturns(less)
		if len(rets) != 1 {
			break
		}
		call, isCall := ir.ReturnResult(rets[0], 0).(*ssa.Call)
		if !isCall {
			break
		}
		g := c.U.StaticCallee(call)
		if g == nil || !c.U.IsRepoFunc(g) || len(g.Params) != len(call.Call.Args) {
			break
		}
		var ni, nj *ssa.Parameter
		for k, a := range call.Call.Args {
			if a == ssa.Value(ip) {
				ni = g.Params[k]
			}
			if a == ssa.Value(jp) {
				nj = g.Params[k]
			}
		}
		if ni == nil || nj == nil {
			break
		}
		less, ip, jp = g, ni, nj
	}
	pi, pj := "$"+ip.Name(), "$"+jp.Name()
	ok, okDepth := false, false
	rets := c.exprReturns0(less)
	if len(rets) == 1 {
		res := rets[0]
		m := lessRe.FindStringSubmatch(res)
		if m != nil {
			ok = m[1] == m[4] && m[2] == pi && m[5] == pj
			okDepth = (m[3] == `"/"` || m[3] == `"\\"`) && m[6] == m[3]
		}
	}
	r.Check("C03.4", "less-strict", ok, c.U.Pos(less.Pos()), "Less(i,j) is depth(i) < depth(j) on the elements i and j of the sorted list: strict, so equal depths are 'not less' both ways")
	r.Check("C03.4", "depth", ok && okDepth, c.U.Pos(less.Pos()), "depth of a mount = number of path separators in the cleaned destination")
}

var lessRe = regexp.MustCompile(`^\(strings\.Count\(path/filepath\.Clean\((.+)\[(\$\w+)\]\.Destination\),(".+")\) < strings\.Count\(path/filepath\.Clean\((.+)\[(\$\w+)\]\.Destination\),(".+")\)\)$`)

// exprReturns0 lists the first result of every normal return as an expression (parameters by name).
func (c *Ctx) exprReturns0(fn *ssa.Function) []string {
	var out []string
	for _, ret := range ir.NormalReturns(fn) {
		out = append(out, c.exprDesc(ir.ReturnResult(ret, 0)))
	}
	return out
}

// c03FillMissing checks how host stat results are mapped (unix builds).
func c03FillMissing(c *Ctx) {
	r := c.R
	if c.U.GOOS == "windows" {
		return
	}
	fill := c.fn("C03.8", "cdi", "(*DeviceNode).fillMissingInfo")
	info := c.fn("C03.8", "cdi", "deviceInfoFromPath")
	if fill == nil || info == nil {
		return
	}
	want := map[string]string{"Type": "deviceInfoFromPath#0", "Major": "deviceInfoFromPath#1", "Minor": "deviceInfoFromPath#2"}
	rawDesc := func(v ssa.Value) string {
		if ex, ok := v.(*ssa.Extract); ok {
			if call, ok := ex.Tuple.(*ssa.Call); ok && c.U.CalleeIs(call, "cdi", "deviceInfoFromPath") {
				return fmt.Sprintf("deviceInfoFromPath#%d", ex.Index)
			}
		}
		return c.valueDesc(v)
	}
	found := map[string]bool{}
	ir.Instrs(fill, func(in ssa.Instruction) {
		st, ok := in.(*ssa.Store)
		if !ok {
			return
		}
		fa, ok := st.Addr.(*ssa.FieldAddr)
		if !ok {
			return
		}
		so := ir.StructOf(fa.X.Type())
		if so == nil {
			return
		}
		n := so.Field(fa.Field).Name()
		w, tracked := want[n]
		if !tracked {
			return
		}
		found[n] = true
		d := rawDesc(st.Val)
		r.Check("C03.8", "fill:"+n, d == w, c.pos(st), fmt.Sprintf("%s is filled from the host stat result %s (found %s)", n, w, d))
		// only when unset
		gs := c.guardsOf(fill, st)
		cond := ""
		switch n {
		case "Type":
			for _, g := range gs {
				if strings.HasSuffix(g, `Type == ""`) || (strings.HasPrefix(g, "empty(") && strings.HasSuffix(g, ".Type)")) {
					cond = g
				}
			}
		default:
			for _, g := range gs {
				if strings.HasSuffix(g, "Major == 0") {
					cond = g
				}
			}
		}
		r.Check("C03.8", "fill-when-unset:"+n, cond != "", c.pos(st), fmt.Sprintf("%s is filled in only when the Spec leaves it unspecified (conditions %v)", n, gs))
	})
	for n := range want {
		if !found[n] {
			r.Violation("C03.8", "fill:"+n, c.U.Pos(fill.Pos()), n+" is never filled in from the host node")
		}
	}
	// type mismatch is an error
	mismatch := false
	for _, iff := range ir.Ifs(fill) {
		op, x, y, ok := ir.Comparison(iff)
		if !ok || (op != token.NEQ && op != token.EQL) {
			continue
		}
		dx, dy := rawDesc(x), rawDesc(y)
		if (strings.HasSuffix(dx, ".Type") && dy == "deviceInfoFromPath#0") || (strings.HasSuffix(dy, ".Type") && dx == "deviceInfoFromPath#0") {
			mismatch = true
		}
	}
	r.Check("C03.8", "fill:type-mismatch", mismatch, c.U.Pos(fill.Pos()), "a declared type is compared with the host node's type")
	// deviceInfoFromPath: mode bits -> type letters, Major/Minor not crossed
	unixPkg := "golang.org/x/sys/unix"
	modeOf := map[string]string{"S_IFBLK": "b", "S_IFCHR": "c", "S_IFIFO": "p"}
	constVal := func(name string) (int64, bool) {
		for _, sp := range c.U.Prog.AllPackages() {
			if sp.Pkg.Path() == unixPkg {
				if k, ok := sp.Pkg.Scope().Lookup(name).(*types.Const); ok {
					v, exact := constant.Int64Val(k.Val())
					return v, exact
				}
			}
		}
		return 0, false
	}
	for _, ret := range ir.NormalReturns(info) {
		if ir.DefiniteNil(ir.ReturnResult(ret, 3)) != ir.IsNil {
			continue
		}
		// success return: result 0 is a phi of letters, each arriving from the block guarded by its mode constant
		phi, ok := ir.ReturnResult(ret, 0).(*ssa.Phi)
		if !ok {
			r.Undecided("C03.8", "stat-type-table", c.pos(ret), "device type is not selected by a switch over the mode bits")
			continue
		}
		okAll := len(phi.Edges) == len(modeOf)
		for k, ed := range phi.Edges {
			letter, isStr := ir.ConstString(ed)
			if !isStr {
				okAll = false
				continue
			}
			pred := phi.Block().Preds[k]
			gs := c.guardsOf(info, pred.Instrs[len(pred.Instrs)-1])
			matched := false
			for cname, l := range modeOf {
				if l != letter {
					continue
				}
				if v, ok := constVal(cname); ok {
					for _, g := range gs {
						if strings.HasSuffix(g, fmt.Sprintf("== %d", v)) {
							matched = true
						}
					}
				}
			}
			if !matched {
				okAll = false
			}
		}
		r.Check("C03.8", "stat-type-table", okAll, c.pos(ret), "S_IFBLK->b, S_IFCHR->c, S_IFIFO->p")
		maj, okM := ir.ReturnResult(ret, 1).(*ssa.Convert)
		min, okN := ir.ReturnResult(ret, 2).(*ssa.Convert)
		okMM := false
		if okM && okN {
			cm, ok1 := maj.X.(*ssa.Call)
			cn, ok2 := min.X.(*ssa.Call)
			if ok1 && ok2 && cm.Call.StaticCallee() != nil && cn.Call.StaticCallee() != nil {
				okMM = cm.Call.StaticCallee().String() == unixPkg+".Major" && cn.Call.StaticCallee().String() == unixPkg+".Minor"
			}
		}
		r.Check("C03.8", "stat-major-minor", okMM, c.pos(ret), "major and minor are unix.Major / unix.Minor of the node's rdev, in that order")
	}
}
