package rules

import (
	"fmt"
	"go/types"

	"golang.org/x/tools/go/ssa"

	"cdiverif/internal/ir"
)

// C04 — an unresolvable request leaves the OCI spec untouched and names every miss.

func init() {
	register(&Property{
		ID: "C04",
		Explanation: "Path-sensitive structural analysis of (*Cache).InjectDevices on go/ssa. Lookup misses are identified semantically (nil / comma-ok-false edge of a lookup in the cache's device index), " +
			"OCI-spec-writing sites by the interprocedural write-effect analysis (any instruction, including calls through Apply and the OCI generator, that can write memory reachable from the *oci.Spec parameter). " +
			"Decided: (C04.1) on every feasible CFG path (every edge up to twice, i.e. two loop iterations; infeasible nil-branches pruned by resolving phi values along the path) a lookup miss and an OCI-spec write never occur together, in either order; " +
			"(C04.2) the nil-OCI-spec guard precedes every other use of the parameter and returns the requested names with a non-nil error; " +
			"(C04.3) every miss appends exactly the requested name to one list, which is what the error return hands back, in request order (complete ascending loop over the request). " +
			"Not decided: partial application when Apply itself fails midway (not part of the statement); the content of the cache.",
		Assumptions: []string{"the write-effect analysis over-approximates what each callee may write (see C14)"},
		Run:         runC04,
	})
}

type injectShape struct {
	fn        *ssa.Function
	oci       *ssa.Parameter
	devices   *ssa.Parameter
	cache     *ssa.Parameter
	missEdges []ir.Edge
	hitEdges  []ir.Edge
	loop      *ir.Loop
	lookups   []ssa.Value
}

// analyseInject finds the anchors of InjectDevices shared by C02 and C04.
func analyseInject(c *Ctx, rule string) *injectShape {
	fn := c.fn(rule, "cdi", "(*Cache).InjectDevices")
	if fn == nil {
		return nil
	}
	s := &injectShape{fn: fn}
	s.oci = paramOfType(fn, ociSpecsPkg, "Spec")
	s.cache = paramOfType(fn, "cdi", "Cache")
	for _, p := range fn.Params {
		if sl, ok := p.Type().Underlying().(*types.Slice); ok {
			if b, ok := sl.Elem().Underlying().(*types.Basic); ok && b.Kind() == types.String {
				s.devices = p
			}
		}
	}
	if s.oci == nil || s.cache == nil || s.devices == nil {
		c.R.Undecided(rule, "anchor:InjectDevices-params", c.U.Pos(fn.Pos()), "InjectDevices no longer has (*Cache, *oci.Spec, ...string) parameters")
		return nil
	}
	// lookups in the device index
	isIndexLookup := func(v ssa.Value) bool {
		for _, p := range c.U.PathsOf(v) {
			if rootedAt(p, s.cache) && pathHasSuffix(p, "devices", "*") && len(p.Sels) == 2 {
				return true
			}
		}
		return false
	}
	for _, iff := range ir.Ifs(fn) {
		if tv, nilSucc, ok := ir.NilTest(iff); ok && isIndexLookup(tv) {
			s.missEdges = append(s.missEdges, ir.Edge{From: iff.Block(), Succ: nilSucc})
			s.hitEdges = append(s.hitEdges, ir.Edge{From: iff.Block(), Succ: 1 - nilSucc})
			s.lookups = append(s.lookups, tv)
			continue
		}
		// d, ok := c.devices[x]; if !ok / if ok
		if ex, ok := iff.Cond.(*ssa.Extract); ok && ex.Index == 1 {
			if lk, ok := ex.Tuple.(*ssa.Lookup); ok && lk.CommaOk {
				for _, p := range c.U.PathsOf(lk.X) {
					if rootedAt(p, s.cache) && pathHasSuffix(p, "devices") && len(p.Sels) == 1 {
						s.missEdges = append(s.missEdges, ir.Edge{From: iff.Block(), Succ: 1})
						s.hitEdges = append(s.hitEdges, ir.Edge{From: iff.Block(), Succ: 0})
						s.lookups = append(s.lookups, lk)
					}
				}
			}
		}
	}
	// `d, ok := c.devices[x]; ok && d != nil`: the comma-ok edge only leads to the nil test
	// of the same lookup, which decides
	var hits []ir.Edge
	for _, e := range s.hitEdges {
		decidedLater := false
		if ex, ok := e.From.Instrs[len(e.From.Instrs)-1].(*ssa.If).Cond.(*ssa.Extract); ok && ex.Index == 1 {
			for _, iff := range ir.Ifs(fn) {
				if tv, _, ok := ir.NilTest(iff); ok && iff.Block() == e.From.Succs[e.Succ] {
					if ex0, ok := tv.(*ssa.Extract); ok && ex0.Tuple == ex.Tuple && ex0.Index == 0 {
						decidedLater = true
					}
				}
			}
		}
		if !decidedLater {
			hits = append(hits, e)
		}
	}
	s.hitEdges = hits
	if len(s.missEdges) == 0 {
		c.R.Undecided(rule, "anchor:lookup-miss", c.U.Pos(fn.Pos()), "no nil / comma-ok test of a lookup in c.devices found in InjectDevices: the resolution idiom changed")
		return nil
	}
	// the request loop
	for _, l := range ir.Loops(fn) {
		for _, p := range c.U.PathsOf(l.Over) {
			if rootedAt(p, s.devices) && len(p.Sels) == 0 {
				s.loop = l
			}
		}
	}
	return s
}

func runC04(c *Ctx) {
	r := c.R
	r.Rule("C04.1", "miss-excludes-write: no feasible path through InjectDevices contains both a lookup miss and an instruction that can write the OCI spec", 1)
	r.Rule("C04.2", "nil-guard: the nil OCI spec test precedes every other use and returns (requested names, non-nil error)", 2)
	r.Rule("C04.3", "misses-named-in-order: each miss appends the requested name to the list returned with the error; the request is walked in order", 3)

	s := analyseInject(c, "C04.1")
	if s == nil {
		return
	}
	fn := s.fn
	c.U.RefineHeap([]*ssa.Function{fn}, 3)

	// --- OCI write sites
	writeSites := map[ssa.Instruction]string{}
	for _, w := range c.U.EffectsOf(fn).Writes {
		if rootedAt(w.Path, s.oci) && w.Site != nil && w.Site.Parent() == fn {
			if _, ok := writeSites[w.Site]; !ok {
				writeSites[w.Site] = w.Path.String()
			}
		}
	}
	// also: handing the OCI spec to a call the analysis cannot look into
	for _, o := range c.U.EffectsOf(fn).Opaque {
		for _, ap := range o.Args {
			if rootedAt(ap, s.oci) && o.Site.Parent() == fn {
				writeSites[o.Site] = "passed to " + o.Callee
			}
		}
	}
	if len(writeSites) == 0 {
		r.Undecided("C04.1", "anchor:oci-writes", c.U.Pos(fn.Pos()), "InjectDevices has no instruction that can write the OCI spec: the injection idiom changed")
		return
	}
	r.Analysed["C04.oci_write_sites"] = len(writeSites)
	siteBlocks := map[*ssa.BasicBlock][]ssa.Instruction{}
	for in := range writeSites {
		siteBlocks[in.Block()] = append(siteBlocks[in.Block()], in)
	}
	isMissEdge := func(a, b *ssa.BasicBlock) bool {
		for _, e := range s.missEdges {
			if e.From == a && e.To() == b {
				return true
			}
		}
		return false
	}
	errIdx := ir.ErrorResultIndex(fn.Signature)
	paths, feasible, bothBad := 0, 0, 0
	reported := map[string]bool{}
	missReturnOK, missReturns := 0, 0
	complete := ir.EnumPathsN(fn, nil, false, 2, func(p ir.BlockPath, end ssa.Instruction) {
		paths++
		if !ir.FeasiblePath(p) {
			return
		}
		feasible++
		miss := false
		var firstSite ssa.Instruction
		for i, b := range p {
			if i+1 < len(p) && isMissEdge(b, p[i+1]) {
				miss = true
			}
			if ins := siteBlocks[b]; len(ins) > 0 && firstSite == nil {
				firstSite = ins[0]
			}
		}
		if miss && firstSite != nil {
			bothBad++
			key := "miss+write:" + c.calleeNameOfInstr(firstSite)
			if !reported[key] {
				reported[key] = true
				r.Violation("C04.1", key, c.pos(firstSite),
					fmt.Sprintf("a path through InjectDevices has a device lookup miss and also executes %s, which can write %s: the OCI spec would be modified although a requested device is unresolvable", c.calleeNameOfInstr(firstSite), writeSites[firstSite]))
			}
		}
		if miss {
			ret := end.(*ssa.Return)
			missReturns++
			ev := ir.ResolveOnPath(ir.ReturnResult(ret, errIdx), p)
			lv := ir.ResolveOnPath(ir.ReturnResult(ret, 0), p)
			if ir.DefiniteNil(ev) == ir.NonNil && s.isMissList(c, lv, map[ssa.Value]bool{}) && ir.DefiniteNil(lv) != ir.IsNil {
				missReturnOK++
			} else {
				key := "miss-return:" + c.pos(ret)
				if !reported[key] {
					reported[key] = true
					r.Violation("C04.3", "miss-return", c.pos(ret), "a path with a lookup miss returns something other than (list of missed names, non-nil error)")
				}
			}
		}
	})
	if !complete {
		r.Undecided("C04.1", "paths", c.U.Pos(fn.Pos()), "too many paths to enumerate in InjectDevices")
	}
	r.Analysed["C04.paths_enumerated"] = paths
	r.Analysed["C04.paths_feasible"] = feasible
	if bothBad == 0 && complete {
		r.OK("C04.1", "miss-excludes-write", c.U.Pos(fn.Pos()),
			fmt.Sprintf("%d paths (each edge at most twice), %d feasible, %d OCI-writing sites, %d miss edge(s): no path combines a miss with a write", paths, feasible, len(writeSites), len(s.missEdges)))
	}
	if missReturns > 0 && missReturnOK == missReturns {
		r.OK("C04.3", "miss-return", c.U.Pos(fn.Pos()), fmt.Sprintf("all %d feasible paths with a miss return the miss list and a non-nil error", missReturns))
	} else if missReturns == 0 {
		r.Undecided("C04.3", "miss-return", c.U.Pos(fn.Pos()), "no feasible path with a miss reaches a return")
	}

	// --- C04.3: every miss appends the requested name
	isMissAppend := func(in ssa.Instruction) bool {
		call, ok := in.(*ssa.Call)
		return ok && s.isNameAppend(c, call)
	}
	for i, e := range s.missEdges {
		e := e
		header := func(in ssa.Instruction) bool {
			if _, ok := in.(*ssa.Return); ok {
				return true
			}
			return s.loop != nil && in.Block() == s.loop.Header && in == s.loop.Header.Instrs[len(s.loop.Header.Instrs)-1]
		}
		escaped := ir.CanReach(fn, ir.PathQuery{FromEdge: &e, ToAny: header, Stop: isMissAppend})
		r.Check("C04.3", fmt.Sprintf("miss-appends-name:%d", i), !escaped, c.pos(e.From.Instrs[len(e.From.Instrs)-1]),
			"from the miss edge every path appends the requested name to the miss list before the next iteration or a return")
	}
	// the list of missed names only ever grows by name appends: a slice of it used as the
	// target of another append, or a store through an index, writes into the array the
	// returned list shares (append(list[:k], x) replaces list[k])
	nAlias := 0
	ir.Instrs(fn, func(in ssa.Instruction) {
		var base ssa.Value
		var what string
		switch x := in.(type) {
		case *ssa.Slice:
			if x.Referrers() == nil {
				return
			}
			for _, ref := range *x.Referrers() {
				if call, ok := ref.(*ssa.Call); ok && ir.BuiltinName(call) == "append" && call.Call.Args[0] == ssa.Value(x) {
					base, what = x.X, "append to a slice of the miss list"
				}
			}
		case *ssa.IndexAddr:
			if x.Referrers() == nil {
				return
			}
			for _, ref := range *x.Referrers() {
				if st, ok := ref.(*ssa.Store); ok && st.Addr == ssa.Value(x) {
					base, what = x.X, "store into an element of the miss list"
				}
			}
		}
		if base == nil {
			return
		}
		if _, isCall := base.(*ssa.Call); !isCall {
			if _, isPhi := base.(*ssa.Phi); !isPhi {
				return
			}
		}
		if ir.IsNilConst(base) || !s.isMissList(c, base, map[ssa.Value]bool{}) {
			return
		}
		nAlias++
		r.Violation("C04.3", "miss-list-rewritten", c.pos(in), what+": the list handed back with the error no longer holds exactly the unresolvable names in request order")
	})
	if nAlias == 0 {
		r.OK("C04.3", "miss-list-rewritten", c.U.Pos(fn.Pos()), "the miss list is only ever extended by appending requested names; nothing writes into its elements")
	}
	// every looked-up name is classified: no path from the lookup to the next
	// iteration (or a return) bypasses the miss/hit test of its result
	for i, lk := range s.lookups {
		lin, ok := lk.(ssa.Instruction)
		if !ok {
			continue
		}
		decision := func(in ssa.Instruction) bool {
			iff, ok := in.(*ssa.If)
			if !ok {
				return false
			}
			for _, e := range s.missEdges {
				if e.From == iff.Block() {
					return true
				}
			}
			return false
		}
		bypass := ir.CanReach(fn, ir.PathQuery{From: lin, ToAny: func(in ssa.Instruction) bool {
			if _, isRet := in.(*ssa.Return); isRet {
				return true
			}
			return s.loop != nil && in.Block() == s.loop.Header
		}, Stop: decision})
		r.Check("C04.3", fmt.Sprintf("every-name-classified:%d", i), !bypass, c.pos(lin), "every requested name reaches the resolved/unresolved decision: no path skips a name before it is known whether it resolved (a skipped miss would not be named)")
	}
	if s.loop == nil {
		r.Undecided("C04.3", "request-loop", c.U.Pos(fn.Pos()), "no loop over the requested device names found")
	} else {
		r.Check("C04.3", "request-order", s.loop.Complete, c.pos(s.loop.Header.Instrs[len(s.loop.Header.Instrs)-1]),
			"the request is walked by a complete ascending loop over the devices parameter (index 0..len-1)")
		// the lookup key is the loop element
		for i, lk := range s.lookups {
			var key ssa.Value
			switch x := lk.(type) {
			case *ssa.Lookup:
				key = x.Index
			}
			if key == nil {
				continue
			}
			ok := false
			for _, p := range c.U.PathsOf(key) {
				if rootedAt(p, s.devices) && len(p.Sels) == 1 && p.Sels[0].F == nil {
					ok = true
				}
			}
			r.Check("C04.3", fmt.Sprintf("lookup-key:%d", i), ok, c.U.Pos(lk.Pos()), "the index is looked up with the requested name itself")
		}
	}

	// --- C04.2 nil guard
	var guard *ssa.If
	var nilSucc int
	for _, iff := range ir.Ifs(fn) {
		if tv, ns, ok := ir.NilTest(iff); ok && tv == ssa.Value(s.oci) {
			guard, nilSucc = iff, ns
		}
	}
	if guard == nil {
		r.Violation("C04.2", "nil-guard", c.U.Pos(fn.Pos()), "InjectDevices does not test its OCI spec parameter against nil")
		return
	}
	nonNil := ir.Edge{From: guard.Block(), Succ: 1 - nilSucc}
	nilEdge := ir.Edge{From: guard.Block(), Succ: nilSucc}
	// apart from the nil-spec return, the function returns only after the whole request was
	// walked: a verdict given earlier (e.g. on a pre-check of the names) cannot name every miss
	if s.loop != nil {
		for i, ret := range ir.NormalReturns(fn) {
			if ir.OnlyViaEdge(fn, ret, nilEdge) {
				continue
			}
			r.Check("C04.3", fmt.Sprintf("return-after-full-walk:%d", i), ir.OnlyViaEdge(fn, ret, s.loop.Exit), c.pos(ret),
				"a return other than the nil-OCI-spec one is reached only after the loop that looks up every requested name has finished")
		}
	}
	uses := 0
	if refs := s.oci.Referrers(); refs != nil {
		for _, u := range *refs {
			if u == ssa.Instruction(guard.Cond.(*ssa.BinOp)) {
				continue
			}
			uses++
			r.Check("C04.2", fmt.Sprintf("use-after-guard:%d", uses), ir.OnlyViaEdge(fn, u, nonNil), c.pos(u),
				"this use of the OCI spec parameter is reachable only through the non-nil edge of the guard")
		}
	}
	// the guard is the first decision: no lock taken, no refresh before it matters
	// for the result only; check the nil edge's returns
	n := 0
	ir.EnumPaths(fn, &nilEdge, false, func(p ir.BlockPath, end ssa.Instruction) {
		ret, ok := end.(*ssa.Return)
		if !ok {
			return
		}
		n++
		ev := ir.ResolveOnPath(ir.ReturnResult(ret, errIdx), p)
		lv := ir.ResolveOnPath(ir.ReturnResult(ret, 0), p)
		ok2 := ir.DefiniteNil(ev) == ir.NonNil && lv == ssa.Value(s.devices)
		r.Check("C04.2", fmt.Sprintf("nil-return:%d", n), ok2, c.pos(ret), "the nil-OCI-spec path returns the devices parameter and a non-nil error")
	})
	if n == 0 {
		r.Violation("C04.2", "nil-return", c.pos(guard), "the nil edge of the OCI spec guard does not return")
	}
}

// calleeNameOfInstr names a call instruction's callee or describes a store.
func (c *Ctx) calleeNameOfInstr(in ssa.Instruction) string {
	if call, ok := in.(ssa.CallInstruction); ok {
		return "call of " + c.calleeName(call)
	}
	return "instruction " + in.String()
}

// isNameAppend: call is append(list, name) with name = an element of the
// devices parameter.
func (s *injectShape) isNameAppend(c *Ctx, call *ssa.Call) bool {
	if ir.BuiltinName(call) != "append" || len(call.Call.Args) != 2 {
		return false
	}
	elems := c.U.ContainerElems(call.Call.Args[1])
	if len(elems) != 1 {
		return false
	}
	for _, p := range c.U.PathsOf(elems[0]) {
		if !(rootedAt(p, s.devices) && len(p.Sels) == 1 && p.Sels[0].F == nil) {
			return false
		}
	}
	return true
}

// isMissList: v is nil or built only by appending requested names.
func (s *injectShape) isMissList(c *Ctx, v ssa.Value, seen map[ssa.Value]bool) bool {
	if seen[v] {
		return true
	}
	seen[v] = true
	switch x := v.(type) {
	case *ssa.Const:
		return ir.IsNilConst(x)
	case *ssa.Phi:
		for _, e := range x.Edges {
			if !s.isMissList(c, e, seen) {
				return false
			}
		}
		return true
	case *ssa.Call:
		if !s.isNameAppend(c, x) {
			return false
		}
		return s.isMissList(c, x.Call.Args[0], seen)
	}
	return false
}
