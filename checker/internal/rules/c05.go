package rules

import (
	"fmt"
	"go/token"
	"go/types"
	"regexp"
	"sort"
	"strings"

	"golang.org/x/tools/go/ssa"

	"cdiverif/internal/ir"
)

// C05 — a Spec is admitted iff well-formed per SPEC.md; any single defect rejects it.

func init() {
	register(&Property{
		ID: "C05",
		Explanation: "The admission predicate of the library is decided structurally: for every validator function the set of decoded branch conditions under which it can return success (nil error) is computed from the CFG (edge dominance) and compared with the well-formedness clauses of the property; " +
			"for every validator call the origin of its arguments (access paths) and the handling of its error (tested, non-nil branch returns a non-nil error, on every path) are checked; loops over list fields must be complete and must reject nil elements before dereferencing them. " +
			"Decided: (C05.1) Spec bytes are decoded only by a strict YAML decoder; (C05.2) the pipelines of (*Spec).validate, (*Device).validate, (*ContainerEdits).Validate, Hook/DeviceNode/Mount/IntelRdt.Validate, ValidateEnv, newSpec, newDevice, ReadSpec, WriteSpec/write, annotation validation: exact success conditions, argument origins, error propagation; " +
			"(C05.3) the annotation validator's type switch handles the static type of every call site; (C05.4) null list entries are rejected; (C05.5) isEmpty covers every field of ContainerEdits; (C05.6) tables: device types {\"\",b,c,u,p}, permission runes {r,w,m}, hook names. " +
			"Not decided: strictness details inside sigs.k8s.io/yaml (duplicate keys), the regular languages of the name validators (C07) and of the Kubernetes qualified-name rules, the version gate (C06), the full iff over all documents.",
		Assumptions: []string{
			"sigs.k8s.io/yaml.UnmarshalStrict rejects unknown and duplicate keys",
			"k8s.IsQualifiedName implements the Kubernetes qualified-name grammar (copied code)",
		},
		Run: runC05,
	})
}

var mapNameRe = regexp.MustCompile(`make:map\([A-Za-z0-9_]*\)`)

// normGuards rewrites parameter names to positional $i and drops local map
// variable names so that expected sets do not depend on identifiers.
func normGuards(fn *ssa.Function, gs []string) []string {
	var out []string
	for _, g := range gs {
		for i, p := range fn.Params {
			re := regexp.MustCompile(`param:` + regexp.QuoteMeta(p.Name()) + `\b`)
			g = re.ReplaceAllString(g, fmt.Sprintf("$$%d", i))
		}
		g = mapNameRe.ReplaceAllString(g, "make:map")
		out = append(out, g)
	}
	sort.Strings(out)
	return out
}

// returnsByOutcome splits the normal returns of fn into success (error result
// certainly nil) and failure (anything else), with their normalised guards.
type retInfo struct {
	ret    *ssa.Return
	guards []string
}

func (c *Ctx) returnsByOutcome(fn *ssa.Function) (succ, fail []retInfo) {
	ei := ir.ErrorResultIndex(fn.Signature)
	for _, ret := range ir.NormalReturns(fn) {
		ri := retInfo{ret, normGuards(fn, c.guardsOf(fn, ret))}
		if ei >= 0 {
			// `return f(x)`: the callee's verdict handed on unchanged is the pair
			// `if err := f(x); err != nil { return err }; return nil`
			if call, isCall := ir.ReturnResult(ret, ei).(*ssa.Call); isCall && ir.DefiniteNil(call) == ir.NilUnknown && call.Block() == ret.Block() {
				d := "err:" + c.calleeName(call)
				if ir.IsErrorType(call.Type()) {
					gs := c.guardsOf(fn, ret)
					succ = append(succ, retInfo{ret, normGuards(fn, append(append([]string{}, gs...), "nil("+d+")"))})
					fail = append(fail, retInfo{ret, normGuards(fn, append(append([]string{}, gs...), "nonnil("+d+")"))})
					continue
				}
			}
		}
		if ei >= 0 && ir.DefiniteNil(ir.ReturnResult(ret, ei)) == ir.IsNil {
			succ = append(succ, ri)
		} else {
			fail = append(fail, ri)
		}
	}
	return
}

// complementary: a holds nil(X) (empty(X)) where b holds nonnil(X) (nonempty(X)), or the
// other way round, for some X.
func complementary(a, b []string) bool {
	neg := func(g string) string {
		for _, p := range [][2]string{{"nil(", "nonnil("}, {"nonnil(", "nil("}, {"empty(", "nonempty("}, {"nonempty(", "empty("}} {
			if strings.HasPrefix(g, p[0]) {
				return p[1] + strings.TrimPrefix(g, p[0])
			}
		}
		return ""
	}
	for _, g := range a {
		if n := neg(g); n != "" && !strings.HasPrefix(g, "nil(err:") && !strings.HasPrefix(g, "nonnil(err:") && subset([]string{n}, b) {
			return true
		}
	}
	return false
}

func subset(a, b []string) bool {
	m := map[string]bool{}
	for _, x := range b {
		m[x] = true
	}
	for _, x := range a {
		if !m[x] {
			return false
		}
	}
	return true
}

type validatorSpec struct {
	pkg, name string
	// syn: observed condition -> the spelling used in the tables, for conditions that are
	// equivalent in this validator
	syn map[string]string
	// success: the exact guard sets of the success returns (any order).
	success [][]string
	// failures: for each entry some failure return must have a guard set that contains it.
	failures [][]string
	// calls: callee -> expected normalised description of selected arguments ("" = any)
	calls []callSpec
	why   string
}

type callSpec struct {
	pkg, callee string
	args        map[int]string // arg index -> expected desc (normalised)
}

func runC05(c *Ctx) {
	r := c.R
	r.Rule("C05.1", "strict-decode: Spec bytes are decoded in pkg/cdi only by sigs.k8s.io/yaml.UnmarshalStrict", 1)
	r.Rule("C05.2", "pipeline: each validator succeeds exactly under the documented conditions, gets the right arguments, and every validator error is propagated", 40)
	r.Rule("C05.3", "typeswitch-coverage: the annotation validator handles the static type of every call site", 4)
	r.Rule("C05.4", "nil-elements: null entries of deviceNodes, hooks and mounts are rejected before use", 3)
	r.Rule("C05.5", "fields: isEmpty considers every field of specs.ContainerEdits", 6)
	r.Rule("C05.6", "tables: device types, permission runes", 1)

	// ---- C05.1
	n := 0
	for _, fn := range c.U.RepoFuncs("cdi") {
		for _, call := range ir.Calls(fn) {
			f := call.Common().StaticCallee()
			if f == nil {
				continue
			}
			full := f.String()
			if !(strings.Contains(full, "yaml") || strings.HasPrefix(full, "encoding/json.") || strings.HasPrefix(full, "(*encoding/json.Decoder)")) {
				continue
			}
			if !strings.Contains(full, "Unmarshal") && !strings.Contains(full, "Decode") {
				continue
			}
			n++
			ok := full == "sigs.k8s.io/yaml.UnmarshalStrict"
			r.Check("C05.1", "decoder:"+c.U.RelName(fn)+":"+full, ok, c.pos(call), c.U.RelName(fn)+" decodes with "+full+" (only the strict YAML decoder rejects unknown and duplicate keys)")
		}
	}
	if n == 0 {
		r.Undecided("C05.1", "decoder", "", "no decoder call found in pkg/cdi")
	}
	if ps := c.U.Func("cdi", "ParseSpec"); ps != nil {
		ok := false
		for _, call := range ir.Calls(ps) {
			if f := call.Common().StaticCallee(); f != nil && f.String() == "sigs.k8s.io/yaml.UnmarshalStrict" && call.Common().Args[0] == ssa.Value(ps.Params[0]) {
				ok = true
			}
		}
		r.Check("C05.1", "ParseSpec", ok, c.U.Pos(ps.Pos()), "ParseSpec hands its input bytes to UnmarshalStrict")
	}
	// strictness (unknown and duplicate keys rejected) is a property of the decoder's own walk over
	// the struct types: a type with its own UnmarshalJSON/UnmarshalYAML/UnmarshalText takes over
	// decoding of its part of the document and the strictness does not carry into it
	if specT := c.U.NamedType("specs", "Spec"); specT != nil {
		seen := map[string]bool{}
		var custom []string
		n := 0
		var visit func(t types.Type)
		visit = func(t types.Type) {
			switch x := t.(type) {
			case *types.Pointer:
				visit(x.Elem())
			case *types.Slice:
				visit(x.Elem())
			case *types.Array:
				visit(x.Elem())
			case *types.Map:
				visit(x.Key())
				visit(x.Elem())
			case *types.Named:
				if x.Obj().Pkg() == nil || !strings.HasPrefix(x.Obj().Pkg().Path(), ir.ModulePrefix) || seen[x.Obj().Name()] {
					return
				}
				seen[x.Obj().Name()] = true
				n++
				for _, recv := range []types.Type{x, types.NewPointer(x)} {
					ms := c.U.Prog.MethodSets.MethodSet(recv)
					for i := 0; i < ms.Len(); i++ {
						switch ms.At(i).Obj().Name() {
						case "UnmarshalJSON", "UnmarshalYAML", "UnmarshalText":
							custom = append(custom, x.Obj().Name()+"."+ms.At(i).Obj().Name())
						}
					}
				}
				visit(x.Underlying())
			case *types.Struct:
				for i := 0; i < x.NumFields(); i++ {
					visit(x.Field(i).Type())
				}
			}
		}
		visit(specT)
		sort.Strings(custom)
		r.Check("C05.1", "no-custom-unmarshalers", len(custom) == 0 && n >= 5, c.U.Pos(specT.Obj().Pos()), fmt.Sprintf("none of the %d types a Spec document is decoded into has its own unmarshaller (found %v): the strict decoder sees every key", n, custom))
	}

	// ---- C05.2 table
	ce := "$0.ContainerEdits."
	specs := []validatorSpec{
		{pkg: "cdi", name: "(*Mount).Validate",
			success: [][]string{{"nonempty($0.Mount.ContainerPath)", "nonempty($0.Mount.HostPath)"}},
			why:     "mounts need non-empty host and container paths"},
		{pkg: "cdi", name: "(*DeviceNode).Validate",
			// nothing is left of the permissions after trimming r, w and m  ==  every rune of
			// them is r, w or m (strings.Trim with a cutset removes exactly leading/trailing runes
			// of the set: the remainder is empty iff all runes are in it)
			syn: map[string]string{
				`empty(strings.Trim($0.DeviceNode.Permissions,"rwm"))`:    "loopdone($0.DeviceNode.Permissions)",
				`nonempty(strings.Trim($0.DeviceNode.Permissions,"rwm"))`: "loop($0.DeviceNode.Permissions)&$0.DeviceNode.Permissions[*] != 109&$0.DeviceNode.Permissions[*] != 114&$0.DeviceNode.Permissions[*] != 119",
			},
			success:  [][]string{{"loopdone($0.DeviceNode.Permissions)", "nonempty($0.DeviceNode.Path)", `$0.DeviceNode.Type in {"","b","c","p","u"}`}},
			failures: [][]string{{"loop($0.DeviceNode.Permissions)", "$0.DeviceNode.Permissions[*] != 109", "$0.DeviceNode.Permissions[*] != 114", "$0.DeviceNode.Permissions[*] != 119"}},
			why:      "device nodes need a path, a type in the table and permissions within rwm"},
		{pkg: "cdi", name: "(*Hook).Validate",
			success: [][]string{{"nil(err:cdi.ValidateEnv)", "nonempty($0.Hook.Path)", "present(global:validHookNames[$0.Hook.HookName])"}},
			calls:   []callSpec{{"cdi", "ValidateEnv", map[int]string{0: "$0.Hook.Env"}}},
			why:     "hooks need a known stage, a path and well-formed env"},
		{pkg: "cdi", name: "(*IntelRdt).Validate",
			success: [][]string{{`!strings.ContainsAny($0.IntelRdt.ClosID,"/\n")`, "$0.IntelRdt.ClosID != \".\"", "$0.IntelRdt.ClosID != \"..\"", "len($0.IntelRdt.ClosID) < 4096"}},
			why:     "the RDT class id must be a legal file name"},
		{pkg: "cdi", name: "ValidateEnv",
			success:  [][]string{{"loopdone($0)"}},
			failures: [][]string{{"loop($0)", "strings.IndexByte($0[*],61) <= 0"}},
			why:      "env entries are NAME=value with a non-empty name"},
		{pkg: "cdi", name: "(*ContainerEdits).Validate",
			success: [][]string{{}, {"loopdone(" + ce + "DeviceNodes)", "loopdone(" + ce + "Hooks)", "loopdone(" + ce + "Mounts)", "nil(err:cdi.ValidateEnv)", "nonnil($0)", "nonnil($0.ContainerEdits)"}},
			failures: [][]string{
				{"nonnil(err:cdi.ValidateEnv)"},
				{"loop(" + ce + "DeviceNodes)", "nonnil(err:cdi.(*DeviceNode).Validate)"},
				{"loop(" + ce + "Hooks)", "nonnil(err:cdi.(*Hook).Validate)"},
				{"loop(" + ce + "Mounts)", "nonnil(err:cdi.(*Mount).Validate)"},
				{"nonnil(" + ce + "IntelRdt)", "nonnil(err:cdi.(*IntelRdt).Validate)"},
			},
			calls: []callSpec{{"cdi", "ValidateEnv", map[int]string{0: ce + "Env"}}},
			why:   "every edit of every kind is validated"},
		{pkg: "cdi", name: "(*Device).validate",
			success: [][]string{{"!cdi.(*ContainerEdits).isEmpty(call:edits)", "nil(err:cdi.(*ContainerEdits).Validate)", "nil(err:parser.ValidateDeviceName)", "nil(err:validation.ValidateSpecAnnotations)"}},
			calls: []callSpec{
				{"parser", "ValidateDeviceName", map[int]string{0: "$0.Device.Name"}},
				{"validation", "ValidateSpecAnnotations", map[int]string{1: "$0.Device.Annotations"}},
			},
			why: "devices need a valid name, valid annotations and non-empty valid edits"},
		{pkg: "cdi", name: "(*Spec).validate",
			// the map gets exactly one entry per device on every path that completes the loop
			// (rule devices-map), so "no device" may be tested on the list or on the map
			syn:     map[string]string{"nonempty($0.Spec.Devices)": "nonempty(make:map)", "empty($0.Spec.Devices)": "empty(make:map)"},
			success: [][]string{{"loopdone($0.Spec.Devices)", "nil(err:cdi.(*ContainerEdits).Validate)", "nil(err:parser.ValidateClassName)", "nil(err:parser.ValidateVendorName)", "nil(err:specs.ValidateVersion)", "nil(err:validation.ValidateSpecAnnotations)", "nonempty(make:map)"}},
			failures: [][]string{
				{"loop($0.Spec.Devices)", "nonnil(err:cdi.newDevice)"},
				{"loop($0.Spec.Devices)", "present(make:map[$0.Spec.Devices[*].Name])"},
				{"empty(make:map)"}, // tested after the loop on the map, or before it on the list
			},
			calls: []callSpec{
				{"specs", "ValidateVersion", map[int]string{0: "$0.Spec"}},
				{"parser", "ValidateVendorName", map[int]string{0: "$0.vendor"}},
				{"parser", "ValidateClassName", map[int]string{0: "$0.class"}},
				{"validation", "ValidateSpecAnnotations", map[int]string{1: "$0.Spec.Annotations"}},
				{"cdi", "newDevice", map[int]string{0: "$0"}},
			},
			why: "version, vendor, class, annotations, spec-level edits, every device, unique names, at least one device"},
		{pkg: "cdi", name: "newSpec",
			success: [][]string{{"nil(err:cdi.(*Spec).validate)", "nil(err:cdi.validateSpec)"}},
			calls:   []callSpec{{"cdi", "validateSpec", map[int]string{0: "$0"}}},
			why:     "a Spec object exists only for validated data"},
		{pkg: "cdi", name: "newDevice",
			success: [][]string{{"nil(err:cdi.(*Device).validate)"}},
			why:     "a Device object exists only for validated data"},
		{pkg: "cdi", name: "ParseSpec",
			success: [][]string{{"nil(err:sigs.k8s.io/yaml.UnmarshalStrict)"}},
			why:     "decoding errors reject the document"},
	}
	for _, vs := range specs {
		c05CheckValidator(c, vs)
	}
	c05Extra(c)
	c.documentUntouched("C05.2")
	// released versions: a cdiVersion is valid exactly when it is a key of the table of released
	// versions (not merely a well-formed version in some range)
	if iv := c.fn("C05.2", "specs", "(requiredVersionMap).isValidVersion"); iv != nil {
		ok := true
		var found []string
		for _, er := range c.exprReturns(iv) {
			found = append(found, er.results[0])
			if er.results[0] != "validSpecVersions[newVersion($1)]#1" && er.results[0] != "$0[newVersion($1)]#1" {
				ok = false
			}
		}
		r0 := c.R
		r0.Check("C05.2", "released-versions", ok && len(found) > 0, c.U.Pos(iv.Pos()), fmt.Sprintf("isValidVersion(v) is 'newVersion(v) is a key of the released-versions table' (found %v)", found))
		if vv := c.fn("C05.2", "specs", "ValidateVersion"); vv != nil {
			okCall := false
			for _, call := range c.callsTo(vv, false, "specs", "(requiredVersionMap).isValidVersion") {
				if normExpr(vv, []string{c.exprDesc(call.Common().Args[1])})[0] == "$0.Version" {
					okCall = true
				}
			}
			r0.Check("C05.2", "released-versions-applied", okCall, c.U.Pos(vv.Pos()), "ValidateVersion tests the Spec's own cdiVersion against the table")
		}
	}
	c05TypeSwitch(c)
	c05IsEmpty(c)
	c05Tables(c)
}

func c05CheckValidator(c *Ctx, vs validatorSpec) {
	r := c.R
	fn := c.fn("C05.2", vs.pkg, vs.name)
	if fn == nil {
		return
	}
	succ, fail := c.returnsByOutcome(fn)
	if len(vs.syn) > 0 {
		// equivalent spellings of one condition (justified per validator) count as the same
		for _, lst := range [][]retInfo{succ, fail} {
			for i := range lst {
				var out []string
				for _, g := range lst[i].guards {
					if to, ok := vs.syn[g]; ok {
						out = append(out, strings.Split(to, "&")...)
					} else {
						out = append(out, g)
					}
				}
				lst[i].guards = out
				sort.Strings(lst[i].guards)
			}
		}
	}
	// two success returns that split one condition (`if x == nil { return nil }; return f(x)`)
	// are the one merged return of the if-form, whose guard set is what both have in common
	for merged := true; merged; {
		merged = false
		for i := 0; i < len(succ) && !merged; i++ {
			for j := i + 1; j < len(succ) && !merged; j++ {
				if !complementary(succ[i].guards, succ[j].guards) {
					continue
				}
				var common []string
				for _, g := range succ[i].guards {
					if subset([]string{g}, succ[j].guards) {
						common = append(common, g)
					}
				}
				succ[i].guards = common
				succ = append(succ[:j], succ[j+1:]...)
				merged = true
			}
		}
	}
	// success sets
	want := map[string]bool{}
	for _, w := range vs.success {
		ws := append([]string{}, w...)
		sort.Strings(ws)
		want[strings.Join(ws, " & ")] = true
	}
	got := map[string]bool{}
	for _, s := range succ {
		k := strings.Join(s.guards, " & ")
		got[k] = true
		if !want[k] {
			// explain by diff against the closest expected set
			var missing, extra []string
			best := vs.success[len(vs.success)-1]
			for _, w := range best {
				if !subset([]string{w}, s.guards) {
					missing = append(missing, w)
				}
			}
			for _, g := range s.guards {
				if !subset([]string{g}, best) {
					extra = append(extra, g)
				}
			}
			r.Violation("C05.2", "success:"+vs.name, c.pos(s.ret),
				fmt.Sprintf("%s can succeed under [%s]; expected exactly [%s] (%s). Conditions no longer required: %v; conditions added: %v", vs.name, k, strings.Join(best, " & "), vs.why, missing, extra))
		}
	}
	for k := range want {
		if !got[k] {
			r.Violation("C05.2", "success-missing:"+vs.name, c.U.Pos(fn.Pos()), fmt.Sprintf("%s has no success return under exactly [%s] (%s)", vs.name, k, vs.why))
		}
	}
	okAll := true
	for k := range got {
		if !want[k] {
			okAll = false
		}
	}
	for k := range want {
		if !got[k] {
			okAll = false
		}
	}
	if okAll {
		r.OK("C05.2", "success:"+vs.name, c.U.Pos(fn.Pos()), fmt.Sprintf("%s succeeds exactly under %v", vs.name, keys(want)))
	}
	// required failure exits
	for i, f := range vs.failures {
		found := false
		for _, fr := range fail {
			if subset(f, fr.guards) {
				found = true
			}
		}
		r.Check("C05.2", fmt.Sprintf("failure:%s:%d", vs.name, i), found, c.U.Pos(fn.Pos()), fmt.Sprintf("%s has an error return under %v", vs.name, f))
	}
	// calls: arguments and error discipline
	for _, cs := range vs.calls {
		calls := c.callsTo(fn, false, cs.pkg, cs.callee)
		if len(calls) == 0 {
			r.Violation("C05.2", "call:"+vs.name+"->"+cs.callee, c.U.Pos(fn.Pos()), vs.name+" does not call "+cs.callee)
			continue
		}
		for _, call := range calls {
			okArgs := true
			var ds []string
			for idx, wantDesc := range cs.args {
				if idx >= len(call.Common().Args) {
					okArgs = false
					continue
				}
				d := normGuards(fn, []string{c.valueDesc(call.Common().Args[idx])})[0]
				ds = append(ds, d)
				if d != wantDesc {
					okArgs = false
				}
			}
			r.Check("C05.2", "args:"+vs.name+"->"+cs.callee, okArgs, c.pos(call), fmt.Sprintf("%s(%v): expected arguments %v", cs.callee, ds, cs.args))
		}
	}
	// every call of a function returning an error, inside this validator, is heeded
	for _, call := range ir.Calls(fn) {
		if _, isDefer := call.(*ssa.Defer); isDefer {
			continue
		}
		sig := call.Common().Signature()
		if ir.ErrorResultIndex(sig) < 0 || ir.BuiltinName(call) != "" {
			continue
		}
		name := c.calleeName(call)
		if strings.HasPrefix(name, "fmt.") || strings.HasPrefix(name, "errors.") {
			continue
		}
		msg := c.errflow(fn, call)
		r.Check("C05.2", "errflow:"+vs.name+"->"+name, msg == "", c.pos(call), "error of "+name+" is tested and returned on every path"+ifMsg(msg))
		// inside an element loop the validator cannot be skipped for an element
		if l := ir.LoopOf(fn, ir.Loops(fn), call.(ssa.Instruction).Block()); l != nil {
			body := l.Body
			esc := ir.CanReach(fn, ir.PathQuery{FromEdge: &body, ToAny: func(in ssa.Instruction) bool { return in.Block() == l.Header },
				Stop: func(in ssa.Instruction) bool { return in == call.(ssa.Instruction) }})
			r.Check("C05.2", "every-element:"+vs.name+"->"+name, !esc && l.Complete, c.pos(call), name+" runs for every element of the list (no iteration can finish without it, the loop covers all elements)")
		}
	}
}

// c05Extra: pieces that are not success-guard tables.
func c05Extra(c *Ctx) {
	r := c.R
	// (*Spec).validate: the device loop is complete; each element goes to newDevice; the result map gets every device
	if fn := c.U.Func("cdi", "(*Spec).validate"); fn != nil {
		var loop *ir.Loop
		for _, l := range ir.Loops(fn) {
			if normGuards(fn, []string{c.valueDesc(l.Over)})[0] == "$0.Spec.Devices" {
				loop = l
			}
		}
		r.Check("C05.2", "devices-loop", loop != nil && loop.Complete, c.U.Pos(fn.Pos()), "(*Spec).validate walks all devices of the Spec")
		for _, call := range c.callsTo(fn, false, "cdi", "newDevice") {
			d := normGuards(fn, []string{c.valueDesc(call.Common().Args[1])})[0]
			r.Check("C05.2", "devices-elem", strings.Contains(d, "$0.Spec.Devices[*]"), c.pos(call), "newDevice gets the loop's device (found "+d+")")
		}
		// insertion keyed by name on every non-error path of the iteration
		var mu *ssa.MapUpdate
		ir.Instrs(fn, func(in ssa.Instruction) {
			if x, ok := in.(*ssa.MapUpdate); ok {
				mu = x
			}
		})
		okIns := false
		if mu != nil && loop != nil {
			kd := normGuards(fn, []string{c.valueDesc(mu.Key)})[0]
			okIns = strings.Contains(kd, "$0.Spec.Devices[*].Name") && loop.BodyBlocks()[mu.Block()]
			// the map returned on success is this map
			for _, ret := range ir.NormalReturns(fn) {
				if ir.DefiniteNil(ir.ReturnResult(ret, 1)) == ir.IsNil && ir.ReturnResult(ret, 0) != mu.Map {
					okIns = false
				}
			}
		}
		r.Check("C05.2", "devices-map", okIns, c.U.Pos(fn.Pos()), "every validated device is entered under its name into the map that is returned")
	}
	// newSpec: vendor/class come from ParseQualifier(raw.Kind); validate runs on that object
	if fn := c.U.Func("cdi", "newSpec"); fn != nil {
		okV, okC := false, false
		ir.Instrs(fn, func(in ssa.Instruction) {
			st, ok := in.(*ssa.Store)
			if !ok {
				return
			}
			fa, ok := st.Addr.(*ssa.FieldAddr)
			if !ok || !ir.TypeIs(fa.X.Type(), "cdi", "Spec") {
				return
			}
			name := ir.StructOf(fa.X.Type()).Field(fa.Field).Name()
			d := c.valueDescRaw(st.Val)
			if name == "vendor" && strings.HasPrefix(d, "ParseQualifier#0") {
				okV = true
			}
			if name == "class" && strings.HasPrefix(d, "ParseQualifier#1") {
				okC = true
			}
		})
		argOK := false
		for _, call := range c.callsTo(fn, false, "parser", "ParseQualifier") {
			d := normGuards(fn, []string{c.valueDesc(call.Common().Args[0])})[0]
			if d == "$0.Kind" {
				argOK = true
			}
		}
		r.Check("C05.2", "newSpec-kind", okV && okC && argOK, c.U.Pos(fn.Pos()), fmt.Sprintf("vendor and class validated are the two halves of the Spec's kind (ParseQualifier(raw.Kind)) [vendor %v class %v arg %v]", okV, okC, argOK))
	}
	// ReadSpec and WriteSpec/write reach newSpec / validateSpec with error propagation
	type reach struct{ fn, pkg, callee string }
	for _, rc := range []reach{
		{"ReadSpec", "cdi", "ParseSpec"}, {"ReadSpec", "cdi", "newSpec"},
		{"(*Cache).WriteSpec", "cdi", "newSpec"}, {"(*Spec).write", "cdi", "validateSpec"},
	} {
		fn := c.fn("C05.2", "cdi", rc.fn)
		if fn == nil {
			continue
		}
		calls := c.callsTo(fn, false, rc.pkg, rc.callee)
		if len(calls) == 0 {
			r.Violation("C05.2", "reach:"+rc.fn+"->"+rc.callee, c.U.Pos(fn.Pos()), rc.fn+" does not call "+rc.callee)
			continue
		}
		for _, call := range calls {
			msg := c.errflow(fn, call)
			// success returns only after the call
			after := true
			ei := ir.ErrorResultIndex(fn.Signature)
			for _, ret := range ir.NormalReturns(fn) {
				if ir.DefiniteNil(ir.ReturnResult(ret, ei)) == ir.IsNil {
					if !ir.MustPassBefore(fn, ret, func(in ssa.Instruction) bool { return in == call.(ssa.Instruction) }) {
						after = false
					}
				}
			}
			// for write: the file must not be created before validation
			r.Check("C05.2", "reach:"+rc.fn+"->"+rc.callee, msg == "" && after, c.pos(call), rc.fn+" succeeds only after "+rc.callee+" succeeded"+ifMsg(msg))
		}
	}
	// ReadSpec: nil document is an error
	if fn := c.U.Func("cdi", "ReadSpec"); fn != nil {
		_, fail := c.returnsByOutcome(fn)
		found := false
		for _, f := range fail {
			for _, g := range f.guards {
				if strings.HasPrefix(g, "nil(") && strings.Contains(g, "ParseSpec") && !strings.HasPrefix(g, "nil(err:") {
					found = true
				}
			}
		}
		r.Check("C05.2", "ReadSpec-empty-document", found, c.U.Pos(fn.Pos()), "a document that decodes to nothing (null / empty file) is an error")
	}
	// validateSpec: external validator's verdict is heeded
	if fn := c.U.Func("cdi", "validateSpec"); fn != nil {
		// (a) the installed validator's error is returned on every path; (b) with a validator
		// installed no path reaches a success return without having consulted it
		ok := false
		var vcall ssa.CallInstruction
		for _, call := range ir.Calls(fn) {
			if call.Common().IsInvoke() && call.Common().Method.Name() == "Validate" && strings.HasSuffix(c.valueDesc(call.Common().Value), "specValidator") {
				vcall = call
			}
		}
		if vcall != nil && c.errflow(fn, vcall) == "" {
			ok = true
			for _, iff := range ir.Ifs(fn) {
				tv, nilSucc, isNil := ir.NilTest(iff)
				if !isNil || !strings.HasSuffix(c.valueDesc(tv), "specValidator") {
					continue
				}
				nonNil := ir.Edge{From: iff.Block(), Succ: 1 - nilSucc}
				for _, ret := range ir.NormalReturns(fn) {
					if ir.DefiniteNil(ir.ReturnResult(ret, 0)) == ir.NonNil {
						continue
					}
					if ir.CanReach(fn, ir.PathQuery{FromEdge: &nonNil, To: ret, Stop: func(in ssa.Instruction) bool { return in == vcall.(ssa.Instruction) }}) {
						ok = false
					}
				}
			}
		}
		r.Check("C05.2", "success:validateSpec", ok, c.U.Pos(fn.Pos()), "validateSpec succeeds only without a validator or when the validator accepts")
	}
	// the size that is compared with the limit is the SUM over all entries: an accumulator
	// that starts at 0 and to which every iteration adds len(key) and len(value)
	if fn := c.fn("C05.2", "k8s", "ValidateAnnotationsSize"); fn != nil {
		okSum, okLimit := false, false
		for _, iff := range ir.Ifs(fn) {
			op, x, y, isCmp := ir.Comparison(iff)
			if !isCmp || (op != token.GTR && op != token.GEQ) {
				continue
			}
			if lim, isInt := ir.ConstInt(y); isInt && lim == 256*(1<<10) && op == token.GTR {
				okLimit = true
			}
			phi, isPhi := x.(*ssa.Phi)
			if !isPhi {
				continue
			}
			zero, acc := false, false
			for _, e := range phi.Edges {
				if k, isInt := ir.ConstInt(e); isInt && k == 0 {
					zero = true
					continue
				}
				// the value carried round the loop: sums that contain the accumulator itself
				// and two len() terms of the iteration's key and value
				self, lens := false, 0
				var walk func(v ssa.Value, depth int)
				walk = func(v ssa.Value, depth int) {
					if depth > 8 {
						return
					}
					if v == ssa.Value(phi) {
						self = true
						return
					}
					switch t := v.(type) {
					case *ssa.BinOp:
						if t.Op == token.ADD {
							walk(t.X, depth+1)
							walk(t.Y, depth+1)
						}
					case *ssa.Convert:
						walk(t.X, depth+1)
					case *ssa.Phi:
						for _, pe := range t.Edges {
							walk(pe, depth+1)
						}
					case *ssa.Call:
						if ir.BuiltinName(t) == "len" {
							if ex, isEx := t.Call.Args[0].(*ssa.Extract); isEx {
								if _, isNext := ex.Tuple.(*ssa.Next); isNext && (ex.Index == 1 || ex.Index == 2) {
									lens++
								}
							}
						}
					}
				}
				walk(e, 0)
				if self && lens == 2 {
					acc = true
				}
			}
			if zero && acc {
				okSum = true
			}
		}
		r.Check("C05.2", "annotations-total-size", okSum && okLimit, c.U.Pos(fn.Pos()), "the quantity compared with the 256 kB limit is the running total over all annotations (starts at 0, every entry adds len(key)+len(value)), and the limit is exceeded only by sizes above it")
	}
	// annotations: k8s.ValidateAnnotations checks every key and the total size
	if fn := c.fn("C05.2", "k8s", "ValidateAnnotations"); fn != nil {
		var loop *ir.Loop
		for _, l := range ir.Loops(fn) {
			if normGuards(fn, []string{c.valueDesc(l.Over)})[0] == "$0" {
				loop = l
			}
		}
		keyChecked := false
		for _, call := range c.callsTo(fn, false, "k8s", "IsQualifiedName") {
			if loop != nil && loop.BodyBlocks()[call.(ssa.Instruction).Block()] {
				// unconditionally for every key
				body := loop.Body
				esc := ir.CanReach(fn, ir.PathQuery{FromEdge: &body, ToAny: func(in ssa.Instruction) bool {
					_, isRet := in.(*ssa.Return)
					return isRet || in.Block() == loop.Header
				}, Stop: func(in ssa.Instruction) bool { return in == call.(ssa.Instruction) }})
				if !esc {
					keyChecked = true
				}
			}
		}
		sizeChecked := false
		for _, call := range c.callsTo(fn, false, "k8s", "ValidateAnnotationsSize") {
			gs := c.guardsOf(fn, call.(ssa.Instruction))
			only := true
			for _, g := range gs {
				if !strings.HasPrefix(g, "loopdone(") {
					only = false
				}
			}
			if only && call.Common().Args[0] == ssa.Value(fn.Params[0]) {
				sizeChecked = true
			}
		}
		joined := false
		for _, ret := range ir.NormalReturns(fn) {
			if call, ok := ret.Results[0].(*ssa.Call); ok && call.Call.StaticCallee() != nil && call.Call.StaticCallee().String() == "errors.Join" {
				joined = true
			}
		}
		r.Check("C05.2", "annotations-keys-and-size", loop != nil && loop.Complete && keyChecked && sizeChecked && joined, c.U.Pos(fn.Pos()), "every annotation key is checked as a qualified name, the total size is checked, all findings are joined into the result")
	}
	// (validateSpecAnnotations, if it exists, is expanded into ValidateSpecAnnotations before analysis)
	if fn := c.fn("C05.2", "validation", "ValidateSpecAnnotations"); fn != nil {
		calls := c.callsTo(fn, false, "k8s", "ValidateAnnotations")
		ok := len(calls) > 0
		for _, call := range calls {
			returned := false
			for _, ret := range ir.NormalReturns(fn) {
				for _, lv := range phiLeaves(ir.ReturnResult(ret, 0)) {
					if lv == call.Value() {
						returned = true
					}
				}
			}
			if !returned {
				ok = false
			}
		}
		r.Check("C05.2", "annotations-delegation", ok, c.U.Pos(fn.Pos()), fmt.Sprintf("ValidateSpecAnnotations returns the verdict of k8s.ValidateAnnotations on the map it was given (%d call(s))", len(calls)))
	}
	nilElementsRejected(c, "C05.4", "nil-element:")
}

// nilElementsRejected: the failure exits for null list entries inside
// ContainerEdits.Validate (C05.4; also what C08.K2 relies on for the dereferences in Apply).
func nilElementsRejected(c *Ctx, rule, keyPrefix string) {
	r := c.R
	if fn := c.U.Func("cdi", "(*ContainerEdits).Validate"); fn != nil {
		_, fail := c.returnsByOutcome(fn)
		for _, list := range []string{"DeviceNodes", "Hooks", "Mounts"} {
			want := []string{"loop($0.ContainerEdits." + list + ")", "nil($0.ContainerEdits." + list + "[*])"}
			found := false
			for _, f := range fail {
				if subset(want, f.guards) {
					found = true
				}
			}
			// and the element validator is reached only for non-nil elements
			guarded := false
			for _, call := range ir.Calls(fn) {
				name := c.calleeName(call)
				if !strings.HasSuffix(name, ").Validate") || !strings.HasPrefix(name, "cdi.(*") {
					continue
				}
				gs := normGuards(fn, c.guardsOf(fn, call.(ssa.Instruction)))
				if subset([]string{"loop($0.ContainerEdits." + list + ")", "nonnil($0.ContainerEdits." + list + "[*])"}, gs) {
					guarded = true
				}
			}
			r.Check(rule, keyPrefix+list, found && guarded, c.U.Pos(fn.Pos()), "a null entry in "+list+" is an error, and the entry's validator only sees non-nil entries (Apply dereferences every entry of a Spec that loaded)")
		}
	}
}

// c05TypeSwitch: C05.3.
func c05TypeSwitch(c *Ctx) {
	r := c.R
	untypedAnnotationsCopied(c, "C05.3", "untyped-copy")
	fn := c.fn("C05.3", "validation", "ValidateSpecAnnotations")
	if fn == nil {
		return
	}
	var handled []types.Type
	ir.Instrs(fn, func(in ssa.Instruction) {
		if ta, ok := in.(*ssa.TypeAssert); ok && ta.X == ssa.Value(fn.Params[1]) {
			handled = append(handled, ta.AssertedType)
		}
	})
	// each handled type must lead to the real validator (not fall through to nil)
	succ, _ := c.returnsByOutcome(fn)
	for _, s := range succ {
		g := strings.Join(s.guards, " & ")
		var nots int
		for _, x := range s.guards {
			if strings.HasPrefix(x, "nottype($1,") {
				nots++
			}
		}
		if g == "nil($1)" || (nots == len(handled) && nots > 0) || subset([]string{"nil(err:k8s.ValidateAnnotations)"}, s.guards) {
			continue // nil input, or the default arm after all cases failed
		}
		r.Violation("C05.3", "accepting-arm", c.pos(s.ret), "ValidateSpecAnnotations returns success without validating under ["+g+"]")
	}
	sites := 0
	for _, caller := range c.U.RepoFuncs() {
		for _, call := range c.callsTo(caller, false, "validation", "ValidateSpecAnnotations") {
			sites++
			arg := call.Common().Args[1]
			var st types.Type
			if mi, ok := arg.(*ssa.MakeInterface); ok {
				st = mi.X.Type()
			}
			ok := false
			if st != nil {
				for _, h := range handled {
					if types.Identical(h, st) {
						ok = true
					}
				}
			}
			tn := "interface value"
			if st != nil {
				tn = st.String()
			}
			r.Check("C05.3", "callsite:"+c.U.RelName(caller)+":"+tn, ok, c.pos(call), fmt.Sprintf("%s passes a %s; the validator's type switch handles %v (an unhandled type is accepted unchecked)", c.U.RelName(caller), tn, handled))
		}
	}
	if sites < 4 {
		r.Undecided("C05.3", "callsites", c.U.Pos(fn.Pos()), fmt.Sprintf("only %d call sites of ValidateSpecAnnotations found (4 confirmed by hand)", sites))
	}
}

// c05IsEmpty: C05.5.
func c05IsEmpty(c *Ctx) {
	r := c.R
	fn := c.fn("C05.5", "cdi", "(*ContainerEdits).isEmpty")
	st := ir.StructOf(c.U.NamedType("specs", "ContainerEdits"))
	if fn == nil || st == nil {
		return
	}
	var trueGuards [][]string
	for _, ret := range ir.NormalReturns(fn) {
		// `return a && b && c` is `if !a { return false } ... return c`: per incoming edge of the
		// returning block, and a returned comparison read as the condition it is
		type alt struct {
			v  ssa.Value
			gs []string
		}
		var alts []alt
		res := ret.Results[0]
		if phi, isPhi := res.(*ssa.Phi); isPhi && phi.Block() == ret.Block() {
			for k, e := range phi.Edges {
				alts = append(alts, alt{e, c.edgeGuards(fn, ret.Block().Preds[k], ret.Block())})
			}
		} else {
			alts = append(alts, alt{res, c.guardsOf(fn, ret)})
		}
		for _, a := range alts {
			if b, ok := ir.ConstBool(a.v); ok {
				if b {
					trueGuards = append(trueGuards, normGuards(fn, a.gs))
				}
				continue
			}
			if _, isBin := a.v.(*ssa.BinOp); isBin {
				d := c.condDesc(&ssa.If{Cond: a.v}, 0, nil)
				trueGuards = append(trueGuards, normGuards(fn, append(append([]string{}, a.gs...), d)))
			}
		}
	}
	if len(trueGuards) != 1 {
		r.Violation("C05.5", "isEmpty", c.U.Pos(fn.Pos()), fmt.Sprintf("isEmpty has %d 'true' returns (one expected)", len(trueGuards)))
		return
	}
	for i := 0; i < st.NumFields(); i++ {
		f := st.Field(i)
		var want string
		switch f.Type().Underlying().(type) {
		case *types.Slice, *types.Map:
			want = "empty($0.ContainerEdits." + f.Name() + ")"
		case *types.Pointer:
			want = "nil($0.ContainerEdits." + f.Name() + ")"
		default:
			r.Undecided("C05.5", "isEmpty:"+f.Name(), c.U.Pos(fn.Pos()), "field kind without emptiness rule")
			continue
		}
		r.Check("C05.5", "isEmpty:"+f.Name(), subset([]string{want}, trueGuards[0]), c.U.Pos(fn.Pos()), "edits count as empty only if "+want+" (a device whose only edit is of this kind must not be rejected as empty, nor an empty one accepted)")
	}
}

// c05Tables: C05.6.
func c05Tables(c *Ctx) {
	r := c.R
	fn := c.fn("C05.6", "cdi", "(*DeviceNode).Validate")
	if fn == nil {
		return
	}
	// the accepted types, as decoded from the success condition (a literal table consulted with
	// the node's type, or the equivalent chain of comparisons / switch)
	succ, _ := c.returnsByOutcome(fn)
	want := `$0.DeviceNode.Type in {"","b","c","p","u"}`
	ok := len(succ) > 0
	var found []string
	for _, sr := range succ {
		has := false
		for _, g := range sr.guards {
			if strings.HasPrefix(g, "$0.DeviceNode.Type in ") {
				found = append(found, g)
				has = g == want
			}
		}
		if !has {
			ok = false
		}
	}
	r.Check("C05.6", "device-types", ok, c.U.Pos(fn.Pos()), fmt.Sprintf("device types accepted: %v; expected %s", found, want))
}

// untypedAnnotationsCopied: ValidateSpecAnnotations turns a map[string]interface{} into the
// map[string]string that is validated by storing, for every entry, the entry's key as key
// and the entry's string value as value.
func untypedAnnotationsCopied(c *Ctx, rule, key string) {
	fn := c.U.Func("validation", "ValidateSpecAnnotations")
	if fn == nil {
		return
	}
	n, ok := 0, true
	ir.Instrs(fn, func(in ssa.Instruction) {
		mu, isMU := in.(*ssa.MapUpdate)
		if !isMU {
			return
		}
		n++
		k, isK := mu.Key.(*ssa.Extract)
		if !isK || k.Index != 1 {
			ok = false
			return
		}
		if _, isNext := k.Tuple.(*ssa.Next); !isNext {
			ok = false
			return
		}
		// value: the string the entry's value was asserted to be
		v := mu.Value
		if ex, isEx := v.(*ssa.Extract); isEx && ex.Index == 0 {
			v = ex.Tuple
		}
		ta, isTA := v.(*ssa.TypeAssert)
		if !isTA {
			ok = false
			return
		}
		src, isSrc := ta.X.(*ssa.Extract)
		if !isSrc || src.Index != 2 || src.Tuple != k.Tuple {
			ok = false
		}
	})
	c.R.Check(rule, key, ok && n == 1, c.U.Pos(fn.Pos()), fmt.Sprintf("the untyped annotations map is copied entry by entry, key to key and (string) value to value, before it is validated (%d map store(s))", n))
}
