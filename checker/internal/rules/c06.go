package rules

import (
	"fmt"
	"go/ast"
	"go/token"
	"go/types"
	"os"
	"path/filepath"
	"regexp"
	"sort"
	"strings"

	"golang.org/x/tools/go/ssa"

	"cdiverif/internal/ir"
)

// C06 — minimum required CDI version is exact and independent of where a feature is used.

func init() {
	register(&Property{
		ID: "C06",
		Explanation: "The feature->version table is read from the repository itself: every struct field of specs-go whose comment says 'Added in vX.Y.Z' is a version-gated feature (plus the two non-field features the property names: digit-leading device names 0.5.0, dotted class 0.6.0). " +
			"For each such field all placements in a Spec are enumerated from the type structure (Spec.ContainerEdits..., Spec.Devices[*].ContainerEdits...) and the predicate stored under that version in validSpecVersions must read every placement - decided with access paths that follow elements through append and range, so an address of a loop variable that aliases only the last device does not count (C06.1/C06.3). " +
			"Also decided: predicates of feature-less versions return the constant false; requiredVersion walks the whole table and keeps a version only if its predicate holds and it is greater than the current maximum; ValidateVersion succeeds exactly for a known version not lower than the minimum; the table contains every released version listed in SPEC.md. " +
			"Not decided: semver comparison itself; arbitrary declared version strings.",
		Assumptions: []string{"golang.org/x/mod/semver.Compare orders released versions correctly", "field comments 'Added in vX.Y.Z' in specs-go/config.go are the authoritative feature table"},
		Run:         runC06,
	})
}

var addedInRe = regexp.MustCompile(`Added in (v[0-9]+\.[0-9]+\.[0-9]+)`)

type feature struct {
	typ, field, version string
	pos                 string
}

// versionFeatures reads the "Added in" comments of the specs-go struct fields.
func versionFeatures(c *Ctx) []feature {
	p := c.U.Pkgs[ir.PkgAlias["specs"]]
	var out []feature
	if p == nil {
		return nil
	}
	for _, f := range p.Syntax {
		ast.Inspect(f, func(n ast.Node) bool {
			ts, ok := n.(*ast.TypeSpec)
			if !ok {
				return true
			}
			st, ok := ts.Type.(*ast.StructType)
			if !ok {
				return true
			}
			for _, fld := range st.Fields.List {
				text := ""
				if fld.Doc != nil {
					text += fld.Doc.Text()
				}
				if fld.Comment != nil {
					text += fld.Comment.Text()
				}
				m := addedInRe.FindStringSubmatch(text)
				if m == nil {
					continue
				}
				for _, name := range fld.Names {
					out = append(out, feature{ts.Name.Name, name.Name, m[1], c.U.Pos(fld.Pos())})
				}
			}
			return true
		})
	}
	sort.Slice(out, func(i, j int) bool { return out[i].typ+out[i].field < out[j].typ+out[j].field })
	return out
}

// placements enumerates the selector strings from *Spec to field T.F through
// the type structure (structs, pointers, slices).
func placements(root *types.Named, typ, field string) []string {
	var out []string
	var rec func(t types.Type, prefix string, depth int)
	rec = func(t types.Type, prefix string, depth int) {
		if depth > 8 {
			return
		}
		switch x := t.(type) {
		case *types.Pointer:
			rec(x.Elem(), prefix, depth+1)
			return
		case *types.Slice:
			rec(x.Elem(), prefix+"[*]", depth+1)
			return
		case *types.Named:
			st, ok := x.Underlying().(*types.Struct)
			if !ok {
				return
			}
			for i := 0; i < st.NumFields(); i++ {
				f := st.Field(i)
				p := prefix + "." + f.Name()
				if x.Obj().Name() == typ && f.Name() == field {
					out = append(out, p)
					continue
				}
				rec(f.Type(), p, depth+1)
			}
		}
	}
	rec(root, "", 0)
	sort.Strings(out)
	return out
}

func isConstVal(v ssa.Value) bool {
	_, ok := v.(*ssa.Const)
	return ok
}

func v0name(v ssa.Value) string {
	if _, ok := v.(*ssa.Const); ok {
		return "const"
	}
	return "result"
}

func runC06(c *Ctx) {
	r := c.R
	r.Rule("C06.1", "loopvar: no address of a per-loop variable (module go < 1.22) outlives its iteration", 1)
	r.Rule("C06.2", "feature-table: every 'Added in' field is read by the predicate of its version; feature-less versions never require themselves", 8)
	r.Rule("C06.3", "placements: each predicate reads its feature at spec level and in every device", 6)
	r.Rule("C06.4", "max-and-gate: requiredVersion keeps the maximum over all predicates; ValidateVersion admits exactly known versions >= the minimum", 4)
	r.Rule("C06.5", "version-table: validSpecVersions contains every released version of SPEC.md", 1)

	c06LoopVars(c)
	c.documentUntouched("C06.4")

	// ---- the version map
	g := c.globalVar("specs", "validSpecVersions")
	if g == nil {
		r.Undecided("C06.2", "anchor:validSpecVersions", "", "package variable validSpecVersions not found")
		return
	}
	preds := map[string]*ssa.Function{} // version -> predicate (nil = none)
	var versions []string
	for _, sv := range c.U.StoredValues(g) {
		mm := mapRoot(c, sv)
		if mm == nil || mm.Referrers() == nil {
			continue
		}
		for _, ref := range *mm.Referrers() {
			mu, ok := ref.(*ssa.MapUpdate)
			if !ok {
				continue
			}
			k, ok := ir.ConstString(mu.Key)
			if !ok {
				continue
			}
			versions = append(versions, k)
			fs := c.U.FuncValues(mu.Value)
			if len(fs) == 1 {
				preds[k] = fs[0]
			} else {
				preds[k] = nil
			}
		}
	}
	sort.Strings(versions)
	if len(versions) < 6 {
		r.Undecided("C06.2", "anchor:version-map", c.U.Pos(g.Pos()), fmt.Sprintf("only %d entries decoded from the validSpecVersions literal", len(versions)))
		return
	}
	r.Analysed["C06.versions"] = versions

	specT := c.U.NamedType("specs", "Spec")
	feats := versionFeatures(c)
	if len(feats) < 5 {
		r.Undecided("C06.2", "anchor:added-in-comments", "", fmt.Sprintf("only %d 'Added in vX.Y.Z' field comments found in specs-go (5 confirmed by hand)", len(feats)))
	}
	var fdesc []string
	byVersion := map[string][]feature{}
	for _, f := range feats {
		fdesc = append(fdesc, f.typ+"."+f.field+"@"+f.version)
		byVersion[f.version] = append(byVersion[f.version], f)
	}
	r.Analysed["C06.features_from_comments"] = fdesc

	// reads of a predicate: selector strings of param-rooted paths it reads
	readsOf := func(fn *ssa.Function) map[string]bool {
		out := map[string]bool{}
		if fn == nil || len(fn.Params) == 0 {
			return out
		}
		par := fn.Params[0]
		for _, f := range ir.WithClosures(fn) {
			ir.Instrs(f, func(in ssa.Instruction) {
				var v ssa.Value
				switch x := in.(type) {
				case *ssa.FieldAddr:
					v = x
				case *ssa.Field:
					v = x
				default:
					return
				}
				for _, p := range c.U.PathsOf(v) {
					if rootedAt(p, par) && !p.Trunc {
						out[strings.ReplaceAll(p.SelString(), "[*]", "[*]")] = true
					}
				}
			})
		}
		return out
	}
	for _, f := range feats {
		pred, known := preds[f.version]
		key := fmt.Sprintf("%s.%s@%s", f.typ, f.field, f.version)
		if !known {
			r.Violation("C06.2", "feature:"+key, f.pos, fmt.Sprintf("field %s.%s says 'Added in %s' but validSpecVersions has no such version", f.typ, f.field, f.version))
			continue
		}
		if pred == nil {
			r.Violation("C06.2", "feature:"+key, f.pos, fmt.Sprintf("field %s.%s was added in %s but that version has no predicate: using the field never raises the minimum version", f.typ, f.field, f.version))
			continue
		}
		reads := readsOf(pred)
		pls := placements(specT, f.typ, f.field)
		if len(pls) == 0 {
			r.Undecided("C06.3", "placements:"+key, f.pos, "field not reachable from Spec through the type structure")
			continue
		}
		any := false
		for _, pl := range pls {
			if reads[pl] {
				any = true
			}
		}
		r.Check("C06.2", "feature:"+key, any, c.U.Pos(pred.Pos()), fmt.Sprintf("%s (predicate of %s) reads %s.%s", c.U.RelName(pred), f.version, f.typ, f.field))
		for _, pl := range pls {
			r.Check("C06.3", "placement:"+key+":"+pl, reads[pl], c.U.Pos(pred.Pos()),
				fmt.Sprintf("%s examines spec%s (a use of %s.%s there must raise the minimum version to %s)", c.U.RelName(pred), pl, f.typ, f.field, f.version))
		}
	}
	// non-field features named by the property
	if p := preds["v0.5.0"]; p != nil {
		reads := readsOf(p)
		digit := false
		lo, hi := false, false
		for _, iff := range ir.Ifs(p) {
			d := c.condDesc(iff, 0, nil)
			if strings.Contains(d, "Devices[*].Name[*]") && (strings.Contains(d, "48") || strings.Contains(d, "57")) {
				digit = true
			}
			// exact bounds: '0' <= b and b <= '9', in either spelling
			op, x, y, isCmp := ir.Comparison(iff)
			if !isCmp {
				continue
			}
			if k, isInt := ir.ConstInt(x); isInt && !isConstVal(y) {
				x, y = y, x
				op = map[token.Token]token.Token{token.LSS: token.GTR, token.LEQ: token.GEQ, token.GTR: token.LSS, token.GEQ: token.LEQ, token.EQL: token.EQL, token.NEQ: token.NEQ}[op]
				_ = k
			}
			k, isInt := ir.ConstInt(y)
			if !isInt || !strings.Contains(c.valueDesc(x), "Devices[*].Name[*]") {
				continue
			}
			if (op == token.GEQ && k == '0') || (op == token.GTR && k == '0'-1) {
				lo = true
			}
			if (op == token.LEQ && k == '9') || (op == token.LSS && k == '9'+1) {
				hi = true
			}
		}
		digit = digit && lo && hi
		r.Check("C06.2", "feature:digit-leading-name@v0.5.0", reads[".Devices[*].Name"] && digit, c.U.Pos(p.Pos()), "the v0.5.0 predicate tests the first byte of every device name against '0'..'9'")
	} else {
		r.Violation("C06.2", "feature:digit-leading-name@v0.5.0", "", "no predicate for v0.5.0")
	}
	if p := preds["v0.6.0"]; p != nil {
		reads := readsOf(p)
		dotted := false
		for _, call := range ir.Calls(p) {
			if f := call.Common().StaticCallee(); f != nil && f.String() == "strings.Contains" {
				if s, ok := ir.ConstString(call.Common().Args[1]); ok && s == "." {
					dotted = true
				}
			}
		}
		r.Check("C06.2", "feature:dotted-class@v0.6.0", reads[".Kind"] && dotted, c.U.Pos(p.Pos()), "the v0.6.0 predicate looks for a dot in the class part of the kind")
	} else {
		r.Violation("C06.2", "feature:dotted-class@v0.6.0", "", "no predicate for v0.6.0")
	}
	// device loops in predicates are complete
	for v, p := range preds {
		if p == nil {
			continue
		}
		// a predicate that looks into devices does so in a loop over all of them (a loop whose
		// body always returns is no loop at all in the flow graph: only device 0 is seen)
		readsDevices, hasDevLoop := false, false
		for pl := range readsOf(p) {
			if strings.HasPrefix(pl, ".Devices[*]") {
				readsDevices = true
			}
		}
		for _, l := range ir.Loops(p) {
			if d := c.valueDesc(l.Over); strings.Contains(d, "Devices") {
				hasDevLoop = true
			}
		}
		if readsDevices && !hasDevLoop {
			r.Violation("C06.3", "devices-loop:"+v+":missing", c.U.Pos(p.Pos()), c.U.RelName(p)+" reads fields of spec.Devices[...] but no loop over the devices exists in its flow graph: at most one device is examined")
		}
		for _, l := range ir.Loops(p) {
			d := c.valueDesc(l.Over)
			if strings.HasSuffix(d, ".Devices") || strings.Contains(d, "Devices") {
				r.Check("C06.3", "devices-loop:"+v+":"+c.pos(l.Header.Instrs[len(l.Header.Instrs)-1]), l.Complete, c.pos(l.Header.Instrs[len(l.Header.Instrs)-1]), "the loop over the devices in "+c.U.RelName(p)+" visits every device")
				// what is looked at in a device is looked at in every device: no
				// iteration can finish without passing each kind of field access
				body := l.BodyBlocks()
				byField := map[string][]ssa.Instruction{}
				ir.Instrs(p, func(in ssa.Instruction) {
					fa, ok := in.(*ssa.FieldAddr)
					if !ok || !body[fa.Block()] {
						return
					}
					for _, pp := range c.U.PathsOf(fa) {
						if rootedAt(pp, p.Params[0]) && len(pp.Sels) == 3 && selNames(pp)[:10] == "Devices.*." {
							byField[pp.Sels[2].F.Name()] = append(byField[pp.Sels[2].F.Name()], in)
						}
					}
				})
				for fname, ins := range byField {
					be := l.Body
					esc := ir.CanReach(p, ir.PathQuery{FromEdge: &be, ToAny: func(x ssa.Instruction) bool { return x.Block() == l.Header },
						Stop: func(x ssa.Instruction) bool {
							for _, y := range ins {
								if x == y {
									return true
								}
							}
							return false
						}})
					r.Check("C06.3", "every-device:"+v+":"+fname, !esc, c.pos(ins[0]), fmt.Sprintf("%s looks at %s of every device (no iteration of the device loop can finish without it)", c.U.RelName(p), fname))
				}
			}
		}
		// leaving a loop before its last element is only right with the verdict "required":
		// for every edge out of a loop body that is not the loop's own exit, what is returned
		// from there is true - the constant, or a result variable that was set to true in
		// the iteration that is being left
		for _, l := range ir.Loops(p) {
			body := l.BodyBlocks()
			for b := range body {
				if b == l.Header {
					continue
				}
				for k, succ := range b.Succs {
					if body[succ] || succ == l.Header {
						continue
					}
					e := ir.Edge{From: b, Succ: k}
					for _, ret := range ir.NormalReturns(p) {
						if !ir.CanReach(p, ir.PathQuery{FromEdge: &e, To: ret}) {
							continue
						}
						v := ret.Results[0]
						if phi, isPhi := v.(*ssa.Phi); isPhi && phi.Block() == succ {
							for j, pr := range succ.Preds {
								if pr == b {
									v = phi.Edges[j]
								}
							}
						}
						key := "early-exit-verdict:" + v0name(v) + ":" + c.pos(b.Instrs[len(b.Instrs)-1])
						if cb, isConst := ir.ConstBool(v); isConst {
							if !cb {
								r.Violation("C06.3", key, c.pos(ret), c.U.RelName(p)+" leaves the loop over "+c.valueDesc(l.Over)+" early with the verdict false: elements after the first non-matching one are not examined")
							}
							continue
						}
						if bin, isBin := v.(*ssa.BinOp); isBin && body[bin.Block()] {
							// `return len(x) > 0` inside the loop: whatever the comparison says ends the walk
							switch bin.Op {
							case token.EQL, token.NEQ, token.LSS, token.LEQ, token.GTR, token.GEQ:
								r.Violation("C06.3", key, c.pos(ret), c.U.RelName(p)+" leaves the loop over "+c.valueDesc(l.Over)+" with the outcome of a comparison made on one element ("+bin.String()+"): when it is false the remaining elements are never examined")
							}
							continue
						}
						ld, isLoad := v.(*ssa.UnOp)
						if !isLoad || ld.Op != token.MUL {
							continue
						}
						cell, isCell := ld.X.(*ssa.Alloc)
						if !isCell {
							continue
						}
						setTrue := func(x ssa.Instruction) bool {
							st, ok := x.(*ssa.Store)
							if !ok || st.Addr != ssa.Value(cell) {
								return false
							}
							tv, isConst := ir.ConstBool(st.Val)
							return isConst && tv
						}
						be := l.Body
						last := b.Instrs[len(b.Instrs)-1]
						unset := ir.CanReach(p, ir.PathQuery{FromEdge: &be, To: last, Stop: func(x ssa.Instruction) bool { return setTrue(x) || (x.Block() == l.Header && x != last) }}) &&
							ir.CanReach(p, ir.PathQuery{FromEdge: &e, To: ret, Stop: setTrue})
						r.Check("C06.3", key, !unset, c.pos(last), c.U.RelName(p)+" leaves the loop over "+c.valueDesc(l.Over)+" before its last element only after setting its result to true in that iteration (otherwise the elements after it are never examined and the verdict is false)")
					}
				}
			}
		}
		// a predicate can only say true/false based on what it reads: returns are
		// constants; 'true' returns are fine anywhere, but a 'false' return inside a
		// loop would stop at the first non-matching element
		for _, ret := range ir.NormalReturns(p) {
			b, isConst := ir.ConstBool(ret.Results[0])
			if isConst && !b {
				inLoop := false
				for _, l := range ir.Loops(p) {
					if l.BodyBlocks()[ret.Block()] {
						inLoop = true
					}
				}
				gs := c.guardsOf(p, ret)
				kindOnly := false
				for _, gd := range gs {
					if strings.Contains(gd, "strings.Contains(param:spec.Kind") {
						kindOnly = true
					}
				}
				r.Check("C06.3", "no-early-false:"+v+":"+c.pos(ret), !inLoop, c.pos(ret), "no 'false' verdict is given before all placements were examined")
				_ = kindOnly
			}
		}
	}
	// feature-less versions
	for _, v := range versions {
		if len(byVersion[v]) > 0 || v == "v0.5.0" || v == "v0.6.0" {
			continue
		}
		p := preds[v]
		if p == nil {
			r.OK("C06.2", "featureless:"+v, c.U.Pos(g.Pos()), v+" has no predicate: it is never required by content")
			continue
		}
		ok := true
		for _, ret := range ir.NormalReturns(p) {
			b, isConst := ir.ConstBool(ret.Results[0])
			if !isConst || b {
				ok = false
			}
		}
		r.Check("C06.2", "featureless:"+v, ok, c.U.Pos(p.Pos()), "no field is documented as added in "+v+": its predicate must return the constant false")
	}

	c06MaxAndGate(c, g)

	// ---- C06.5 SPEC.md
	data, err := os.ReadFile(filepath.Join(c.Root, "SPEC.md"))
	if err != nil {
		r.Undecided("C06.5", "anchor:SPEC.md", "", "cannot read SPEC.md: "+err.Error())
		return
	}
	rowRe := regexp.MustCompile(`(?m)^\|\s*(v[0-9]+\.[0-9]+\.[0-9]+)\s*\|`)
	var released []string
	for _, m := range rowRe.FindAllStringSubmatch(string(data), -1) {
		released = append(released, m[1])
	}
	if len(released) < 5 {
		r.Undecided("C06.5", "anchor:released-table", "SPEC.md", fmt.Sprintf("only %d released versions found in the SPEC.md table", len(released)))
		return
	}
	have := map[string]bool{}
	for _, v := range versions {
		have[v] = true
	}
	var missing []string
	for _, v := range released {
		if !have[v] {
			missing = append(missing, v)
		}
	}
	r.Check("C06.5", "released-versions", len(missing) == 0, "SPEC.md", fmt.Sprintf("released versions %v are all keys of validSpecVersions %v (missing: %v)", released, versions, missing))
}

// c06LoopVars: C06.1 — addresses of per-loop variables must not escape in
// packages whose module declares go < 1.22.
func c06LoopVars(c *Ctx) {
	r := c.R
	examined := 0
	for path, p := range c.U.Pkgs {
		if p.Module == nil || !goVersionBefore122(p.Module.GoVersion) {
			continue
		}
		sp := c.U.SSA[path]
		if sp == nil {
			continue
		}
		for _, fn := range c.U.RepoFuncs(path) {
			loops := ir.Loops(fn)
			if len(loops) == 0 {
				continue
			}
			ir.Instrs(fn, func(in ssa.Instruction) {
				a, ok := in.(*ssa.Alloc)
				if !ok || a.Comment == "" || a.Comment == "complit" || a.Comment == "varargs" {
					return
				}
				// written inside a loop body it was not allocated in
				var inLoop *ir.Loop
				for _, l := range loops {
					body := l.BodyBlocks()
					if body[a.Block()] {
						continue
					}
					if a.Referrers() == nil {
						continue
					}
					for _, ref := range *a.Referrers() {
						if st, ok := ref.(*ssa.Store); ok && st.Addr == ssa.Value(a) && body[st.Block()] {
							inLoop = l
						}
					}
				}
				if inLoop == nil {
					return
				}
				examined++
				// does its address (or the address of a field/element of it) flow somewhere that outlives the iteration?
				esc := addressEscapes(a, map[ssa.Value]bool{})
				key := fmt.Sprintf("loopvar:%s:%s", c.U.RelName(fn), a.Comment)
				if esc != nil {
					r.Violation("C06.1", key, c.pos(esc), fmt.Sprintf("the address of loop variable %q (one variable for the whole loop under this module's go %s) is kept beyond the iteration: after the loop every kept pointer refers to the last element", a.Comment, p.Module.GoVersion))
				} else {
					r.OK("C06.1", key, c.pos(a), "address of the loop variable does not outlive the iteration")
				}
			})
		}
	}
	r.Analysed["C06.loop_variables_examined"] = examined
	if examined == 0 {
		r.Undecided("C06.1", "loopvars", "", "no loop variable found in any go<1.22 package: the rule no longer sees the code it was written for")
	}
}

func goVersionBefore122(v string) bool {
	var maj, min int
	if _, err := fmt.Sscanf(v, "%d.%d", &maj, &min); err != nil {
		return false
	}
	return maj == 1 && min < 22
}

// addressEscapes reports an instruction through which the address v (of a
// loop variable or of a part of it) is stored, appended, captured or returned.
func addressEscapes(v ssa.Value, seen map[ssa.Value]bool) ssa.Instruction {
	if seen[v] {
		return nil
	}
	seen[v] = true
	refs := v.Referrers()
	if refs == nil {
		return nil
	}
	for _, ref := range *refs {
		switch x := ref.(type) {
		case *ssa.Store:
			if x.Val == v {
				return x
			}
		case *ssa.FieldAddr:
			if x.X == v {
				if e := addressEscapes(x, seen); e != nil {
					return e
				}
			}
		case *ssa.IndexAddr:
			if x.X == v {
				if e := addressEscapes(x, seen); e != nil {
					return e
				}
			}
		case *ssa.MakeClosure:
			for _, b := range x.Bindings {
				if b == v && closureOutlivesCall(x) {
					return x
				}
			}
		case *ssa.MakeInterface:
			if x.X == v {
				return x
			}
		case *ssa.Return:
			return x
		case *ssa.Phi:
			if e := addressEscapes(x, seen); e != nil {
				return e
			}
		case ssa.CallInstruction:
			// passing the address as a (non-receiver) argument may keep it
			cc := x.Common()
			start := 0
			if !cc.IsInvoke() && cc.StaticCallee() != nil && cc.StaticCallee().Signature.Recv() != nil {
				start = 1
			}
			for i, a := range cc.Args {
				if a == v && i >= start {
					return x.(ssa.Instruction)
				}
			}
		}
	}
	return nil
}

// c06MaxAndGate: C06.4.
func c06MaxAndGate(c *Ctx, table *ssa.Global) {
	r := c.R
	rv := c.fn("C06.4", "specs", "(requiredVersionMap).requiredVersion")
	if rv != nil {
		var loop *ir.Loop
		for _, l := range ir.Loops(rv) {
			d := c.valueDesc(l.Over)
			if d == "global:validSpecVersions" || (len(rv.Params) > 0 && d == "param:"+rv.Params[0].Name()) {
				loop = l
			}
		}
		if loop == nil {
			r.Violation("C06.4", "table-walk", c.U.Pos(rv.Pos()), "requiredVersion does not range over the version table")
		} else {
			r.OK("C06.4", "table-walk", c.U.Pos(rv.Pos()), "requiredVersion ranges over the version table")
			// leaving the loop early is allowed only when the maximum possible was reached (isLatest)
			for _, b := range rv.Blocks {
				if !loop.BodyBlocks()[b] {
					continue
				}
				for k, s := range b.Succs {
					if s == loop.Header || loop.BodyBlocks()[s] {
						continue
					}
					// an exit edge from the body
					iff, ok := b.Instrs[len(b.Instrs)-1].(*ssa.If)
					d := ""
					if ok {
						d = c.condDesc(iff, k, nil)
					}
					r.Check("C06.4", "early-exit", strings.Contains(d, "isLatest"), c.pos(b.Instrs[len(b.Instrs)-1]), "the table walk stops early only when the latest version was already found ("+d+")")
				}
			}
			// the result: phi web of initial constant and loop keys
			for _, ret := range ir.NormalReturns(rv) {
				leaves := phiLeaves(ret.Results[0])
				okInit, okKey := false, true
				for _, lv := range leaves {
					if s, isConst := ir.ConstString(lv); isConst {
						okInit = s == "v0.3.0"
						continue
					}
					if lv != loop.Index {
						okKey = false
					}
				}
				r.Check("C06.4", "result-web", okInit && okKey, c.pos(ret), "the result is the earliest version v0.3.0 or a key of the table")
			}
			// the update is guarded by predicate(spec) and isGreaterThan(key, current)
			for _, b := range rv.Blocks {
				for _, in := range b.Instrs {
					phi, ok := in.(*ssa.Phi)
					if !ok {
						continue
					}
					for k, ed := range phi.Edges {
						if ed != loop.Index {
							continue
						}
						gs := c.edgeGuards(rv, b.Preds[k], b)
						var hasPred, hasGT bool
						var extra []string
						for _, gd := range gs {
							switch {
							case strings.HasPrefix(gd, "dynamic call(") || strings.HasPrefix(gd, "one of {") || (strings.Contains(gd, "requires") && !strings.HasPrefix(gd, "!")):
								hasPred = true
							case strings.HasPrefix(gd, "specs.(version).isGreaterThan(") && strings.Contains(gd, `const:"v0.3.0"`):
								// greater than the running maximum (which starts at v0.3.0)
								hasGT = true
							case strings.HasPrefix(gd, "loop(") || strings.HasPrefix(gd, "nonnil(global:validSpecVersions") || strings.HasPrefix(gd, "!specs.(version).isLatest("):
							default:
								// anything else makes the minimum depend on more than the features used - e.g.
								// on the version the Spec declares
								extra = append(extra, gd)
							}
						}
						r.Check("C06.4", "update-guard", hasPred && hasGT && len(extra) == 0, c.pos(phi), fmt.Sprintf("a version becomes the new maximum exactly if its predicate holds for the spec and it is greater than the current maximum (conditions %v; not allowed: %v)", gs, extra))
					}
				}
			}
		}
	}
	if gt := c.fn("C06.4", "specs", "(version).isGreaterThan"); gt != nil {
		ok := false
		for _, ret := range ir.NormalReturns(gt) {
			d := c.valueDescRaw(ret.Results[0])
			_ = d
			if b, isBin := ret.Results[0].(*ssa.BinOp); isBin && b.Op.String() == ">" {
				if call, isCall := b.X.(*ssa.Call); isCall && call.Call.StaticCallee() != nil && call.Call.StaticCallee().String() == "golang.org/x/mod/semver.Compare" {
					if zero, isInt := ir.ConstInt(b.Y); isInt && zero == 0 {
						a0, a1 := call.Call.Args[0], call.Call.Args[1]
						if cv, ok := a0.(*ssa.ChangeType); ok {
							a0 = cv.X
						}
						if cv, ok := a0.(*ssa.Convert); ok {
							a0 = cv.X
						}
						if cv, ok := a1.(*ssa.ChangeType); ok {
							a1 = cv.X
						}
						if cv, ok := a1.(*ssa.Convert); ok {
							a1 = cv.X
						}
						if a0 == ssa.Value(gt.Params[0]) && a1 == ssa.Value(gt.Params[1]) {
							ok = true
						}
					}
				}
			}
		}
		r.Check("C06.4", "isGreaterThan", ok, c.U.Pos(gt.Pos()), "v.isGreaterThan(o) is semver.Compare(v, o) > 0")
	}
	if vv := c.fn("C06.4", "specs", "ValidateVersion"); vv != nil {
		succ, _ := c.returnsByOutcome(vv)
		ok := len(succ) == 1
		if ok {
			var known, notLower bool
			var extra []string
			for _, gd := range succ[0].guards {
				switch {
				case strings.HasPrefix(gd, "specs.(requiredVersionMap).isValidVersion(") && strings.Contains(gd, "$0.Version"):
					known = true
				case strings.HasPrefix(gd, "!specs.(version).isGreaterThan("):
					notLower = true
				case gd == "nil(err:specs.MinimumRequiredVersion)":
				default:
					extra = append(extra, gd)
				}
			}
			ok = known && notLower && len(extra) == 0
			r.Check("C06.4", "gate", ok, c.pos(succ[0].ret), fmt.Sprintf("ValidateVersion succeeds exactly for a declared version that is in the table and not lower than the minimum required (conditions %v)", succ[0].guards))
		} else {
			r.Violation("C06.4", "gate", c.U.Pos(vv.Pos()), fmt.Sprintf("ValidateVersion has %d success returns (one expected)", len(succ)))
		}
		// the comparison is isGreaterThan(newVersion(min), newVersion(declared))
		for _, call := range c.callsTo(vv, false, "specs", "(version).isGreaterThan") {
			a := c.valueDescRaw(call.Common().Args[0])
			b := c.valueDescRaw(call.Common().Args[1])
			okArgs := strings.HasPrefix(a, "newVersion#0(MinimumRequiredVersion#0") && strings.HasPrefix(b, "newVersion#0(") && strings.Contains(normGuards(vv, []string{b})[0], "$0.Version")
			r.Check("C06.4", "gate-args", okArgs, c.pos(call), "the gate compares min-required > declared (found "+a+" > "+b+")")
		}
	}
	if iv := c.fn("C06.4", "specs", "(requiredVersionMap).isValidVersion"); iv != nil {
		ok := false
		ir.Instrs(iv, func(in ssa.Instruction) {
			if lk, isLk := in.(*ssa.Lookup); isLk && lk.CommaOk {
				d := c.valueDesc(lk.X)
				if d == "global:validSpecVersions" || (len(iv.Params) > 0 && d == "param:"+iv.Params[0].Name()) {
					ok = true
				}
			}
		})
		r.Check("C06.4", "isValidVersion", ok, c.U.Pos(iv.Pos()), "a version is valid iff it is a key of the version table")
	}
	if mr := c.fn("C06.4", "specs", "MinimumRequiredVersion"); mr != nil {
		ok := false
		for _, call := range c.callsTo(mr, false, "specs", "(requiredVersionMap).requiredVersion") {
			if call.Common().Args[1] == ssa.Value(mr.Params[0]) {
				ok = true
			}
		}
		r.Check("C06.4", "MinimumRequiredVersion", ok, c.U.Pos(mr.Pos()), "MinimumRequiredVersion is requiredVersion of the given spec")
	}
	_ = table
}

// closureOutlivesCall: the closure value is stored, returned, deferred or
// started as a goroutine - anything but being handed to an ordinary call,
// which (for the callees used here: filepath.Walk, sort.Slice ...) runs it
// before returning.
func closureOutlivesCall(mc ssa.Value) bool {
	refs := mc.Referrers()
	if refs == nil {
		return false
	}
	for _, ref := range *refs {
		switch x := ref.(type) {
		case *ssa.Call:
			continue
		case *ssa.DebugRef:
			continue
		case *ssa.ChangeType:
			if closureOutlivesCall(x) {
				return true
			}
		default:
			return true
		}
	}
	return false
}
