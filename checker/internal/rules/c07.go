package rules

import (
	"fmt"
	"regexp"
	"sort"
	"strconv"
	"strings"

	"golang.org/x/tools/go/ssa"

	"cdiverif/internal/ir"
)

// C07 — qualified device name grammar is exact, total and round-trips.

func init() {
	register(&Property{
		ID: "C07",
		Explanation: "The parser package is small, first-order string code; its grammar is decided structurally: " +
			"(C07.1) every index and slice expression is in bounds (Go compiler's prove pass as prover, named rules for the residue); " +
			"(C07.2) error contract: every failing return of ParseQualifiedName is (\"\", \"\", input, non-nil error), the succeeding one returns ParseDevice's three parts with a nil error exactly when all three are non-empty and pass their validators; IsQualifiedName is 'error == nil' of it; " +
			"(C07.3) composition and splitting agree: QualifiedName is vendor + \"/\" + class + \"=\" + name, ParseDevice splits at the first \"=\" (SplitN 2) and refuses a leading '/', ParseQualifier splits at the first \"/\", both refuse empty halves; " +
			"(C07.4) character classes by abstract evaluation over integer intervals: the sets of runes accepted by IsLetter/IsDigit/IsAlphaNumeric and by each path through the middle-section loops are computed exactly (path enumeration with interval constraints) and compared with the grammar; the positional structure (first character, single character, middle = s[1:len-1], last character) is read from the decoded conditions of the success returns. " +
			"Together these determine the accepted language for ASCII input; not decided: behaviour of range-over-string on invalid UTF-8 beyond 'decodes to U+FFFD which is in no class'.",
		Assumptions: []string{"strings.SplitN(s, sep, 2) splits at the first occurrence of sep", "range over a string yields U+FFFD for invalid UTF-8 (not in any accepted class)"},
		Run:         runC07,
	})
}

var emptyRe = regexp.MustCompile(`^(.+) == ""$`)
var nonEmptyRe = regexp.MustCompile(`^(.+) != ""$`)
var len0Re = regexp.MustCompile(`^len\((.+)\) (== 0|<= 0|< 1)$`)
var lenN0Re = regexp.MustCompile(`^len\((.+)\) (!= 0|> 0|>= 1)$`)
var lenM1NegRe = regexp.MustCompile(`^\(len\((.+)\) - 1\) < 0$`)
var lenM1PosRe = regexp.MustCompile(`^\(len\((.+)\) - 1\) >= 0$`)

// normExpr rewrites parameter names to positional form and emptiness idioms
// to a canonical one.
func normExpr(fn *ssa.Function, gs []string) []string {
	var out []string
	for _, g := range gs {
		for i, p := range fn.Params {
			re := regexp.MustCompile(`\$` + regexp.QuoteMeta(p.Name()) + `\b`)
			g = re.ReplaceAllString(g, fmt.Sprintf("$$%d", i))
		}
		g = canonCut(g)
		switch {
		case emptyRe.MatchString(g):
			g = "empty(" + emptyRe.FindStringSubmatch(g)[1] + ")"
		case nonEmptyRe.MatchString(g):
			g = "nonempty(" + nonEmptyRe.FindStringSubmatch(g)[1] + ")"
		case len0Re.MatchString(g):
			g = "empty(" + len0Re.FindStringSubmatch(g)[1] + ")"
		case lenN0Re.MatchString(g):
			g = "nonempty(" + lenN0Re.FindStringSubmatch(g)[1] + ")"
		case lenM1NegRe.MatchString(g):
			g = "empty(" + lenM1NegRe.FindStringSubmatch(g)[1] + ")"
		case lenM1PosRe.MatchString(g):
			g = "nonempty(" + lenM1PosRe.FindStringSubmatch(g)[1] + ")"
		}
		out = append(out, g)
	}
	sort.Strings(out)
	return out
}

// canonCut rewrites the results of strings.Cut(s, sep) to the equivalent
// strings.SplitN(s, sep, 2) expressions (before = [0], after = [1], found =
// "two parts"), so that either spelling of "split at the first separator"
// reads the same.
func canonCut(g string) string {
	const head = "strings.Cut("
	for guard := 0; guard < 20; guard++ {
		i := strings.Index(g, head)
		if i < 0 {
			return g
		}
		// matching parenthesis and the top-level comma
		depth, comma, end := 0, -1, -1
		inStr := false
		for j := i + len(head) - 1; j < len(g); j++ {
			ch := g[j]
			if ch == '"' && (j == 0 || g[j-1] != '\\') {
				inStr = !inStr
			}
			if inStr {
				continue
			}
			switch ch {
			case '(':
				depth++
			case ')':
				depth--
				if depth == 0 {
					end = j
				}
			case ',':
				if depth == 1 && comma < 0 {
					comma = j
				}
			}
			if end >= 0 {
				break
			}
		}
		if end < 0 || comma < 0 || end+2 >= len(g)+1 || !strings.HasPrefix(g[end+1:], "#") {
			return g
		}
		split := "strings.SplitN(" + g[i+len(head):comma] + "," + g[comma+1:end] + ",2)"
		rest := g[end+3:]
		pre := g[:i]
		switch g[end+2] {
		case '0':
			g = pre + split + "[0]" + rest
		case '1':
			g = pre + split + "[1]" + rest
		case '2':
			if strings.HasSuffix(pre, "!") {
				g = strings.TrimSuffix(pre, "!") + "len(" + split + ") != 2" + rest
			} else {
				g = pre + "len(" + split + ") == 2" + rest
			}
		default:
			return g
		}
	}
	return g
}

type exprRet struct {
	ret     *ssa.Return
	guards  []string
	results []string
}

func (c *Ctx) exprReturns(fn *ssa.Function) []exprRet {
	var out []exprRet
	for _, ret := range ir.NormalReturns(fn) {
		er := exprRet{ret: ret, guards: normExpr(fn, c.exprGuardsOf(fn, ret))}
		for i := range ret.Results {
			er.results = append(er.results, normExpr(fn, []string{c.exprDesc(ir.ReturnResult(ret, i))})[0])
		}
		out = append(out, er)
	}
	return out
}

// exprReturnsSplit is exprReturns with a return that several branches jump to (a block holding
// nothing but phis and the return) reported once per incoming edge, with the conditions of
// that edge and the phi operands of that edge as results: `return nil` written once at the end
// of a function and `return nil` written in each branch read the same.
func (c *Ctx) exprReturnsSplit(fn *ssa.Function) []exprRet {
	var out []exprRet
	for _, ret := range ir.NormalReturns(fn) {
		b := ret.Block()
		onlyPhis := true
		for _, in := range b.Instrs[:len(b.Instrs)-1] {
			if _, isPhi := in.(*ssa.Phi); !isPhi {
				onlyPhis = false
			}
		}
		if len(b.Preds) < 2 || !onlyPhis {
			er := exprRet{ret: ret, guards: normExpr(fn, c.exprGuardsOf(fn, ret))}
			for i := range ret.Results {
				er.results = append(er.results, normExpr(fn, []string{c.exprDesc(ir.ReturnResult(ret, i))})[0])
			}
			out = append(out, er)
			continue
		}
		for pi, p := range b.Preds {
			er := exprRet{ret: ret, guards: normExpr(fn, c.edgeGuardsExpr(fn, p, b))}
			for i := range ret.Results {
				v := ir.ReturnResult(ret, i)
				if phi, isPhi := v.(*ssa.Phi); isPhi && phi.Block() == b {
					v = phi.Edges[pi]
				}
				er.results = append(er.results, normExpr(fn, []string{c.exprDesc(v)})[0])
			}
			out = append(out, er)
		}
	}
	return out
}

// successPaths lists, for every acyclic path from the entry to a return of a nil error,
// the conditions of the branches taken (a loop left through its exit contributes
// loopdone(...)): the path-sensitive reading of "under which conditions does fn succeed".
func (c *Ctx) successPaths(fn *ssa.Function) []exprRet {
	var out []exprRet
	loops := ir.Loops(fn)
	ei := ir.ErrorResultIndex(fn.Signature)
	seen := map[string]bool{}
	var path []*ssa.BasicBlock
	on := map[*ssa.BasicBlock]bool{}
	var conds []string
	n := 0
	var rec func(b *ssa.BasicBlock)
	rec = func(b *ssa.BasicBlock) {
		if on[b] || n > 20000 {
			return
		}
		n++
		on[b] = true
		path = append(path, b)
		defer func() { on[b] = false; path = path[:len(path)-1] }()
		switch t := b.Instrs[len(b.Instrs)-1].(type) {
		case *ssa.Return:
			if ei < 0 {
				return
			}
			v := ir.ReturnResult(t, ei)
			// the value on this path
			for {
				phi, ok := v.(*ssa.Phi)
				if !ok {
					break
				}
				k := -1
				for i := len(path) - 1; i > 0; i-- {
					if path[i] == phi.Block() {
						for j, p := range phi.Block().Preds {
							if p == path[i-1] {
								k = j
							}
						}
						break
					}
				}
				if k < 0 {
					break
				}
				v = phi.Edges[k]
			}
			if !ir.IsNilConst(v) {
				return
			}
			gs := normExpr(fn, append([]string{}, conds...))
			sort.Strings(gs)
			var uniq []string
			for i, g := range gs {
				if i == 0 || g != gs[i-1] {
					uniq = append(uniq, g)
				}
			}
			key := strings.Join(uniq, "\x00") + c.pos(t)
			if !seen[key] {
				seen[key] = true
				out = append(out, exprRet{ret: t, guards: uniq, results: []string{"nil"}})
			}
		case *ssa.If:
			if b.Succs[0] == b.Succs[1] {
				rec(b.Succs[0])
				return
			}
			for k := 0; k < 2; k++ {
				conds = append(conds, c.exprCond(t, k, loops))
				rec(b.Succs[k])
				conds = conds[:len(conds)-1]
			}
		default:
			for _, s := range b.Succs {
				rec(s)
			}
		}
	}
	if len(fn.Blocks) > 0 {
		rec(fn.Blocks[0])
	}
	return out
}

func runC07(c *Ctx) {
	r := c.R
	r.Rule("C07.1", "bounds: every index/slice expression of pkg/parser is proven in range", 1)
	r.Rule("C07.2", "error-contract: failing returns are (\"\",\"\",input,err); success returns the three parts exactly when all validators pass", 8)
	r.Rule("C07.3", "separators: composition and splitting use the same separators, first occurrence, non-empty halves", 5)
	r.Rule("C07.4", "character-classes: accepted rune sets and positional structure equal the grammar", 8)

	// ---- C07.1
	boundsCheck(c, "C07.1", []string{"parser"})

	// ---- C07.2
	pq := c.fn("C07.2", "parser", "ParseQualifiedName")
	if pq != nil {
		wantGuards := []string{
			"ValidateClassName(ParseDevice($0)#1) == nil", "ValidateDeviceName(ParseDevice($0)#2) == nil", "ValidateVendorName(ParseDevice($0)#0) == nil",
			"nonempty(ParseDevice($0)#0)", "nonempty(ParseDevice($0)#1)", "nonempty(ParseDevice($0)#2)",
		}
		sort.Strings(wantGuards)
		nSucc := 0
		for _, er := range c.exprReturns(pq) {
			if er.results[3] == "nil" {
				nSucc++
				okRes := er.results[0] == "ParseDevice($0)#0" && er.results[1] == "ParseDevice($0)#1" && er.results[2] == "ParseDevice($0)#2"
				r.Check("C07.2", "success-results", okRes, c.pos(er.ret), fmt.Sprintf("on success the three parts of ParseDevice are returned (found %v)", er.results[:3]))
				r.Check("C07.2", "success-conditions", sameSet(er.guards, wantGuards), c.pos(er.ret), fmt.Sprintf("success exactly when all parts are non-empty and valid (found %v)", er.guards))
				continue
			}
			ok := er.results[0] == `""` && er.results[1] == `""` && er.results[2] == "$0" && strings.HasPrefix(er.results[3], "fmt.Errorf(")
			r.Check("C07.2", "failure-shape:"+strings.Join(er.guards, "&"), ok, c.pos(er.ret), fmt.Sprintf("a failing return is (\"\", \"\", input, error) (found %v)", er.results))
		}
		r.Check("C07.2", "success-count", nSucc == 1, c.U.Pos(pq.Pos()), fmt.Sprintf("%d success returns (one expected)", nSucc))
	}
	if iq := c.fn("C07.2", "parser", "IsQualifiedName"); iq != nil {
		ers := c.exprReturns(iq)
		ok := len(ers) == 1 && ers[0].results[0] == "(ParseQualifiedName($0)#3 == nil)"
		r.Check("C07.2", "IsQualifiedName", ok, c.U.Pos(iq.Pos()), "IsQualifiedName(d) is ParseQualifiedName(d) succeeding")
	}
	for _, v := range []struct{ fn, inner string }{{"ValidateVendorName", "validateVendorOrClassName"}, {"ValidateClassName", "validateVendorOrClassName"}} {
		fn := c.fn("C07.2", "parser", v.fn)
		if fn == nil {
			continue
		}
		calls := c.callsTo(fn, false, "parser", v.inner)
		ok := len(calls) == 1 && calls[0].Common().Args[0] == ssa.Value(fn.Params[0])
		msg := ""
		if ok {
			msg = c.errflow(fn, calls[0])
			// nil in -> nil out
			for _, ret := range ir.NormalReturns(fn) {
				underNil := false
				for _, g := range c.guardsOf(fn, ret) {
					if strings.HasPrefix(g, "nil(err:") && strings.HasSuffix(g, v.inner+")") {
						underNil = true
					}
				}
				for _, lv := range phiLeaves(ir.ReturnResult(ret, 0)) {
					switch {
					case lv == calls[0].Value():
					case ir.DefiniteNil(lv) == ir.NonNil:
					case ir.DefiniteNil(lv) == ir.IsNil && underNil:
						// `return nil` on the branch where the inner validator returned nil
					default:
						ok = false
					}
				}
			}
		}
		r.Check("C07.2", "wrapper:"+v.fn, ok && msg == "", c.U.Pos(fn.Pos()), v.fn+" is "+v.inner+" of its argument with the error wrapped (nil stays nil)"+ifMsg(msg))
	}

	// ---- C07.3
	if q := c.fn("C07.3", "parser", "QualifiedName"); q != nil {
		ers := c.exprReturns(q)
		ok := len(ers) == 1 && ers[0].results[0] == `(((($0 + "/") + $1) + "=") + $2)`
		got := ""
		if len(ers) == 1 {
			got = ers[0].results[0]
		}
		r.Check("C07.3", "compose", ok, c.U.Pos(q.Pos()), "QualifiedName = vendor + \"/\" + class + \"=\" + name (found "+got+")")
	}
	if pd := c.fn("C07.3", "parser", "ParseDevice"); pd != nil {
		split := `strings.SplitN($0,"=",2)`
		want := []string{"$0[0] != 47", "len(" + split + ") == 2", "nonempty($0)", "nonempty(" + split + "[0])", "nonempty(" + split + "[1])", "nonempty(ParseQualifier(" + split + "[0])#0)"}
		sort.Strings(want)
		n := 0
		for _, er := range c.exprReturns(pd) {
			if er.results[0] == `""` {
				r.Check("C07.3", "ParseDevice-failure:"+strings.Join(er.guards, "&"), er.results[1] == `""` && er.results[2] == "$0", c.pos(er.ret), "failure returns (\"\", \"\", input)")
				continue
			}
			n++
			okRes := er.results[0] == "ParseQualifier("+split+"[0])#0" && er.results[1] == "ParseQualifier("+split+"[0])#1" && er.results[2] == split+"[1]"
			r.Check("C07.3", "ParseDevice-success", okRes && sameSet(er.guards, want), c.pos(er.ret), fmt.Sprintf("split at the first '=', qualifier from the left half, name = right half; conditions %v; results %v", er.guards, er.results))
		}
		r.Check("C07.3", "ParseDevice-success-count", n == 1, c.U.Pos(pd.Pos()), fmt.Sprintf("%d success returns", n))
	}
	if pqf := c.fn("C07.3", "parser", "ParseQualifier"); pqf != nil {
		split := `strings.SplitN($0,"/",2)`
		want := []string{"len(" + split + ") == 2", "nonempty(" + split + "[0])", "nonempty(" + split + "[1])"}
		sort.Strings(want)
		n := 0
		for _, er := range c.exprReturns(pqf) {
			if er.results[0] == `""` {
				r.Check("C07.3", "ParseQualifier-failure", er.results[1] == "$0", c.pos(er.ret), "failure returns (\"\", input)")
				continue
			}
			n++
			okRes := er.results[0] == split+"[0]" && er.results[1] == split+"[1]"
			r.Check("C07.3", "ParseQualifier-success", okRes && sameSet(er.guards, want), c.pos(er.ret), fmt.Sprintf("split at the first '/', both halves non-empty; conditions %v; results %v", er.guards, er.results))
		}
		r.Check("C07.3", "ParseQualifier-success-count", n == 1, c.U.Pos(pqf.Pos()), fmt.Sprintf("%d success returns", n))
	}

	// ---- C07.4
	classes := map[string]string{"IsLetter": "A-Z,a-z", "IsDigit": "0-9", "IsAlphaNumeric": "A-Z,a-z,0-9"}
	for name, spec := range classes {
		fn := c.fn("C07.4", "parser", name)
		if fn == nil {
			continue
		}
		got, ok := c.acceptedRunes(fn, 0)
		if !ok {
			r.Undecided("C07.4", "class:"+name, c.U.Pos(fn.Pos()), name+" is not a pure comparison function of its rune argument any more")
			continue
		}
		r.Check("C07.4", "class:"+name, got.equal(runesOf(spec)), c.U.Pos(fn.Pos()), fmt.Sprintf("%s accepts exactly %s (found %s)", name, runesOf(spec), got))
	}
	type nameV struct {
		fn, first, middle string
	}
	for _, nv := range []nameV{
		{"validateVendorOrClassName", "IsLetter", "A-Z,a-z,0-9,_,-,."},
		{"ValidateDeviceName", "IsAlphaNumeric", "A-Z,a-z,0-9,_,-,.,:"},
	} {
		fn := c.fn("C07.4", "parser", nv.fn)
		if fn == nil {
			continue
		}
		// Every success path is read as: which lengths it admits (1, 2, 3-or-more), what it
		// demands of the first and of the last character, whether it has been through the
		// complete loop over the inner section. Per length class the demands must be exactly
		// the grammar's; all three classes must be admitted by some success path.
		firstSet, lastSet := runesOf(classes[nv.first]), runesOf(classes["IsAlphaNumeric"])
		lenRe := regexp.MustCompile(`^len\(\$0\) (==|!=|<|<=|>|>=) (\d+)$`)
		clsRe := regexp.MustCompile(`^(!?)(IsLetter|IsDigit|IsAlphaNumeric)\(rune\(\$0\[(0|\(len\(\$0\) - 1\))\]\)\)$`)
		covered := map[int]bool{}
		for _, er := range c.successPaths(fn) {
			lens := map[int]bool{1: true, 2: true, 3: true}
			first, last, inner, unknown := fullRunes(), fullRunes(), false, ""
			for _, g := range er.guards {
				// `last := len(name) - 1` used in a length test: (len - 1) OP k is len OP k+1
				if m := regexp.MustCompile(`^\(len\(\$0\) - 1\) (==|!=|<|<=|>|>=) (\d+)$`).FindStringSubmatch(g); m != nil {
					k, _ := strconv.Atoi(m[2])
					g = fmt.Sprintf("len($0) %s %d", m[1], k+1)
				}
				switch {
				case g == "nonempty($0)":
				case g == "loopdone($0[1:(len($0) - 1)])":
					inner = true
				case lenRe.MatchString(g):
					m := lenRe.FindStringSubmatch(g)
					k, _ := strconv.Atoi(m[2])
					holds := func(n int) bool { // n = 3 stands for every length >= 3
						switch m[1] {
						case "==":
							return n == k
						case "!=":
							return n != k
						case "<":
							return n < k
						case "<=":
							return n <= k
						case ">":
							return n > k
						}
						return n >= k
					}
					if k > 3 || (k == 3 && (m[1] == "==" || m[1] == "!=" || m[1] == ">" || m[1] == "<=")) {
						unknown = g // tells lengths of three or more apart
					}
					for n := range lens {
						if !holds(n) {
							delete(lens, n)
						}
					}
				case clsRe.MatchString(g):
					m := clsRe.FindStringSubmatch(g)
					set := runesOf(classes[m[2]])
					if m[1] == "!" {
						set = set.complement()
					}
					if m[3] == "0" {
						first = first.intersect(set)
					} else {
						last = last.intersect(set)
					}
				default:
					unknown = g
				}
			}
			ok := unknown == "" && len(lens) > 0
			for n := range lens {
				switch n {
				case 1: // one character: it is the first and the last
					ok = ok && first.intersect(last).equal(firstSet.intersect(lastSet))
				case 2:
					ok = ok && first.equal(firstSet) && last.equal(lastSet)
				case 3:
					ok = ok && first.equal(firstSet) && last.equal(lastSet) && inner
				}
			}
			if !ok {
				r.Violation("C07.4", "structure:"+nv.fn+":unexpected-success", c.pos(er.ret), fmt.Sprintf("%s accepts under %v; the grammar allows only a single %s character, or %s first, the middle class, and a letter or digit last", nv.fn, er.guards, nv.first, nv.first))
				continue
			}
			for n := range lens {
				covered[n] = true
			}
		}
		r.Check("C07.4", "structure:"+nv.fn+":single", covered[1], c.U.Pos(fn.Pos()), fmt.Sprintf("a single character is accepted iff %s", nv.first))
		r.Check("C07.4", "structure:"+nv.fn+":general", covered[2] && covered[3], c.U.Pos(fn.Pos()), fmt.Sprintf("longer names: %s first, a letter or digit last, the inner section through the complete loop", nv.first))
		// middle class
		var loop *ir.Loop
		for _, l := range ir.Loops(fn) {
			if normExpr(fn, []string{c.exprDesc(l.Over)})[0] == "$0[1:(len($0) - 1)]" {
				loop = l
			}
		}
		if loop == nil || loop.Elem == nil {
			r.Violation("C07.4", "middle:"+nv.fn, c.U.Pos(fn.Pos()), nv.fn+" has no loop over the middle section name[1:len(name)-1]")
			continue
		}
		acc, rej, ok := c.loopRuneSets(fn, loop)
		if !ok {
			r.Undecided("C07.4", "middle:"+nv.fn, c.U.Pos(fn.Pos()), "the middle-section loop is not made of comparisons and class calls on the loop's rune")
			continue
		}
		want := runesOf(nv.middle)
		r.Check("C07.4", "middle:"+nv.fn, acc.equal(want) && rej.equal(want.complement()), c.U.Pos(fn.Pos()),
			fmt.Sprintf("characters accepted in the middle are exactly %s (accepted %s; rejected is the complement: %v)", want, acc, rej.equal(acc.complement())))
	}
}

// loopRuneSets classifies the values of the loop's element by what one
// iteration does: accepted = the body reaches the next iteration, rejected =
// the function returns (an error) from inside the body.
func (c *Ctx) loopRuneSets(fn *ssa.Function, l *ir.Loop) (acc, rej runeSet, ok bool) {
	ok = true
	x := l.Elem
	var path ir.BlockPath
	used := map[ir.Edge]bool{}
	var rec func(b *ssa.BasicBlock, set runeSet)
	rec = func(b *ssa.BasicBlock, set runeSet) {
		if len(set) == 0 || !ok {
			return
		}
		if b == l.Header {
			acc = acc.union(set)
			return
		}
		path = append(path, b)
		defer func() { path = path[:len(path)-1] }()
		last := b.Instrs[len(b.Instrs)-1]
		switch t := last.(type) {
		case *ssa.Return:
			rej = rej.union(set)
			return
		case *ssa.If:
			if b.Succs[0] != b.Succs[1] {
				for k := 0; k < 2; k++ {
					e := ir.Edge{From: b, Succ: k}
					if used[e] {
						continue
					}
					s, understood := c.constraintOn(x, t.Cond, k == 0, path, 0)
					if !understood {
						ok = false
						return
					}
					used[e] = true
					rec(b.Succs[k], set.intersect(s))
					delete(used, e)
				}
				return
			}
		}
		for k, s := range b.Succs {
			e := ir.Edge{From: b, Succ: k}
			if used[e] {
				continue
			}
			used[e] = true
			rec(s, set)
			delete(used, e)
		}
	}
	path = append(path, l.Header)
	rec(l.Body.To(), fullRunes())
	return acc.norm(), rej.norm(), ok
}
