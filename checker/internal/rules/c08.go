package rules

import (
	"fmt"
	"go/token"
	"go/types"
	"sort"
	"strings"

	"golang.org/x/tools/go/ssa"

	"cdiverif/internal/ir"
)

// C08 — no untrusted input can crash the library.

func init() {
	register(&Property{
		ID: "C08",
		Explanation: "An inventory of every construct in the repository's own library code (pkg/parser, pkg/cdi, specs-go, internal/validation{,/k8s}, schema) that can panic or fail to terminate, each discharged by a rule or reported: " +
			"K1 index/slice bounds (Go compiler's prove pass + named residue rules); K2 dereference of pointers that come out of the decoder (elements of []*T lists, pointer fields of specs-go structs) in code that runs before validation needs a dominating nil test; " +
			"K3 type assertions without comma-ok; K4 explicit panic / os.Exit / log.Fatal; K5 stores into a map parameter need a nil guard; K6 calls through function or interface values loaded from package-level variables or maps need a nil guard; " +
			"K7 division, shifts by variables, make with computed sizes; K8 every loop is an element/counted loop over a finite collection (or the allow-listed event loop of the watcher, which blocks in select) and the repository's call graph has no recursion. " +
			"Not decided: panics or non-termination inside dependencies (yaml, gojsonschema, fsnotify, the OCI generator); resource exhaustion; stack depth.",
		Assumptions: []string{"dependencies do not panic on the values the library passes them", "Specs reaching Apply/toOCI were validated (null list entries rejected: C05.4)"},
		Run:         runC08,
		OtherGOOS:   []string{"darwin", "windows"},
	})
}

var libPkgs = []string{"parser", "cdi", "specs", "validation", "k8s", "schema"}

func runC08(c *Ctx) {
	r := c.R
	r.Rule("C08.K1", "bounds: every index/slice expression of the library packages is proven in range", 1)
	r.Rule("C08.K2", "nil-deref: decoded pointers are dereferenced before validation only under a nil test", 4)
	r.Rule("C08.K3", "type-assert: no single-result type assertion in library code", 1)
	r.Rule("C08.K4", "explicit-panic: no panic / os.Exit / log.Fatal in library code", 1)
	r.Rule("C08.K5", "nil-map-store: stores into a map held in a parameter are nil-guarded", 1)
	r.Rule("C08.K6", "nil-call: calls through function/interface values from globals or maps are nil-guarded", 2)
	r.Rule("C08.K7", "arith: no division/shift by a variable, no make with an unchecked size", 1)
	r.Rule("C08.K8", "termination: loops range over finite collections, no recursion", 2)
	// Apply/toOCI dereference every list entry of a loaded Spec: what makes that safe is
	// that loading rejects null entries
	nilElementsRejected(c, "C08.K2", "validated-elements:")
	// the background goroutine ends only when it was told to (its channels were closed)
	if ws := analyseWatch(c, "C08.K4"); ws != nil {
		watchExitsOnlyWhenClosed(c, ws, "C08.K4", "goroutine-exit-only-when-closed")
	}

	boundsCheck(c, "C08.K1", libPkgs)

	var fns []*ssa.Function
	for _, p := range libPkgs {
		fns = append(fns, c.U.RepoFuncs(p)...)
	}
	r.Analysed["C08.library_functions"] = len(fns)

	// ---- K2
	var roots []*ssa.Function
	for _, n := range [][2]string{{"cdi", "ReadSpec"}, {"cdi", "ParseSpec"}, {"cdi", "newSpec"}, {"cdi", "(*Cache).WriteSpec"}, {"cdi", "(*Spec).write"},
		{"specs", "ValidateVersion"}, {"specs", "MinimumRequiredVersion"}, {"cdi", "MinimumRequiredVersion"},
		{"cdi", "GenerateNameForSpec"}, {"cdi", "GenerateNameForTransientSpec"}} {
		if f := c.U.Func(n[0], n[1]); f != nil {
			roots = append(roots, f)
		}
	}
	pre := c.U.Reach(roots, func(f *ssa.Function) bool {
		p := c.U.FuncPkgPath(f)
		return p == ir.PkgAlias["cdi"] || p == ir.PkgAlias["specs"] || p == ir.PkgAlias["validation"] || p == ir.PkgAlias["k8s"] || p == ir.PkgAlias["parser"]
	})
	var preNames []string
	for f := range pre {
		preNames = append(preNames, c.U.ShortName(f))
	}
	sort.Strings(preNames)
	r.Analysed["C08.pre_validation_functions"] = preNames
	nDeref := 0
	for f := range pre {
		ir.Instrs(f, func(in ssa.Instruction) {
			var base ssa.Value
			switch x := in.(type) {
			case *ssa.FieldAddr:
				base = x.X
			case *ssa.UnOp:
				if x.Op == token.MUL {
					if _, isPtrToStruct := x.X.Type().Underlying().(*types.Pointer); isPtrToStruct {
						if _, isStruct := x.X.Type().Underlying().(*types.Pointer).Elem().Underlying().(*types.Struct); isStruct {
							base = x.X
						}
					}
				}
			}
			if base == nil || !c.decodedPointer(base) {
				return
			}
			nDeref++
			d := c.valueDesc(base)
			guarded := false
			for _, g := range c.guardsOf(f, in) {
				if g == "nonnil("+d+")" {
					guarded = true
				}
			}
			key := fmt.Sprintf("deref:%s:%s", c.U.RelName(f), normGuards(f, []string{d})[0])
			if guarded {
				r.OK("C08.K2", key, c.pos(in), "dereference of "+d+" is dominated by a nil test")
			} else {
				r.Violation("C08.K2", key, c.pos(in), fmt.Sprintf("%s dereferences %s, which is nil for a null entry in the Spec file, without a nil test (runs before validation rejects such entries): panic on untrusted input", c.U.RelName(f), d))
			}
		})
	}
	// wrappers: a decoded pointer put into a cdi wrapper (DeviceNode{d}, Hook{h}, ...) and
	// handed to a method is dereferenced by that method: the call needs the nil test
	for f := range pre {
		for _, call := range ir.Calls(f) {
			callee := c.U.StaticCallee(call)
			if callee == nil || callee.Signature.Recv() == nil || len(call.Common().Args) == 0 {
				continue
			}
			recv := call.Common().Args[0]
			wt := ir.NamedOf(recv.Type())
			if wt == nil || wt.Obj().Pkg() == nil || wt.Obj().Pkg().Path() != ir.PkgAlias["cdi"] {
				continue
			}
			st := ir.StructOf(wt)
			if st == nil || st.NumFields() == 0 || !st.Field(0).Embedded() {
				continue
			}
			if _, isPtr := st.Field(0).Type().Underlying().(*types.Pointer); !isPtr {
				continue
			}
			for _, p := range c.U.Extend(c.U.PathsOf(recv), st.Field(0)) {
				if p.Kind() != ir.RootParam || len(p.Sels) == 0 {
					continue
				}
				last := p.Sels[len(p.Sels)-1]
				nilable := last.F == nil
				if last.F != nil && fieldDeclaredIn(last.F, "specs") {
					if _, isPtr := last.F.Type().Underlying().(*types.Pointer); isPtr {
						nilable = true
					}
				}
				if !nilable {
					continue
				}
				nDeref++
				d := p.String()
				guarded := false
				for _, g := range c.guardsOf(f, call.(ssa.Instruction)) {
					if g == "nonnil("+d+")" {
						guarded = true
					}
				}
				key := fmt.Sprintf("wrapped-deref:%s:%s:%s", c.U.RelName(f), c.U.RelName(callee), normGuards(f, []string{d})[0])
				if guarded {
					r.OK("C08.K2", key, c.pos(call), c.U.RelName(callee)+" is called on a wrapper around "+d+" only when that pointer is non-nil")
				} else {
					r.Violation("C08.K2", key, c.pos(call), fmt.Sprintf("%s calls %s on a wrapper around %s, which is nil for a null entry in the Spec file: the method dereferences it (panic on untrusted input)", c.U.RelName(f), c.U.RelName(callee), d))
				}
			}
		}
	}
	// the decoder's root result: a document that is just 'null' decodes to a nil *Spec
	nDeref += c.decoderRootGuarded("C08.K2", fns)
	nDeref += c.ociSectionsGuarded("C08.K2", fns)
	r.Analysed["C08.K2.derefs_examined"] = nDeref

	// ---- K3, K4, K7
	nTA, nPanic, nArith := 0, 0, 0
	for _, f := range fns {
		ir.Instrs(f, func(in ssa.Instruction) {
			switch x := in.(type) {
			case *ssa.TypeAssert:
				nTA++
				if !x.CommaOk {
					r.Violation("C08.K3", "assert:"+c.U.RelName(f)+":"+x.AssertedType.String(), c.pos(in), "type assertion without comma-ok on "+c.valueDesc(x.X)+": panics when the dynamic type differs")
				}
			case *ssa.Panic:
				if mi, ok := x.X.(*ssa.MakeInterface); ok {
					if sv, ok := ir.ConstString(mi.X); ok && strings.Contains(sv, "blocking select matched no case") {
						return // compiler-generated arm of a blocking select, unreachable
					}
				}
				nPanic++
				r.Violation("C08.K4", "panic:"+c.U.RelName(f), c.pos(in), "explicit panic in library code")
			case ssa.CallInstruction:
				if sc := x.Common().StaticCallee(); sc != nil {
					switch sc.String() {
					case "os.Exit", "log.Fatal", "log.Fatalf", "log.Fatalln", "log.Panic", "log.Panicf", "log.Panicln", "runtime.Goexit":
						nPanic++
						r.Violation("C08.K4", "exit:"+c.U.RelName(f)+":"+sc.String(), c.pos(in), sc.String()+" in library code ends the process")
					}
				}
			case *ssa.BinOp:
				switch x.Op {
				case token.QUO, token.REM:
					if _, isConst := x.Y.(*ssa.Const); !isConst {
						if b, ok := x.X.Type().Underlying().(*types.Basic); ok && b.Info()&types.IsInteger != 0 {
							nArith++
							r.Violation("C08.K7", "div:"+c.U.RelName(f), c.pos(in), "integer division by a variable")
						}
					}
				case token.SHL, token.SHR:
					if _, isConst := x.Y.(*ssa.Const); !isConst {
						if b, ok := x.Y.Type().Underlying().(*types.Basic); ok && b.Info()&types.IsUnsigned == 0 {
							nArith++
							r.Violation("C08.K7", "shift:"+c.U.RelName(f), c.pos(in), "shift by a signed variable")
						}
					}
				}
			case *ssa.MakeSlice:
				var okLen func(v ssa.Value) bool
				okLen = func(v ssa.Value) bool {
					if k, isConst := v.(*ssa.Const); isConst {
						if i, isInt := ir.ConstInt(k); isInt && i < 0 {
							return false
						}
						return true
					}
					if call, ok := v.(*ssa.Call); ok && (ir.BuiltinName(call) == "len" || ir.BuiltinName(call) == "cap") {
						return true
					}
					// len(x)+1, len(x)+len(y): sums of such terms are non-negative too
					if b, ok := v.(*ssa.BinOp); ok && b.Op == token.ADD {
						return okLen(b.X) && okLen(b.Y)
					}
					return false
				}
				if !okLen(x.Len) || !okLen(x.Cap) {
					nArith++
					r.Violation("C08.K7", "make:"+c.U.RelName(f), c.pos(in), "make with a size that is neither a constant nor a len()")
				}
			}
		})
	}
	r.OK("C08.K3", "assertions-examined", "", fmt.Sprintf("%d type assertions examined, all in comma-ok / type-switch form", nTA))
	if nPanic == 0 {
		r.OK("C08.K4", "none", "", fmt.Sprintf("no panic/exit construct in %d library functions", len(fns)))
	}
	if nArith == 0 {
		r.OK("C08.K7", "none", "", "no division or shift by a variable, no make with a computed size")
	}

	// ---- K5
	nMU := 0
	for _, f := range fns {
		if f.Parent() != nil || f.Object() == nil || !f.Object().Exported() {
			continue
		}
		ir.Instrs(f, func(in ssa.Instruction) {
			mu, ok := in.(*ssa.MapUpdate)
			if !ok {
				return
			}
			// leaves of the map value
			for _, lv := range phiLeavesWithPred(mu.Map) {
				par, isPar := lv.val.(*ssa.Parameter)
				if !isPar {
					continue
				}
				nMU++
				var gs []string
				if lv.pred != nil {
					gs = c.edgeGuards(f, lv.pred, lv.phi.Block())
				} else {
					gs = c.guardsOf(f, in)
				}
				ok := false
				for _, g := range gs {
					if g == "nonnil(param:"+par.Name()+")" {
						ok = true
					}
				}
				key := "mapstore:" + c.U.RelName(f) + ":" + par.Name()
				r.Check("C08.K5", key, ok, c.pos(in), fmt.Sprintf("%s stores into map parameter %s only when it is non-nil (conditions %v)", c.U.RelName(f), par.Name(), gs))
			}
		})
	}
	r.Analysed["C08.K5.param_map_stores"] = nMU
	if nMU == 0 {
		r.Undecided("C08.K5", "none", "", "no store into a map parameter found (UpdateAnnotations is the instance confirmed by hand)")
	}

	// ---- K6
	nDyn := 0
	for _, f := range fns {
		for _, call := range ir.Calls(f) {
			cc := call.Common()
			if !cc.IsInvoke() && (cc.StaticCallee() != nil || ir.BuiltinName(call) != "") {
				continue
			}
			if c.U.StaticCallee(call) != nil {
				continue // closure in a local variable
			}
			v := cc.Value
			src := c.valueSource(v)
			if src == "" {
				continue // parameter, local closure, method value of a live object...
			}
			nDyn++
			d := c.valueDesc(v)
			ok := false
			for _, g := range c.guardsOf(f, call.(ssa.Instruction)) {
				if strings.HasPrefix(g, "nonnil(") && (g == "nonnil("+d+")" || strings.Contains(g, strings.TrimPrefix(src, "global:"))) {
					ok = true
				}
			}
			key := "dyncall:" + c.U.RelName(f) + ":" + src
			r.Check("C08.K6", key, ok, c.pos(call), fmt.Sprintf("call through %s (%s) happens only under a nil test", d, src))
		}
	}
	r.Analysed["C08.K6.dynamic_calls_on_global_or_map_values"] = nDyn

	// ---- K8 loops and recursion
	nLoops := 0
	for _, f := range fns {
		heads := backEdgeHeaders(f)
		if len(heads) == 0 {
			continue
		}
		known := map[*ssa.BasicBlock]*ir.Loop{}
		for _, l := range ir.Loops(f) {
			known[l.Header] = l
		}
		for _, h := range heads {
			nLoops++
			key := "loop:" + c.U.RelName(f) + ":" + fmt.Sprint(h.Index)
			if l, ok := known[h]; ok {
				// the collection must not grow inside the loop (append to the ranged slice)
				grows := false
				if _, isSlice := l.Over.Type().Underlying().(*types.Slice); isSlice {
					d := c.valueDesc(l.Over)
					for b := range l.BodyBlocks() {
						for _, in := range b.Instrs {
							if st, ok := in.(*ssa.Store); ok {
								if call, ok := st.Val.(*ssa.Call); ok && ir.BuiltinName(call) == "append" && c.valueDesc(call.Call.Args[0]) == d {
									for _, ap := range c.U.AddrPaths(st.Addr) {
										if ap.String() == d {
											grows = true
										}
									}
								}
							}
						}
					}
				}
				r.Check("C08.K8", key, !grows, c.pos(h.Instrs[len(h.Instrs)-1]), "loop over "+c.valueDesc(l.Over)+" visits a finite collection that does not grow in the loop")
				continue
			}
			if c.U.RelName(f) == "(*watch).watch" {
				// event loop: must block in a select
				sel := false
				for _, b := range f.Blocks {
					for _, in := range b.Instrs {
						if s, ok := in.(*ssa.Select); ok && s.Blocking {
							sel = true
						}
					}
				}
				r.Check("C08.K8", key, sel, c.pos(h.Instrs[0]), "the watcher's event loop blocks in select (allow-listed: it is meant to run until the watcher is closed, see C20.3)")
				continue
			}
			r.Violation("C08.K8", key, c.pos(h.Instrs[len(h.Instrs)-1]), "loop in "+c.U.RelName(f)+" is not a range/counted loop over a collection: termination on arbitrary input is not evident")
		}
	}
	r.Analysed["C08.K8.loops"] = nLoops
	// recursion among repository functions
	cyc := c.findRecursion(fns)
	r.Check("C08.K8", "no-recursion", cyc == "", "", "the call graph of the library code is acyclic (static callees, closures, function values)"+ifMsg(cyc))
}

type phiLeaf struct {
	val  ssa.Value
	phi  *ssa.Phi
	pred *ssa.BasicBlock
}

func phiLeavesWithPred(v ssa.Value) []phiLeaf {
	return phiLeavesWithPred1(v, map[*ssa.Phi]bool{})
}

func phiLeavesWithPred1(v ssa.Value, seen map[*ssa.Phi]bool) []phiLeaf {
	phi, ok := v.(*ssa.Phi)
	if !ok {
		return []phiLeaf{{val: v}}
	}
	if seen[phi] {
		return nil
	}
	seen[phi] = true
	var out []phiLeaf
	for k, e := range phi.Edges {
		if _, nested := e.(*ssa.Phi); nested {
			out = append(out, phiLeavesWithPred1(e, seen)...)
			continue
		}
		out = append(out, phiLeaf{e, phi, phi.Block().Preds[k]})
	}
	return out
}

// decodedPointer: v is a pointer to a specs-go struct that the decoder may
// leave nil: an element of a list, or a pointer-typed field of a specs-go struct.
func (c *Ctx) decodedPointer(v ssa.Value) bool {
	switch v.(type) {
	case *ssa.IndexAddr, *ssa.FieldAddr, *ssa.Alloc:
		return false // addresses of existing storage are never nil
	}
	pt, ok := v.Type().Underlying().(*types.Pointer)
	if !ok {
		return false
	}
	n, ok := pt.Elem().(*types.Named)
	if !ok || n.Obj().Pkg() == nil || n.Obj().Pkg().Path() != ir.PkgAlias["specs"] {
		return false
	}
	if _, isStruct := n.Underlying().(*types.Struct); !isStruct {
		return false
	}
	ps := c.U.PathsOf(v)
	if len(ps) == 0 {
		return false
	}
	for _, p := range ps {
		if p.Kind() != ir.RootParam || len(p.Sels) == 0 {
			continue
		}
		last := p.Sels[len(p.Sels)-1]
		if last.F == nil {
			return true // element of a list
		}
		if fieldDeclaredIn(last.F, "specs") {
			if _, isPtr := last.F.Type().Underlying().(*types.Pointer); isPtr {
				return true
			}
		}
	}
	return false
}

// valueSource: where a dynamically called value comes from, when that is a
// package-level variable or a map ("" otherwise).
func (c *Ctx) valueSource(v ssa.Value) string {
	switch x := v.(type) {
	case *ssa.UnOp:
		if g, ok := x.X.(*ssa.Global); ok && x.Op == token.MUL {
			return "global:" + g.Name()
		}
	case *ssa.Extract:
		switch t := x.Tuple.(type) {
		case *ssa.Next:
			if rg, ok := t.Iter.(*ssa.Range); ok {
				if _, isMap := rg.X.Type().Underlying().(*types.Map); isMap {
					return "map element of " + c.valueDesc(rg.X)
				}
			}
		case *ssa.Lookup:
			return "map element of " + c.valueDesc(t.X)
		}
	case *ssa.Lookup:
		return "map element of " + c.valueDesc(x.X)
	}
	return ""
}

// backEdgeHeaders returns the loop headers of fn (targets of back edges).
func backEdgeHeaders(fn *ssa.Function) []*ssa.BasicBlock {
	seen := map[*ssa.BasicBlock]bool{}
	var out []*ssa.BasicBlock
	for _, b := range fn.Blocks {
		for _, s := range b.Succs {
			if ir.Dominates(s, b) && !seen[s] {
				seen[s] = true
				out = append(out, s)
			}
		}
	}
	return out
}

// findRecursion looks for a cycle in the call graph of the given functions.
func (c *Ctx) findRecursion(fns []*ssa.Function) string {
	in := map[*ssa.Function]bool{}
	for _, f := range fns {
		in[f] = true
	}
	state := map[*ssa.Function]int{}
	var stack []string
	found := ""
	var dfs func(f *ssa.Function)
	dfs = func(f *ssa.Function) {
		if found != "" {
			return
		}
		state[f] = 1
		stack = append(stack, c.U.ShortName(f))
		for _, call := range ir.Calls(f) {
			for _, callee := range c.U.Callees(call) {
				if !in[callee] {
					continue
				}
				if state[callee] == 1 {
					found = strings.Join(append(stack, c.U.ShortName(callee)), " -> ")
					return
				}
				if state[callee] == 0 {
					dfs(callee)
				}
			}
		}
		stack = stack[:len(stack)-1]
		state[f] = 2
	}
	for _, f := range fns {
		if state[f] == 0 {
			dfs(f)
		}
	}
	return found
}

// decoderRootGuarded: the *Spec returned by ParseSpec (nil, with a nil error,
// for a document that is empty or just 'null') is used only under a nil test.
// Returns the number of uses examined.
func (c *Ctx) decoderRootGuarded(rule string, fns []*ssa.Function) int {
	r := c.R
	n := 0
	for _, f := range fns {
		for _, call := range c.callsTo(f, false, "cdi", "ParseSpec") {
			raw := ir.CallResult(call, 0)
			if raw == nil || raw.Referrers() == nil {
				continue
			}
			for _, ref := range *raw.Referrers() {
				if b, isCmp := ref.(*ssa.BinOp); isCmp && (ir.IsNilConst(b.X) || ir.IsNilConst(b.Y)) {
					continue
				}
				if _, isRet := ref.(*ssa.Return); isRet {
					continue // handing the (possibly nil) result to the caller is fine
				}
				n++
				guarded := false
				for _, iff := range ir.Ifs(f) {
					tv, nilSucc, ok := ir.NilTest(iff)
					if ok && tv == raw && ir.OnlyViaEdge(f, ref, ir.Edge{From: iff.Block(), Succ: 1 - nilSucc}) {
						guarded = true
					}
				}
				r.Check(rule, "decoder-root:"+c.U.RelName(f), guarded, c.pos(ref), "the *Spec returned by ParseSpec (nil for an empty or 'null' document) is used only after a nil test: such a file is a per-file error, not a crash of the whole refresh")
			}
		}
	}
	return n
}

// ociSectionsGuarded: the optional sections of the OCI spec handed to injection (Process,
// Linux, Hooks, Linux.Resources, ... - pointer fields of runtime-spec structs) are nil in a
// minimal spec. A selection through such a pointer needs a dominating nil test of it or, on
// every path, an earlier call that allocates the section (a generator method or helper whose
// write effects include a store to that field). Returns the number of selections examined.
func (c *Ctx) ociSectionsGuarded(rule string, fns []*ssa.Function) int {
	r := c.R
	n := 0
	isOCI := func(t types.Type) bool {
		if p, ok := t.(*types.Pointer); ok {
			t = p.Elem()
		}
		nm, ok := t.(*types.Named)
		return ok && nm.Obj().Pkg() != nil && strings.HasSuffix(nm.Obj().Pkg().Path(), "runtime-spec/specs-go")
	}
	for _, f := range fns {
		if len(f.Blocks) == 0 {
			continue
		}
		ir.Instrs(f, func(in ssa.Instruction) {
			fa, ok := in.(*ssa.FieldAddr)
			if !ok {
				return
			}
			// fa.X is a loaded pointer field of an OCI struct: *(&owner.Section)
			ld, ok := fa.X.(*ssa.UnOp)
			if !ok || ld.Op != token.MUL {
				return
			}
			inner, ok := ld.X.(*ssa.FieldAddr)
			if !ok || !isOCI(inner.X.Type()) {
				return
			}
			if _, isPtr := ld.Type().Underlying().(*types.Pointer); !isPtr {
				return
			}
			section := ir.StructOf(inner.X.Type()).Field(inner.Field).Name()
			d := c.valueDesc(ld)
			if !strings.HasPrefix(d, "param:") {
				return // a spec object built here
			}
			n++
			guarded := false
			for _, g := range c.guardsOf(f, in) {
				if g == "nonnil("+d+")" {
					guarded = true
				}
			}
			if !guarded {
				guarded = ir.MustPassBefore(f, in, func(x ssa.Instruction) bool {
					call, isCall := x.(ssa.CallInstruction)
					if !isCall {
						return false
					}
					for _, callee := range c.U.Callees(call) {
						if callee == nil {
							continue
						}
						for _, w := range c.U.EffectsOf(callee).Writes {
							if len(w.Path.Sels) > 0 && w.Path.Sels[len(w.Path.Sels)-1].F != nil && w.Path.Sels[len(w.Path.Sels)-1].F.Name() == section && (w.Kind == "store") {
								return true
							}
						}
					}
					return false
				})
			}
			key := fmt.Sprintf("oci-section:%s:%s", c.U.RelName(f), normGuards(f, []string{d})[0])
			r.Check(rule, key, guarded, c.pos(in), fmt.Sprintf("%s selects through %s (nil in a minimal OCI spec) only under a nil test or after a call that allocates the section", c.U.RelName(f), d))
		})
	}
	return n
}
