package rules

import (
	"fmt"
	"go/token"
	"go/types"
	"sort"
	"strings"

	"golang.org/x/tools/go/ssa"

	"cdiverif/internal/ir"
)

// C09 — written Spec files read back equal, in both encodings (thin).

func init() {
	register(&Property{
		ID: "C09",
		Explanation: "Three necessary structural conditions of the round trip are decided; the core of the property - every UTF-8 string through yaml.v3's writer and goyaml.v2's reader - quantifies over the string space and two third-party codecs and is NOT decidable by static analysis of this repository. " +
			"(C09.1) tags: every exported field of every specs-go type reachable from Spec has json and yaml tags with the same member name and the same omitempty flag, names are unique per struct, leaf kinds are JSON/YAML-stable (strings, bools, sized integers, pointers/slices of those, string maps); " +
			"(C09.2) codec-dispatch: (*Spec).write encodes the same s.Spec value with gopkg.in/yaml.v3 exactly when the (normalised) path ends in .yaml and with encoding/json otherwise, and the reader decodes every file with the one decoder of ParseSpec; " +
			"(C09.3) codec-symmetry: for each extension, the language the writer's encoder emits must be one the reader's decoder accepts with the same meaning. .yaml: yaml.v3 -> sigs.k8s.io/yaml (both YAML; trusted). .json: encoding/json -> sigs.k8s.io/yaml's YAML parser: JSON is not a subset of what that parser accepts (raw U+007F-U+009F inside strings) - a genuine defect recorded as known finding D12.",
		Assumptions: []string{"gopkg.in/yaml.v3 output is read back identically by sigs.k8s.io/yaml (go-yaml v2) for the leaf kinds used", "encoding/json emits U+007F-U+009F unescaped (documented behaviour)"},
		Run:         runC09,
	})
}

func runC09(c *Ctx) {
	r := c.R
	r.Rule("C09.1", "tags: json and yaml member names and omitempty agree on every field reachable from Spec; stable leaf kinds", 30)
	r.Rule("C09.2", "codec-dispatch: yaml.v3 for .yaml, encoding/json otherwise, same value; one reader decoder", 3)
	r.Rule("C09.3", "codec-symmetry: the reader's decoder accepts the writer's encoder's language for each extension", 2)

	// ---- C09.1
	specT := c.U.NamedType("specs", "Spec")
	if specT == nil {
		r.Undecided("C09.1", "anchor:specs.Spec", "", "type specs.Spec not found")
		return
	}
	seen := map[string]bool{}
	nFields := 0
	var visit func(t types.Type, where string)
	visit = func(t types.Type, where string) {
		switch u := t.Underlying().(type) {
		case *types.Pointer:
			visit(u.Elem(), where)
		case *types.Slice:
			visit(u.Elem(), where+"[]")
		case *types.Map:
			kb, ok := u.Key().Underlying().(*types.Basic)
			if !ok || kb.Info()&types.IsString == 0 {
				r.Violation("C09.1", "leaf:"+where, "", where+": map key is not a string: JSON and YAML encode it differently")
			}
			visit(u.Elem(), where+"{}")
		case *types.Struct:
			n, _ := t.(*types.Named)
			name := where
			if n != nil {
				name = n.Obj().Name()
				if seen[name] {
					return
				}
				seen[name] = true
			}
			jnames, ynames := map[string]string{}, map[string]string{}
			for i := 0; i < u.NumFields(); i++ {
				f := u.Field(i)
				if !f.Exported() {
					continue
				}
				nFields++
				tag := u.Tag(i)
				jn, jo := tagName(tag, "json", "")
				yn, yo := tagName(tag, "yaml", "")
				key := name + "." + f.Name()
				pos := c.U.Pos(f.Pos())
				switch {
				case jn == "" || yn == "":
					r.Violation("C09.1", "tags:"+key, pos, fmt.Sprintf("%s lacks an explicit json (%q) or yaml (%q) member name: the two encoders would derive different names (json keeps the Go name, yaml lower-cases it)", key, jn, yn))
				case jn != yn:
					r.Violation("C09.1", "tags:"+key, pos, fmt.Sprintf("%s is %q in JSON but %q in YAML: a file written in one encoding does not read back in the other, and the single YAML-based reader only knows the json name", key, jn, yn))
				case jo != yo:
					r.Violation("C09.1", "tags:"+key, pos, fmt.Sprintf("%s has omitempty in only one of the two encodings: empty values round-trip differently", key))
				default:
					r.OK("C09.1", "tags:"+key, pos, fmt.Sprintf("member %q in both encodings (omitempty %v)", jn, jo))
				}
				if prev, dup := jnames[jn]; dup && jn != "" {
					r.Violation("C09.1", "dup:"+key, pos, fmt.Sprintf("%s and %s share the JSON member name %q", key, prev, jn))
				}
				if prev, dup := ynames[yn]; dup && yn != "" {
					r.Violation("C09.1", "dup-yaml:"+key, pos, fmt.Sprintf("%s and %s share the YAML member name %q", key, prev, yn))
				}
				jnames[jn], ynames[yn] = key, key
				visit(f.Type(), name+"."+f.Name())
			}
		case *types.Basic:
			ok := u.Info()&(types.IsString|types.IsBoolean|types.IsInteger) != 0
			if !ok {
				r.Violation("C09.1", "leaf:"+where, "", fmt.Sprintf("%s has kind %s: floats/complex values do not round-trip textually between the encodings", where, u.Name()))
			}
		case *types.Interface:
			r.Violation("C09.1", "leaf:"+where, "", where+" is an interface: its decoded dynamic type differs between JSON and YAML readers")
		}
	}
	visit(specT, "Spec")
	r.Analysed["C09.fields"] = nFields
	var tn []string
	for k := range seen {
		tn = append(tn, k)
	}
	sort.Strings(tn)
	r.Analysed["C09.types"] = tn
	if nFields < 30 {
		r.Undecided("C09.1", "floor:fields", "", fmt.Sprintf("only %d fields reachable from Spec (37 confirmed by hand)", nFields))
	}

	// ---- C09.2 / C09.3
	w := c.fn("C09.2", "cdi", "(*Spec).write")
	ps := c.fn("C09.2", "cdi", "ParseSpec")
	if w == nil || ps == nil {
		return
	}
	encoders := map[string]string{} // ext class -> encoder
	var writeCall ssa.CallInstruction
	for _, call := range ir.Calls(w) {
		if f := call.Common().StaticCallee(); f != nil && f.String() == "(*os.File).Write" {
			writeCall = call
		}
	}
	if writeCall == nil {
		r.Undecided("C09.2", "anchor:write", c.U.Pos(w.Pos()), "no file Write in (*Spec).write")
		return
	}
	// the marshal calls and the condition each is under
	for _, call := range ir.Calls(w) {
		f := call.Common().StaticCallee()
		if f == nil || !strings.HasSuffix(f.String(), ".Marshal") {
			continue
		}
		arg := normExpr(w, []string{c.exprDesc(call.Common().Args[0])})[0]
		gs := normExpr(w, c.exprGuardsOf(w, call.(ssa.Instruction)))
		class := ""
		for _, g := range gs {
			if g == `path/filepath.Ext($0.path) == ".yaml"` {
				class = ".yaml"
			}
			if g == `path/filepath.Ext($0.path) != ".yaml"` {
				class = "other"
			}
		}
		key := "encoder:" + f.String()
		r.Check("C09.2", key, arg == "$0.Spec" && class != "", c.pos(call), fmt.Sprintf("%s encodes s.Spec (found %s) under a test of the path's extension (conditions %v)", f.String(), arg, gs))
		if class != "" {
			encoders[class] = f.String()
		}
		// its output is what gets written
		dd := normExpr(w, []string{c.exprDesc(writeCall.Common().Args[1])})[0]
		r.Check("C09.2", key+":written", strings.Contains(dd, f.String()+"($0.Spec)#0"), c.pos(writeCall), "the encoder's output is the data written")
	}
	okDispatch := encoders[".yaml"] == "gopkg.in/yaml.v3.Marshal" && encoders["other"] == "encoding/json.Marshal"
	r.Check("C09.2", "dispatch", okDispatch, c.U.Pos(w.Pos()), fmt.Sprintf("encoders by extension: %v (expected yaml.v3 for .yaml, encoding/json otherwise)", encoders))
	// reader: one decoder
	decoder := ""
	var decoderFn *ssa.Function
	for _, call := range ir.Calls(ps) {
		if f := call.Common().StaticCallee(); f != nil && (strings.Contains(f.String(), "Unmarshal") || strings.Contains(f.String(), "Decode")) {
			decoder = f.String()
			decoderFn = f
		}
	}
	readSpec := c.U.Func("cdi", "ReadSpec")
	single := readSpec != nil && len(c.callsTo(readSpec, false, "cdi", "ParseSpec")) == 1
	if readSpec != nil {
		for _, call := range c.callsTo(readSpec, false, "cdi", "ParseSpec") {
			for _, g := range c.exprGuardsOf(readSpec, call.(ssa.Instruction)) {
				if strings.Contains(g, "filepath.Ext") {
					single = false // decoder chosen by extension: this rule's table does not apply
				}
			}
		}
	}
	r.Check("C09.2", "reader", decoder != "" && single, c.U.Pos(ps.Pos()), "every Spec file, whatever its extension, is decoded by "+decoder)
	// the decoder sees the bytes of the file, all of them and nothing else (trimming, BOM stripping
	// or any other preprocessing changes what a block scalar at the end of a YAML file means)
	for _, call := range ir.Calls(ps) {
		if f := call.Common().StaticCallee(); f != nil && f == decoderFn {
			d := normExpr(ps, []string{c.exprDesc(call.Common().Args[0])})[0]
			r.Check("C09.2", "reader-input:ParseSpec", d == "$0", c.pos(call), "the decoder is given ParseSpec's input bytes unchanged (found "+d+")")
		}
	}
	if readSpec != nil {
		for _, call := range c.callsTo(readSpec, false, "cdi", "ParseSpec") {
			d := normExpr(readSpec, []string{c.exprDesc(call.Common().Args[0])})[0]
			r.Check("C09.2", "reader-input:ReadSpec", d == "os.ReadFile($0)#0", c.pos(call), "ReadSpec hands the file's bytes to ParseSpec unchanged (found "+d+")")
		}
	}

	// symmetry table
	compatible := map[string]string{
		"gopkg.in/yaml.v3.Marshal->sigs.k8s.io/yaml.UnmarshalStrict": "both YAML; sigs.k8s.io/yaml parses with go-yaml and converts to JSON (trusted for the leaf kinds of C09.1)",
		"encoding/json.Marshal->encoding/json.Unmarshal":             "same codec",
		"gopkg.in/yaml.v3.Marshal->gopkg.in/yaml.v3.Unmarshal":       "same codec",
	}
	incompatible := map[string]string{
		"encoding/json.Marshal->sigs.k8s.io/yaml.UnmarshalStrict": "encoding/json writes U+007F-U+009F unescaped inside strings; the YAML parser behind sigs.k8s.io/yaml refuses control characters (\"control characters are not allowed\") or reads U+0085 as a line break: a valid Spec with such a character in an env value, path or annotation cannot be read back from its .json file",
		"encoding/json.Marshal->sigs.k8s.io/yaml.Unmarshal":       "same as for UnmarshalStrict",
	}
	for class, enc := range encoders {
		ext := class
		if class == "other" {
			ext = ".json"
		}
		pair := enc + "->" + decoder
		key := "codec-symmetry:" + ext + ":" + enc + "<->" + decoder
		if why, ok := compatible[pair]; ok {
			r.OK("C09.3", key, c.U.Pos(w.Pos()), why)
		} else if why, bad := incompatible[pair]; bad {
			// accepted when the encoder's output passes through a sanitiser that removes the offending characters
			var san *ssa.Function
			for _, call := range ir.Calls(w) {
				f := c.U.StaticCallee(call)
				if f == nil || !c.U.IsRepoFunc(f) || len(call.Common().Args) != 1 {
					continue
				}
				if strings.Contains(c.exprDesc(call.Common().Args[0]), enc+"(") && strings.Contains(c.exprDesc(writeCall.Common().Args[1]), c.U.RelName(f)+"(") {
					san = f
				}
			}
			if san != nil {
				refused, where, derived := c.yamlReaderRefused(decoderFn)
				if !derived {
					r.Undecided("C09.3", key+":reader-charset", c.U.Pos(ps.Pos()), "the character-range check of the YAML reader behind "+decoder+" was not found or not understood: "+where)
					continue
				}
				r.OK("C09.3", "reader-charset", where, fmt.Sprintf("code points the reader refuses outright, evaluated from its range check: %s", refused))
				// what encoding/json leaves unescaped inside strings (its safeSet tables; output is
				// valid UTF-8 so no surrogates): everything from U+0020 except '"', '\\', U+2028, U+2029
				jsonRaw := runeSet{{0x20, 0x10ffff}}.intersect(runeSet{{'"', '"'}, {'\\', '\\'}, {0x2028, 0x2029}, {0xd800, 0xdfff}}.complement())
				// U+0085 is accepted by the reader but is a line break to its scanner: folded inside a quoted scalar
				bad := jsonRaw.intersect(refused.union(runeSet{{0x85, 0x85}}))
				if ok, detail := c09SanitizerOK(c, san, bad); ok {
					r.OK("C09.3", key, c.U.Pos(san.Pos()), ext+" files: "+enc+" output goes through "+c.U.RelName(san)+" before it is written: "+detail)
					continue
				} else {
					r.Violation("C09.3", key, c.U.Pos(san.Pos()), ext+" files: "+c.U.RelName(san)+" does not remove the characters the reader refuses: "+detail+". "+why)
					continue
				}
			}
			r.Violation("C09.3", key, c.U.Pos(w.Pos()), ext+" files: "+why)
		} else {
			r.Undecided("C09.3", key, c.U.Pos(w.Pos()), "no entry for this encoder/decoder pair in the symmetry table")
		}
	}
}

// yamlReaderRefused evaluates, in the YAML reader reachable from the decoder
// the repository uses, the range check that ends in the "control characters
// are not allowed" error: the result is the exact set of code points for which
// that error is reached (forward propagation of interval sets through the
// chain of comparisons of the decoded value).
func (c *Ctx) yamlReaderRefused(decoder *ssa.Function) (runeSet, string, bool) {
	if decoder == nil {
		return nil, "no decoder", false
	}
	var errCall *ssa.Call
	// the reader lives in the decoder's module: every function of its package tree
	for _, fn := range c.U.FuncsUnder(c.U.FuncPkgPath(decoder)) {
		for _, call := range ir.Calls(fn) {
			for _, a := range call.Common().Args {
				if s, ok := ir.ConstString(a); ok && s == "control characters are not allowed" {
					if cl, isCall := call.(*ssa.Call); isCall {
						if errCall != nil && errCall != cl {
							return nil, "more than one range check in the reader", false
						}
						errCall = cl
					}
				}
			}
		}
	}
	if errCall == nil {
		return nil, "no call reporting \"control characters are not allowed\" in the decoder's package tree", false
	}
	args := errCall.Call.Args
	var x ssa.Value = args[len(args)-1]
	for i := 0; i < 4; i++ {
		if cv, ok := x.(*ssa.Convert); ok {
			x = cv.X
		}
	}
	B := errCall.Block()
	// a test of x: a comparison of x with a constant, or the value of an && / ||
	// over such comparisons (go/ssa: a phi of constants and comparisons)
	var isTest func(v ssa.Value, depth int) bool
	isTest = func(v ssa.Value, depth int) bool {
		if phi, ok := v.(*ssa.Phi); ok && depth < 4 {
			for _, e := range phi.Edges {
				if _, isConst := ir.ConstBool(e); !isConst && !isTest(e, depth+1) {
					return false
				}
			}
			return true
		}
		_, u := c.constraintOn(x, v, true, nil, 0)
		return u
	}
	testOf := func(b *ssa.BasicBlock) *ssa.If {
		iff, ok := b.Instrs[len(b.Instrs)-1].(*ssa.If)
		if !ok || b.Succs[0] == b.Succs[1] || !isTest(iff.Cond, 0) {
			return nil
		}
		return iff
	}
	S := B
	for d := ir.Idom(B); d != nil; d = ir.Idom(d) {
		if testOf(d) == nil {
			if len(d.Succs) == 1 {
				continue // right operand of an && / ||
			}
			break
		}
		S = d
	}
	if S == B {
		return nil, "the error at " + c.pos(errCall) + " is not under a chain of range comparisons", false
	}
	// forward from S: the values of x with which each exit of the region is reached
	var rej, acc runeSet
	steps := 0
	path := ir.BlockPath{}
	var rec func(b *ssa.BasicBlock, set runeSet)
	rec = func(b *ssa.BasicBlock, set runeSet) {
		steps++
		if len(set) == 0 || steps > 20000 {
			return
		}
		if b == B {
			rej = rej.union(set)
			return
		}
		if len(path) > 0 && (b == S || !ir.Dominates(S, b)) {
			acc = acc.union(set) // left the check (next iteration or code after it)
			return
		}
		path = append(path, b)
		defer func() { path = path[:len(path)-1] }()
		if iff := testOf(b); iff != nil {
			for k := 0; k < 2; k++ {
				s, ok := c.constraintOn(x, iff.Cond, k == 0, append(ir.BlockPath{}, path...), 0)
				if !ok {
					steps = 1 << 30
					return
				}
				rec(b.Succs[k], set.intersect(s))
			}
			return
		}
		if len(b.Succs) == 1 {
			rec(b.Succs[0], set)
			return
		}
		acc = acc.union(set)
	}
	rec(S, fullRunes())
	where := c.U.Pos(errCall.Pos())
	if steps > 20000 || len(rej.intersect(acc)) != 0 || !rej.union(acc).equal(fullRunes()) {
		return nil, "range check at " + where + " not partitioned into refused/accepted", false
	}
	return rej.norm(), where, true
}

// c09SanitizerOK decides whether fn rewrites a JSON byte stream so that no
// code point of bad (what encoding/json leaves raw and the YAML reader refuses
// or alters) is copied through unchanged: the function must walk the runes of its input and every path of
// the loop body that copies the current rune must exclude those values
// (abstract evaluation over rune intervals).
func c09SanitizerOK(c *Ctx, fn *ssa.Function, bad runeSet) (bool, string) {
	if fn == nil || len(fn.Params) != 1 {
		return false, "not a func([]byte) []byte"
	}
	var loop *ir.Loop
	for _, l := range ir.Loops(fn) {
		d := normExpr(fn, []string{c.exprDesc(l.Over)})[0]
		if (d == "string($0)" || d == "$0") && l.Elem != nil && l.Complete {
			if b, ok := l.Elem.Type().Underlying().(*types.Basic); ok && b.Kind() == types.Int32 {
				loop = l
			}
		}
	}
	var x ssa.Value
	if loop != nil {
		x = loop.Elem
	} else {
		// the same walk written with utf8.DecodeRune: for i := 0; i < len(data); i += size { r, size := DecodeRune(data[i:]) }
		for _, l := range ir.Loops(fn) {
			if normExpr(fn, []string{c.exprDesc(l.Over)})[0] != "$0" {
				continue
			}
			phi, isPhi := l.Index.(*ssa.Phi)
			if !isPhi {
				continue
			}
			for b := range l.BodyBlocks() {
				for _, in := range b.Instrs {
					call, ok := in.(*ssa.Call)
					if !ok || call.Call.StaticCallee() == nil || call.Call.StaticCallee().String() != "unicode/utf8.DecodeRune" {
						continue
					}
					sl, ok := call.Call.Args[0].(*ssa.Slice)
					if !ok || sl.X != ssa.Value(fn.Params[0]) || sl.Low != ssa.Value(phi) || sl.High != nil {
						continue
					}
					// i = phi(0, i + size) with size the decoder's width
					okInd := len(phi.Edges) >= 2
					var r ssa.Value
					for _, e := range phi.Edges {
						if k, isK := ir.ConstInt(e); isK && k == 0 {
							continue
						}
						add, isAdd := e.(*ssa.BinOp)
						if !isAdd || add.Op != token.ADD || add.X != ssa.Value(phi) {
							okInd = false
							continue
						}
						ex, isEx := add.Y.(*ssa.Extract)
						if !isEx || ex.Tuple != ssa.Value(call) || ex.Index != 1 {
							okInd = false
						}
					}
					if call.Referrers() != nil {
						for _, rr := range *call.Referrers() {
							if ex, isEx := rr.(*ssa.Extract); isEx && ex.Index == 0 {
								r = ex
							}
						}
					}
					if okInd && r != nil {
						loop, x = l, r
					}
				}
			}
		}
	}
	if loop == nil {
		return false, "no complete loop over the runes of the input"
	}
	problem := ""
	nCopy, nEsc := 0, 0
	var path ir.BlockPath
	used := map[ir.Edge]bool{}
	usesRune := func(v ssa.Value) bool {
		for i := 0; i < 4; i++ {
			if v == x {
				return true
			}
			switch y := v.(type) {
			case *ssa.Convert:
				v = y.X
			case *ssa.ChangeType:
				v = y.X
			case *ssa.MakeInterface:
				v = y.X
			default:
				return false
			}
		}
		return v == x
	}
	var rec func(b *ssa.BasicBlock, set runeSet)
	rec = func(b *ssa.BasicBlock, set runeSet) {
		if len(set) == 0 || problem != "" || b == loop.Header {
			return
		}
		path = append(path, b)
		defer func() { path = path[:len(path)-1] }()
		for _, in := range b.Instrs {
			call, ok := in.(*ssa.Call)
			if !ok {
				continue
			}
			name := c.calleeName(call)
			if name == "fmt.Sprintf" || name == "fmt.Appendf" {
				fi := 0
				if name == "fmt.Appendf" {
					fi = 1
				}
				f, isStr := ir.ConstString(call.Call.Args[fi])
				usesX := false
				for _, ev := range c.U.ContainerElems(call.Call.Args[fi+1]) {
					if usesRune(ev) {
						usesX = true
					}
				}
				if usesX && !(isStr && (f == `\u%04x` || f == `\u%04X`)) {
					problem = fmt.Sprintf("the current rune is written with format %q: only the four-digit \\u escape is both JSON and YAML", f)
				}
				if isStr && strings.HasPrefix(f, `\u%04`) {
					for _, ev := range c.U.ContainerElems(call.Call.Args[fi+1]) {
						if usesRune(ev) {
							nEsc++
							if hit := set.intersect(runeSet{{0x10000, 0x10ffff}}); len(hit) > 0 {
								problem = fmt.Sprintf("a path escapes the current rune as \\u followed by its hex value although it can be in %s: above U+FFFF that is not a four-digit escape and reads back as different characters", hit)
							}
						}
					}
				}
				continue
			}
			copies := false
			for _, a := range call.Call.Args {
				if usesRune(a) {
					copies = true
				}
				for _, ev := range c.U.ContainerElems(a) {
					if usesRune(ev) {
						copies = true
					}
				}
			}
			if copies {
				nCopy++
				if hit := set.intersect(bad); len(hit) > 0 {
					problem = fmt.Sprintf("a path hands the current rune unchanged to %s although it can be in %s", name, hit)
				}
			}
		}
		last := b.Instrs[len(b.Instrs)-1]
		if iff, ok := last.(*ssa.If); ok && b.Succs[0] != b.Succs[1] {
			for k := 0; k < 2; k++ {
				e := ir.Edge{From: b, Succ: k}
				if used[e] {
					continue
				}
				s, understood := c.constraintOn(x, iff.Cond, k == 0, path, 0)
				if !understood {
					s = fullRunes()
				}
				used[e] = true
				rec(b.Succs[k], set.intersect(s))
				delete(used, e)
			}
			return
		}
		for k, sc := range b.Succs {
			e := ir.Edge{From: b, Succ: k}
			if used[e] {
				continue
			}
			used[e] = true
			rec(sc, set)
			delete(used, e)
		}
	}
	path = append(path, loop.Header)
	rec(loop.Body.To(), fullRunes())
	if problem != "" {
		return false, problem
	}
	if nCopy == 0 || nEsc == 0 {
		return false, fmt.Sprintf("the loop body has %d copying and %d escaping paths", nCopy, nEsc)
	}
	// every path rebuilds the output: returning the input unchanged on some path
	// (e.g. an "all ASCII" fast path - DEL is ASCII) is not accepted
	for _, ret := range ir.NormalReturns(fn) {
		for _, p := range c.U.PathsOf(ir.ReturnResult(ret, 0)) {
			if p.Root == ssa.Value(fn.Params[0]) {
				return false, "a path returns the input bytes unchanged (" + c.pos(ret) + "): only the escaping loop may produce the result"
			}
		}
	}
	return true, fmt.Sprintf("no path copies a rune in %s unescaped (%d copying, %d escaping path(s) examined)", bad, nCopy, nEsc)
}
