package rules

import (
	"fmt"
	"path/filepath"
	"sort"
	"strings"

	"golang.org/x/tools/go/ssa"

	"cdiverif/internal/ir"
)

// C10 — Spec files are published atomically.

func init() {
	register(&Property{
		ID: "C10",
		Explanation: "Ordering, origin and who-may-call analysis of the write path ((*Spec).write, renameIn per GOOS, RemoveSpec) on go/ssa. " +
			"Decided: (C10.1) the temporary file's name pattern is a constant without path separator whose suffix after the random part has an extension outside {.json,.yaml}, so no scanner or watcher ever loads it; " +
			"(C10.2) the temporary file is created in filepath.Dir of the target and renamed within that same directory to filepath.Base of the target; (C10.3) on every path the rename happens only after the data was written without error and the file was closed; a failed write returns before any rename; the only file removed is the temporary one; " +
			"(C10.4) who-may-call: the file-system-mutating calls of pkg/cdi are exactly the confirmed set (MkdirAll, CreateTemp, Write, Close, Remove x2, the rename primitive inside renameIn) - in particular nothing opens a Spec path for writing in place; the target path flows only into Dir/Base/Ext; " +
			"(C10.5) the rename primitive is one renameat2 within one directory descriptor with flags 0 or RENAME_NOREPLACE (linux), one os.Rename of the two joined paths (other OS). " +
			"Not decided: kernel rename atomicity, durability across power loss (no fsync; the property speaks of process crashes), directory-entry visibility semantics of the file system, the inotify event stream.",
		Assumptions: []string{"rename(2)/renameat2(2) within one directory replaces the target atomically", "os.CreateTemp replaces the last '*' of the pattern by a random string"},
		Run:         runC10,
		OtherGOOS:   []string{"darwin", "windows"},
	})
}

func runC10(c *Ctx) {
	r := c.R
	r.Rule("C10.1", "tmp-suffix: temp file pattern is a separator-free constant with a non-Spec extension after the random part", 1)
	r.Rule("C10.2", "same-dir: temp file created in, and renamed within, the target's directory", 2)
	r.Rule("C10.3", "order: write (error checked) then close then rename; failed write never renames; only the temp file is removed", 4)
	r.Rule("C10.4", "sole-writer: the set of file-system-mutating call sites of pkg/cdi is the confirmed one", 6)
	r.Rule("C10.5", "rename-primitive: one atomic rename within one directory", 2)

	w := c.fn("C10.1", "cdi", "(*Spec).write")
	if w == nil {
		return
	}
	dirDesc := "path/filepath.Dir($0.path)"
	find := func(full string) []ssa.CallInstruction {
		var out []ssa.CallInstruction
		for _, call := range ir.Calls(w) {
			if f := call.Common().StaticCallee(); f != nil && f.String() == full {
				out = append(out, call)
			}
		}
		return out
	}
	nd := func(v ssa.Value) string { return normExpr(w, []string{c.exprDesc(v)})[0] }

	creates := find("os.CreateTemp")
	if len(creates) != 1 {
		r.Violation("C10.1", "create-temp", c.U.Pos(w.Pos()), fmt.Sprintf("%d os.CreateTemp calls in write (the publication idiom needs exactly one temporary file)", len(creates)))
		return
	}
	ct := creates[0]
	// C10.1
	pat, isConst := ir.ConstString(ct.Common().Args[1])
	okPat := false
	detail := "pattern is not a constant"
	if isConst {
		star := strings.LastIndex(pat, "*")
		suffix := ""
		if star >= 0 {
			suffix = pat[star+1:]
		}
		ext := filepath.Ext(suffix)
		okPat = star >= 0 && !strings.ContainsAny(pat, `/\`) && suffix != "" && ext != "" && ext != ".json" && ext != ".yaml" && filepath.Ext(pat) == ext
		detail = fmt.Sprintf("pattern %q: fixed suffix %q, extension %q", pat, suffix, ext)
	}
	r.Check("C10.1", "tmp-pattern", okPat, c.pos(ct), "the temporary file can never carry a Spec extension ("+detail+")")

	// C10.2
	r.Check("C10.2", "tmp-dir", nd(ct.Common().Args[0]) == dirDesc, c.pos(ct), "temporary file created in "+dirDesc+" (found "+nd(ct.Common().Args[0])+")")
	renames := c.callsTo(w, false, "cdi", "renameIn")
	if len(renames) != 1 {
		r.Violation("C10.2", "rename-call", c.U.Pos(w.Pos()), fmt.Sprintf("%d renameIn calls in write (one expected)", len(renames)))
		return
	}
	rn := renames[0]
	tmpDesc := nd(ir.CallResult(ct, 0))
	a := rn.Common().Args
	okRn := nd(a[0]) == dirDesc && nd(a[1]) == "path/filepath.Base((*os.File).Name("+tmpDesc+"))" && nd(a[2]) == "path/filepath.Base($0.path)"
	r.Check("C10.2", "rename-args", okRn, c.pos(rn), fmt.Sprintf("renameIn(dir of target, base name of the temp file, base name of the target) (found %s, %s, %s)", nd(a[0]), nd(a[1]), nd(a[2])))
	r.Check("C10.2", "rename-overwrite-flag", a[3] == ssa.Value(w.Params[1]), c.pos(rn), "the overwrite flag is handed through")

	// C10.3
	var writes, closes []ssa.CallInstruction
	for _, call := range ir.Calls(w) {
		if f := call.Common().StaticCallee(); f != nil {
			switch f.String() {
			case "(*os.File).Write", "(*os.File).WriteString":
				writes = append(writes, call)
			case "(*os.File).Close":
				closes = append(closes, call)
			}
		}
	}
	if len(writes) != 1 {
		r.Violation("C10.3", "write-call", c.U.Pos(w.Pos()), fmt.Sprintf("%d Write calls on files in write (one expected)", len(writes)))
	} else {
		wr := writes[0]
		r.Check("C10.3", "write-target", nd(wr.Common().Args[0]) == tmpDesc, c.pos(wr), "the data goes to the temporary file")
		// the rename is reachable only when the write error was nil
		werr := ir.CallResult(wr, 1)
		guarded := werr != nil
		if werr != nil {
			// every path from the write to the rename takes the nil edge of a test of the write's error
			start := wr.(ssa.Instruction).Block()
			var walk func(b *ssa.BasicBlock, path ir.BlockPath, tested bool, used map[ir.Edge]bool)
			walk = func(b *ssa.BasicBlock, path ir.BlockPath, tested bool, used map[ir.Edge]bool) {
				path = append(path, b)
				if b == rn.(ssa.Instruction).Block() && (b != start || len(path) > 1) {
					if !tested {
						guarded = false
					}
					return
				}
				if iff, ok := b.Instrs[len(b.Instrs)-1].(*ssa.If); ok && b.Succs[0] != b.Succs[1] {
					tv, nilSucc, isNil := ir.NilTest(iff)
					for k := 0; k < 2; k++ {
						e := ir.Edge{From: b, Succ: k}
						if used[e] {
							continue
						}
						t2 := tested
						if isNil && ir.ResolveOnPath(tv, path) == werr && k == nilSucc {
							t2 = true
						}
						used[e] = true
						walk(b.Succs[k], path, t2, used)
						delete(used, e)
					}
					return
				}
				for k, s := range b.Succs {
					e := ir.Edge{From: b, Succ: k}
					if used[e] {
						continue
					}
					used[e] = true
					walk(s, path, tested, used)
					delete(used, e)
				}
			}
			if start == rn.(ssa.Instruction).Block() {
				guarded = false
			} else {
				walk(start, nil, false, map[ir.Edge]bool{})
			}
		}
		r.Check("C10.3", "write-error-before-rename", guarded, c.pos(rn), "renameIn is reached only when Write returned no error (a partial file is never published)")
		before := ir.MustPassBefore(w, rn.(ssa.Instruction), func(in ssa.Instruction) bool { return in == wr.(ssa.Instruction) })
		r.Check("C10.3", "write-before-rename", before, c.pos(rn), "every path to the rename passes the write")
		// what is written: the marshalled Spec
		dd := nd(wr.Common().Args[1])
		okData := strings.Contains(dd, "Marshal($0.Spec)#0")
		r.Check("C10.3", "write-data", okData, c.pos(wr), "the bytes written are the marshalled Spec (found "+dd+")")
	}
	closedBefore := false
	for _, cl := range closes {
		if nd(cl.Common().Args[0]) == tmpDesc && ir.MustPassBefore(w, rn.(ssa.Instruction), func(in ssa.Instruction) bool { return in == cl.(ssa.Instruction) }) {
			closedBefore = true
		}
	}
	r.Check("C10.3", "close-before-rename", closedBefore, c.pos(rn), "the temporary file is closed on every path before it is renamed")
	for _, call := range find("os.Remove") {
		d := nd(call.Common().Args[0])
		r.Check("C10.3", "remove-target", d == "(*os.File).Name("+tmpDesc+")", c.pos(call), "write removes only its own temporary file (found "+d+")")
	}
	// MkdirAll before CreateTemp, same dir
	mk := find("os.MkdirAll")
	okMk := len(mk) == 1 && nd(mk[0].Common().Args[0]) == dirDesc && ir.MustPassBefore(w, ct.(ssa.Instruction), func(in ssa.Instruction) bool { return in == mk[0].(ssa.Instruction) })
	r.Check("C10.3", "mkdir-first", okMk, c.pos(ct), "the target directory is created before the temporary file")

	// ---- C10.4 who-may-call
	mutating := map[string]bool{
		"os.WriteFile": true, "os.Create": true, "os.OpenFile": true, "os.Rename": true, "os.Remove": true, "os.RemoveAll": true,
		"os.MkdirAll": true, "os.Mkdir": true, "os.CreateTemp": true, "os.MkdirTemp": true, "os.Symlink": true, "os.Link": true, "os.Truncate": true, "os.Chmod": true,
		"(*os.File).Write": true, "(*os.File).WriteString": true, "(*os.File).WriteAt": true, "(*os.File).Truncate": true, "(*os.File).Close": true, "(*os.File).Sync": true,
		"io/ioutil.WriteFile": true, "io/ioutil.TempFile": true,
		"golang.org/x/sys/unix.Renameat2": true, "golang.org/x/sys/unix.Renameat": true, "golang.org/x/sys/unix.Rename": true, "golang.org/x/sys/unix.Unlink": true,
		"syscall.Rename": true, "syscall.Unlink": true, "io.Copy": true, "io.WriteString": true, "fmt.Fprintf": true, "fmt.Fprint": true, "fmt.Fprintln": true,
	}
	allowed := map[string]string{
		"(*Spec).write|os.MkdirAll":                "creates the Spec directory",
		"(*Spec).write|os.CreateTemp":              "the temporary file",
		"(*Spec).write|(*os.File).Write":           "writes the temporary file",
		"(*Spec).write|(*os.File).Close":           "closes the temporary file",
		"(*Spec).write|os.Remove":                  "removes the temporary file after a failed rename",
		"(*Cache).RemoveSpec|os.Remove":            "RemoveSpec's single target",
		"renameIn|golang.org/x/sys/unix.Renameat2": "the atomic rename (linux)",
		"renameIn|os.Rename":                       "the rename (non-linux)",
		"renameIn$1|(*os.File).Close":              "closes the directory handle (read-only open)",
	}
	readOnly := map[string]bool{
		"os.Open": true, "os.ReadFile": true, "os.Stat": true, "os.Lstat": true, "os.IsNotExist": true, "os.IsExist": true, "os.ReadDir": true,
		"os.Getenv": true, "(*os.File).Fd": true, "(*os.File).Name": true, "(*os.File).Read": true, "(*os.File).Readdir": true, "(*os.File).Stat": true,
		"golang.org/x/sys/unix.Lstat": true, "golang.org/x/sys/unix.Stat": true, "golang.org/x/sys/unix.Major": true, "golang.org/x/sys/unix.Minor": true,
		"(os.FileMode).IsDir": true, "(os.FileMode).IsRegular": true, "(io/fs.FileMode).IsDir": true,
	}
	isFS := func(f *ssa.Function) bool {
		if f.Name() == "init" {
			return false // package initialisers
		}
		if mutating[f.String()] {
			return true
		}
		if readOnly[f.String()] {
			return false
		}
		p := c.U.FuncPkgPath(f)
		return p == "os" || p == "syscall" || p == "golang.org/x/sys/unix" || p == "io/ioutil"
	}
	seen := map[string]bool{}
	for _, fn := range c.U.RepoFuncs("cdi") {
		for _, call := range ir.Calls(fn) {
			f := call.Common().StaticCallee()
			if f == nil || !isFS(f) {
				continue
			}
			k := c.U.RelName(fn) + "|" + f.String()
			if f.String() == "(*os.File).Close" && len(call.Common().Args) == 1 {
				// closing a handle that was opened read-only (os.Open) changes nothing on disk,
				// wherever it is written: deferred closure or explicit call
				if ex, isEx := call.Common().Args[0].(*ssa.Extract); isEx && ex.Index == 0 {
					if oc, isCall := ex.Tuple.(*ssa.Call); isCall && oc.Call.StaticCallee() != nil && oc.Call.StaticCallee().String() == "os.Open" {
						k = c.U.RelName(ir.TopLevel(fn)) + "$1|" + f.String()
					}
				}
			}
			if _, listed := allowed[k]; !listed && fn.Parent() != nil {
				// a clean-up moved into a (deferred) closure of the confirmed function is
				// still that function's call site
				k = c.U.RelName(ir.TopLevel(fn)) + "|" + f.String()
			}
			if seen[k] {
				r.Violation("C10.4", "fs-call-twice:"+k, c.pos(call), fmt.Sprintf("%s calls %s more than once: only one such call site was confirmed (a second file would be touched)", c.U.RelName(fn), f.String()))
				continue
			}
			seen[k] = true
			why, ok := allowed[k]
			if ok {
				r.OK("C10.4", "fs-call:"+k, c.pos(call), why)
			} else {
				r.Violation("C10.4", "fs-call:"+k, c.pos(call), fmt.Sprintf("%s calls %s: not one of the confirmed file-system-mutating call sites of pkg/cdi; a Spec file could be created or modified outside the write-to-temp-then-rename protocol", c.U.RelName(fn), f.String()))
			}
		}
	}
	var ks []string
	for k := range seen {
		ks = append(ks, k)
	}
	sort.Strings(ks)
	r.Analysed["C10.fs_mutating_call_sites"] = ks
	for _, must := range []string{"(*Spec).write|os.CreateTemp", "(*Spec).write|(*os.File).Write", "(*Cache).RemoveSpec|os.Remove"} {
		if !seen[must] {
			r.Violation("C10.4", "fs-call-missing:"+must, "", "expected call site "+must+" not found: the write protocol changed")
		}
	}
	// the target path never reaches a file-creating call directly
	for _, fn := range c.U.RepoFuncs("cdi") {
		for _, call := range ir.Calls(fn) {
			f := call.Common().StaticCallee()
			if f == nil || !mutating[f.String()] || f.String() == "os.Remove" {
				continue
			}
			for _, arg := range call.Common().Args {
				d := c.exprDesc(arg)
				if strings.HasSuffix(d, ".path") && !strings.Contains(d, "filepath.") {
					r.Violation("C10.4", "path-direct:"+c.U.RelName(fn), c.pos(call), "the Spec's path itself is handed to "+f.String()+": the file would be touched in place")
				}
			}
		}
	}

	// ---- C10.5
	rin := c.fn("C10.5", "cdi", "renameIn")
	if rin == nil {
		return
	}
	nr := func(v ssa.Value) string { return normExpr(rin, []string{c.exprDesc(v)})[0] }
	var prims []ssa.CallInstruction
	for _, call := range ir.Calls(rin) {
		if f := call.Common().StaticCallee(); f != nil {
			switch f.String() {
			case "golang.org/x/sys/unix.Renameat2", "os.Rename", "golang.org/x/sys/unix.Renameat", "golang.org/x/sys/unix.Rename", "syscall.Rename":
				prims = append(prims, call)
			}
		}
	}
	if len(prims) != 1 {
		r.Violation("C10.5", "primitive", c.U.Pos(rin.Pos()), fmt.Sprintf("%d rename primitives in renameIn (exactly one expected: two steps would not be atomic)", len(prims)))
		return
	}
	p := prims[0]
	pa := p.Common().Args
	switch p.Common().StaticCallee().String() {
	case "golang.org/x/sys/unix.Renameat2":
		fd := "int((*os.File).Fd(os.Open($0)#0))"
		ok := nr(pa[0]) == fd && nr(pa[2]) == fd && nr(pa[1]) == "$1" && nr(pa[3]) == "$2"
		r.Check("C10.5", "renameat2-args", ok, c.pos(p), fmt.Sprintf("Renameat2(dirfd, src, dirfd, dst, flags) with both descriptors from one Open(dir) (found %s, %s, %s, %s)", nr(pa[0]), nr(pa[1]), nr(pa[2]), nr(pa[3])))
		// flags: 0 or RENAME_NOREPLACE(1), NOREPLACE exactly when !overwrite
		okFlags := false
		if phi, isPhi := pa[4].(*ssa.Phi); isPhi && len(phi.Edges) == 2 {
			okFlags = true
			for k, ed := range phi.Edges {
				v, isInt := ir.ConstInt(ed)
				if !isInt || (v != 0 && v != 1) {
					okFlags = false
					continue
				}
				gs := c.edgeGuards(rin, phi.Block().Preds[k], phi.Block())
				var over, notOver bool
				for _, g := range gs {
					if g == "cond:param:overwrite" || g == "!!cond:param:overwrite" {
						over = true
					}
					if g == "!cond:param:overwrite" {
						notOver = true
					}
				}
				if v == 1 && !notOver {
					okFlags = false
				}
				if v == 0 && !over {
					okFlags = false
				}
			}
		}
		r.Check("C10.5", "renameat2-flags", okFlags, c.pos(p), "flags are RENAME_NOREPLACE exactly when overwrite is false, 0 otherwise (found "+nr(pa[4])+")")
	case "os.Rename":
		ok := nr(pa[0]) == "path/filepath.Join([$0,$1])" && nr(pa[1]) == "path/filepath.Join([$0,$2])"
		r.Check("C10.5", "rename-args", ok, c.pos(p), fmt.Sprintf("os.Rename(Join(dir,src), Join(dir,dst)) (found %s, %s)", nr(pa[0]), nr(pa[1])))
	default:
		r.Undecided("C10.5", "primitive-kind", c.pos(p), "rename primitive "+p.Common().StaticCallee().String()+" has no rule")
	}
	// renameIn succeeds only if the primitive succeeded
	succ, _ := c.returnsByOutcome(rin)
	okS := len(succ) > 0
	for _, s := range succ {
		if ir.CanReach(rin, ir.PathQuery{To: s.ret, Stop: func(in ssa.Instruction) bool { return in == p.(ssa.Instruction) }}) {
			okS = false
		}
	}
	// (for os.Rename the result is returned directly)
	if !okS {
		for _, ret := range ir.NormalReturns(rin) {
			if ret.Results[0] == p.Value() {
				okS = true
			}
		}
	}
	r.Check("C10.5", "rename-result", okS, c.U.Pos(rin.Pos()), "renameIn reports success only after the rename primitive ran")
}
