package rules

import (
	"fmt"
	"go/constant"
	"go/token"
	"go/types"
	"regexp"
	"sort"
	"strconv"
	"strings"

	"golang.org/x/tools/go/ssa"

	"cdiverif/internal/ir"
)

// C11 — with auto-refresh the cache converges to the directory contents by itself.

func init() {
	register(&Property{
		ID: "C11",
		Explanation: "Necessary structural conditions of convergence, decided on go/ssa for the watcher goroutine ((*watch).watch), (*watch).update/setup, refreshIfRequired and the query methods: " +
			"(C11.1) the event mask the goroutine tests covers every fsnotify operation that signals a change of directory content - Create (which is also what a file moved in from elsewhere produces), Write, Remove, Rename - for the analysed GOOS (constant branches on runtime.GOOS pruned; bit values read from the fsnotify package); " +
			"(C11.2) events are filtered by file name only when the operation is exactly Write or Create (a Remove/Rename of a directory has no extension), with the Spec extension table; " +
			"(C11.3) from every accepted event every path back to the select passes Lock -> update -> refresh -> Unlock, and a Remove of a tracked directory is reported to update; " +
			"(C11.4) every query method reads the index only after refreshIfRequired, which in auto-refresh mode asks update and refreshes when it reports a change; " +
			"(C11.5) update retries Add for every untracked directory, marks success, clears its error, and reports true when a directory became tracked or was removed; setup registers every directory as untracked first. " +
			"Not decided (the bulk of the property): liveness and pacing, event coalescing or queue overflow, what fsnotify/inotify deliver for a given history, equality of the final index with a fresh cache.",
		Assumptions: []string{"fsnotify delivers at least one event with one of the masked operations after a change of directory content, Create for files moved in", "a later query triggers update() for directories that appeared late"},
		Run:         runC11,
		OtherGOOS:   []string{"darwin", "windows"},
	})
}

func fsnotifyOp(c *Ctx, name string) (int64, bool) {
	for _, sp := range c.U.Prog.AllPackages() {
		if sp.Pkg.Path() == "github.com/fsnotify/fsnotify" {
			if k, ok := sp.Pkg.Scope().Lookup(name).(*types.Const); ok {
				return constant.Int64Val(k.Val())
			}
		}
	}
	return 0, false
}

type watchShape struct {
	fn       *ssa.Function
	header   *ssa.BasicBlock
	sel      *ssa.Select
	opVals   []ssa.Value // loads of event.Op
	maskIf   *ssa.If
	maskPass ir.Edge
	lock     ssa.CallInstruction
	unlock   ssa.CallInstruction
	refresh  ssa.CallInstruction
	updates  []ssa.CallInstruction
}

func analyseWatch(c *Ctx, rule string) *watchShape {
	fn := c.fn(rule, "cdi", "(*watch).watch")
	if fn == nil {
		return nil
	}
	s := &watchShape{fn: fn}
	ir.Instrs(fn, func(in ssa.Instruction) {
		if x, ok := in.(*ssa.Select); ok {
			s.sel = x
		}
	})
	if s.sel == nil || !s.sel.Blocking {
		c.R.Undecided(rule, "anchor:select", c.U.Pos(fn.Pos()), "the watcher goroutine has no blocking select")
		return nil
	}
	for _, h := range backEdgeHeaders(fn) {
		if ir.Dominates(h, s.sel.Block()) || h == s.sel.Block() {
			s.header = h
		}
	}
	if s.header == nil {
		c.R.Undecided(rule, "anchor:event-loop", c.U.Pos(fn.Pos()), "the select is not inside a loop")
		return nil
	}
	// (event.Op & mask) == 0
	var maskCands []*ssa.If
	for _, iff := range ir.Ifs(fn) {
		b, ok := iff.Cond.(*ssa.BinOp)
		if !ok || (b.Op != token.EQL && b.Op != token.NEQ) {
			continue
		}
		and, ok := b.X.(*ssa.BinOp)
		if !ok || and.Op != token.AND {
			continue
		}
		if z, isInt := ir.ConstInt(b.Y); !isInt || z != 0 {
			continue
		}
		if strings.HasSuffix(c.exprDesc(and.X), ".Op") || strings.HasSuffix(c.exprDesc(and.Y), ".Op") {
			maskCands = append(maskCands, iff)
		}
	}
	for _, call := range ir.Calls(fn) {
		if op := c.U.LockOpOf(call); op != nil {
			if op.Acquire {
				s.lock = call
			} else {
				s.unlock = call
			}
			continue
		}
		if c.U.CalleeIs(call, "cdi", "(*watch).update") {
			s.updates = append(s.updates, call)
			continue
		}
		cc := call.Common()
		if !cc.IsInvoke() && cc.StaticCallee() == nil && ir.BuiltinName(call) == "" {
			if par, ok := cc.Value.(*ssa.Parameter); ok && par.Name() != "" {
				s.refresh = call
			}
		}
	}
	// the event mask is the test of the operation bits that decides whether the event is handled
	// at all: it runs before the lock is taken (later tests of the bits, under the lock, classify
	// an accepted event)
	for _, iff := range maskCands {
		underLock := false
		if s.lock != nil {
			hdr := s.header
			underLock = ir.CanReach(fn, ir.PathQuery{From: s.lock.(ssa.Instruction), To: iff, Stop: func(in ssa.Instruction) bool { return in.Block() == hdr }})
		}
		if underLock {
			continue
		}
		b := iff.Cond.(*ssa.BinOp)
		s.maskIf = iff
		succ := 1
		if b.Op == token.NEQ {
			succ = 0
		}
		s.maskPass = ir.Edge{From: iff.Block(), Succ: succ}
	}
	return s
}

var goneRe = regexp.MustCompile(`\.Op & (\d+)\) != 0$`)

func runC11(c *Ctx) {
	r := c.R
	r.Rule("C11.1", "mask: the event mask covers Create, Write, Remove and Rename", 1)
	r.Rule("C11.2", "filter-scope: name filtering applies only to pure Write/Create events, with the Spec extension table", 2)
	r.Rule("C11.3", "refresh-after-event: accepted events always lead to Lock, update, refresh, Unlock", 4)
	r.Rule("C11.4", "requery: queries read the index after refreshIfRequired; refreshIfRequired consults update in auto-refresh mode", 7)
	r.Rule("C11.5", "re-add: update retries untracked directories and reports changes; setup starts all directories untracked", 5)

	s := analyseWatch(c, "C11.1")
	if s != nil {
		fn := s.fn
		// ---- C11.1
		if s.maskIf == nil {
			r.Violation("C11.1", "mask", c.U.Pos(fn.Pos()), "the watcher does not test event.Op against an operation mask")
		} else {
			and := s.maskIf.Cond.(*ssa.BinOp).X.(*ssa.BinOp)
			maskV := and.Y
			if strings.HasSuffix(c.exprDesc(and.Y), ".Op") {
				maskV = and.X
			}
			live := ir.LiveBlocks(fn)
			var vals []int64
			okConst := true
			var collect func(v ssa.Value, seen map[ssa.Value]bool)
			collect = func(v ssa.Value, seen map[ssa.Value]bool) {
				if seen[v] {
					return
				}
				seen[v] = true
				switch x := v.(type) {
				case *ssa.Const:
					if i, ok := ir.ConstInt(x); ok {
						vals = append(vals, i)
					} else {
						okConst = false
					}
				case *ssa.Phi:
					for k, e := range x.Edges {
						pred := x.Block().Preds[k]
						if !live[pred] || !ir.LiveEdge(pred, x.Block()) {
							continue
						}
						collect(e, seen)
					}
				case *ssa.BinOp:
					if x.Op == token.OR {
						// phi | const
						var sub []int64
						old := vals
						vals = nil
						collect(x.X, seen)
						a := vals
						vals = nil
						collect(x.Y, seen)
						b := vals
						for _, p := range a {
							for _, q := range b {
								sub = append(sub, p|q)
							}
						}
						vals = append(old, sub...)
					} else {
						okConst = false
					}
				default:
					okConst = false
				}
			}
			collect(maskV, map[ssa.Value]bool{})
			need := int64(0)
			var names []string
			for _, n := range []string{"Create", "Write", "Remove", "Rename"} {
				if v, ok := fsnotifyOp(c, n); ok {
					need |= v
					names = append(names, fmt.Sprintf("%s=%d", n, v))
				} else {
					okConst = false
				}
			}
			if !okConst || len(vals) == 0 {
				r.Undecided("C11.1", "mask", c.pos(s.maskIf), "the event mask is not a constant (or a choice of constants) on this GOOS")
			} else {
				ok := true
				for _, v := range vals {
					if v&need != need {
						ok = false
					}
				}
				r.Check("C11.1", "mask", ok, c.pos(s.maskIf), fmt.Sprintf("mask value(s) %v on GOOS=%s must contain %v (= %d): a change signalled only by a missing operation - e.g. Create for a file moved into the directory - would never refresh the cache", vals, c.U.GOOS, names, need))
			}
			// events failing the mask go back to the select, nothing else
			fail := ir.Edge{From: s.maskIf.Block(), Succ: 1 - s.maskPass.Succ}
			r.Check("C11.1", "mask-fail-continues", fail.To() == s.header, c.pos(s.maskIf), "events outside the mask just wait for the next event")
		}

		// ---- C11.2: extension tests guarded by Op == Write || Op == Create
		wv, _ := fsnotifyOp(c, "Write")
		cv, _ := fsnotifyOp(c, "Create")
		// what the scanner loads (the extensions its walk callback accepts) - the watcher must
		// react to exactly those files
		var scanExts []string
		if scan := c.U.Func("cdi", "scanSpecDirs"); scan != nil {
			for _, call := range ir.Calls(scan) {
				if f := call.Common().StaticCallee(); f != nil && (f.String() == "path/filepath.Walk" || f.String() == "path/filepath.WalkDir") && len(call.Common().Args) == 2 {
					for _, cb := range c.U.FuncValues(call.Common().Args[1]) {
						for _, consts := range c.extCompareSets(cb) {
							scanExts = append(scanExts, consts...)
						}
					}
				}
			}
		}
		for v, consts := range c.extCompareSets(fn) {
			ok := sameSet(consts, specExts)
			r.Check("C11.2", "ext-table", ok, c.U.Pos(v.Pos()), fmt.Sprintf("the watcher filters names by %v", consts))
			r.Check("C11.2", "ext-agrees-with-scan", len(scanExts) > 0 && sameSet(uniq(consts), uniq(scanExts)), c.U.Pos(v.Pos()), fmt.Sprintf("the watcher reacts to files with the extensions the scanner loads (watcher %v, scanner %v)", uniq(consts), uniq(scanExts)))
			call := v.(*ssa.Call)
			// the Ext call (start of the name filter) is reachable only via Op == Write or Op == Create
			var edges []ir.Edge
			for _, iff := range ir.Ifs(fn) {
				b, ok := iff.Cond.(*ssa.BinOp)
				if !ok || (b.Op != token.EQL && b.Op != token.NEQ) {
					continue
				}
				k, isInt := ir.ConstInt(b.Y)
				if isInt && strings.HasSuffix(c.exprDesc(b.X), ".Op") && (k == wv || k == cv) {
					// the edge on which the operation IS Write / Create
					succ := 0
					if b.Op == token.NEQ {
						succ = 1
					}
					edges = append(edges, ir.Edge{From: iff.Block(), Succ: succ})
				}
			}
			okScope := len(edges) > 0 && ir.OnlyViaEdges(fn, call, edges)
			r.Check("C11.2", "filter-scope", okScope, c.pos(call), "the file name is looked at only when the operation is exactly Write or exactly Create")
			// the argument is the event's name
			r.Check("C11.2", "filter-name", strings.HasSuffix(c.exprDesc(call.Call.Args[0]), ".Name"), c.pos(call), "the name filtered is the event's")
		}

		// ---- C11.3
		if s.lock == nil || s.unlock == nil || s.refresh == nil || len(s.updates) == 0 {
			r.Violation("C11.3", "sequence", c.U.Pos(fn.Pos()), "the watcher loop lacks one of Lock, update, refresh, Unlock")
		} else {
			lockI, unlockI, refI := s.lock.(ssa.Instruction), s.unlock.(ssa.Instruction), s.refresh.(ssa.Instruction)
			isUpd := func(in ssa.Instruction) bool {
				for _, u := range s.updates {
					if u.(ssa.Instruction) == in {
						return true
					}
				}
				return false
			}
			atHeader := func(in ssa.Instruction) bool { return in.Block() == s.header && in == s.header.Instrs[0] }
			// from Lock: update, then refresh, then Unlock, before the next select
			a := !ir.CanReach(fn, ir.PathQuery{From: lockI, ToAny: func(in ssa.Instruction) bool { return in == refI || atHeader(in) }, Stop: isUpd})
			b := !ir.CanReach(fn, ir.PathQuery{From: lockI, ToAny: atHeader, Stop: func(in ssa.Instruction) bool { return in == refI }, PanicIsExit: true}) &&
				!ir.CanReach(fn, ir.PathQuery{From: lockI, Stop: func(in ssa.Instruction) bool { return in == refI }})
			d := !ir.CanReach(fn, ir.PathQuery{From: refI, ToAny: atHeader, Stop: func(in ssa.Instruction) bool { return in == unlockI }})
			r.Check("C11.3", "lock-update-refresh-unlock", a && b && d, c.pos(lockI), fmt.Sprintf("after Lock every path runs update (%v), then refresh (%v), then Unlock (%v) before the next select", a, b, d))
			// from an accepted event the only ways back without refresh are the name-filter rejections
			var rejects []ir.Edge
			for _, iff := range ir.Ifs(fn) {
				for k := 0; k < 2; k++ {
					d := c.exprCond(iff, k, nil)
					if strings.Contains(d, "path/filepath.Ext(") && strings.Contains(d, " != ") && iff.Block().Succs[k] == s.header {
						rejects = append(rejects, ir.Edge{From: iff.Block(), Succ: k})
					}
				}
			}
			if s.maskIf != nil {
				mp := s.maskPass
				esc := ir.CanReach(fn, ir.PathQuery{FromEdge: &mp, ToAny: atHeader, Stop: func(in ssa.Instruction) bool { return in == refI },
					Cut: func(e ir.Edge) bool {
						for _, rj := range rejects {
							if rj == e {
								return true
							}
						}
						return false
					}})
				r.Check("C11.3", "accepted-event-refreshes", !esc, c.pos(s.maskIf), "an event that passes the mask and the name filter always reaches refresh")
			}
			// what is refreshed: the refresh parameter, bound to c.refresh of the same cache as the mutex
			bound := false
			for _, f := range c.U.FuncValues(s.refresh.Common().Value) {
				if c.U.RelName(f) == "(*Cache).refresh" {
					bound = true
				}
			}
			r.Check("C11.3", "refresh-binding", bound, c.pos(refI), "the function the goroutine calls is (*Cache).refresh of the cache that started it")
			// Remove of a tracked directory is passed to update
			okRm := false
			rv, _ := fsnotifyOp(c, "Remove")
			badRm := false
			var gone []string
			for _, u := range s.updates {
				if len(u.Common().Args) != 3 {
					continue
				}
				// the removed list is built where the event is known to be a Remove of a tracked
				// directory: either at the call (update(dirErrors, event.Name)) or earlier (a local
				// list that stays empty otherwise)
				for _, leaf := range phiLeaves(u.Common().Args[2]) {
					if ir.IsNilConst(leaf) {
						continue
					}
					elems := c.U.ContainerElems(leaf)
					if len(elems) != 1 || !strings.HasSuffix(c.exprDesc(elems[0]), ".Name") {
						badRm = true
						continue
					}
					at := u.(ssa.Instruction)
					if li, isInstr := leaf.(ssa.Instruction); isInstr && li.Block() != at.Block() {
						at = li
					}
					var isRemove, tracked bool
					rn, _ := fsnotifyOp(c, "Rename")
					for _, g := range c.exprGuardsOf(fn, at) {
						// the directory is gone from its path when it was removed OR renamed away
						if m := goneRe.FindStringSubmatch(g); m != nil {
							if k, err := strconv.ParseInt(m[1], 10, 64); err == nil && k == rv|rn {
								isRemove = true
							}
						}
						gone = append(gone, g)
						if strings.Contains(g, ".tracked[") && !strings.HasPrefix(g, "!") {
							tracked = true
						}
					}
					if isRemove && tracked {
						okRm = true
					} else {
						badRm = true
					}
				}
			}
			okRm = okRm && !badRm
			// the tracked map is keyed by the configured names, events carry the names fsnotify
			// made (cleaned): the two only meet when the configured names are clean
			specDirsCleanOnly(c, "C11.3", "tracked-names-clean", "fsnotify reports cleaned names, w.tracked[event.Name] finds a directory only under its cleaned name")
			r.Check("C11.3", "removed-dir-reported", okRm, c.U.Pos(fn.Pos()), fmt.Sprintf("an event that says a tracked directory is gone from its path - Remove or Rename - hands it to update as removed, so that it is watched again when it reappears (conditions %v)", gone))
		}
	}

	// ---- C11.4
	for _, name := range []string{"(*Cache).GetDevice", "(*Cache).ListDevices", "(*Cache).ListVendors", "(*Cache).ListClasses", "(*Cache).GetVendorSpecs", "(*Cache).InjectDevices"} {
		fn := c.fn("C11.4", "cdi", name)
		if fn == nil {
			continue
		}
		n := 0
		okAll := true
		ir.Instrs(fn, func(in ssa.Instruction) {
			fa, ok := in.(*ssa.FieldAddr)
			if !ok || !ir.TypeIs(fa.X.Type(), "cdi", "Cache") {
				return
			}
			fname := ir.StructOf(fa.X.Type()).Field(fa.Field).Name()
			if fname != "specs" && fname != "devices" {
				return
			}
			n++
			if !ir.MustPassBefore(fn, in, func(x ssa.Instruction) bool {
				call, ok := x.(ssa.CallInstruction)
				return ok && c.U.CalleeIs(call, "cdi", "(*Cache).refreshIfRequired")
			}) {
				okAll = false
			}
		})
		r.Check("C11.4", "requery:"+name, okAll && n > 0, c.U.Pos(fn.Pos()), fmt.Sprintf("%s reads the index (%d reads) only after refreshIfRequired", name, n))
	}
	if rir := c.fn("C11.4", "cdi", "(*Cache).refreshIfRequired"); rir != nil {
		ups := c.callsTo(rir, false, "cdi", "(*watch).update")
		ok := false
		if len(ups) == 1 {
			gs := normExpr(rir, c.exprGuardsOf(rir, ups[0].(ssa.Instruction)))
			a := normExpr(rir, []string{c.exprDesc(ups[0].Common().Args[1])})[0]
			okG := false
			extraG := false
			for _, g := range gs {
				switch g {
				case "$0.autoRefresh":
					okG = true
				case "!$1":
				default:
					extraG = true // the update is asked under a further condition
				}
			}
			okG = okG && !extraG
			ok = okG && a == "$0.dirErrors" && normExpr(rir, []string{c.exprDesc(ups[0].Common().Args[0])})[0] == "$0.watch"
			// refresh happens when update said true
			refs := c.callsTo(rir, false, "cdi", "(*Cache).refresh")
			if len(refs) >= 1 && len(refs) <= 3 {
				var es []ir.Edge
				rescanEdges := 0
				for _, iff := range ir.Ifs(rir) {
					if iff.Cond == ups[0].Value() {
						es = append(es, ir.Edge{From: iff.Block(), Succ: 0})
					}
					if iff.Cond == ssa.Value(rir.Params[1]) {
						es = append(es, ir.Edge{From: iff.Block(), Succ: 0})
					}
					// "the last scan ran out of descriptors" (C20.7) also asks for a scan; it is
					// consulted in auto-refresh mode only, after update has been given its turn
					if normExpr(rir, []string{c.exprDesc(iff.Cond)})[0] == "$0.rescan" {
						gs := normExpr(rir, c.exprGuardsOf(rir, iff))
						sort.Strings(gs)
						if strings.Join(gs, " & ") == "!$1 & !(*watch).update($0.watch,$0.dirErrors,nil) & $0.autoRefresh" || strings.Join(gs, " & ") == "!$1 & !(*watch).update($0.watch,$0.dirErrors) & $0.autoRefresh" {
							rescanEdges++
							es = append(es, ir.Edge{From: iff.Block(), Succ: 0})
						} else {
							ok = false
						}
					}
				}
				nWant := 2 + rescanEdges
				// each of the two deciding edges leads to a refresh, and no refresh is
				// reached any other way
				for _, e := range es {
					e := e
					reach := false
					for _, ref := range refs {
						if ir.CanReach(rir, ir.PathQuery{FromEdge: &e, To: ref.(ssa.Instruction)}) {
							reach = true
						}
					}
					ok = ok && reach
				}
				ok = ok && len(es) == nWant && rescanEdges <= 1
				for _, ref := range refs {
					ok = ok && ir.OnlyViaEdges(rir, ref.(ssa.Instruction), es)
				}
			} else {
				ok = false
			}
		}
		r.Check("C11.4", "refreshIfRequired", ok, c.U.Pos(rir.Pos()), "refreshIfRequired refreshes exactly when forced or when, in auto-refresh mode, watch.update(c.dirErrors) reports a change")
	}

	// ---- C11.5
	// a watcher is only ever created where its consumer is started: in setup, which configure
	// follows with the goroutine that reads the events. A watcher created anywhere else (e.g. a
	// retry in update) has no reader: events queue up unread while update() stops forcing refreshes
	for _, fn := range c.U.RepoFuncs("cdi") {
		for _, call := range ir.Calls(fn) {
			if f := call.Common().StaticCallee(); f != nil && f.String() == "github.com/fsnotify/fsnotify.NewWatcher" {
				r.Check("C11.5", "watcher-has-consumer:"+c.U.RelName(fn), c.U.RelName(fn) == "(*watch).setup", c.pos(call), "fsnotify.NewWatcher is called in "+c.U.RelName(fn)+" (only setup, whose caller starts the event loop, may create a watcher)")
			}
		}
	}
	c.trackedNeverDeleted("C11.5")
	if up := c.fn("C11.5", "cdi", "(*watch).update"); up != nil {
		adds := []ssa.CallInstruction{}
		for _, call := range ir.Calls(up) {
			if f := call.Common().StaticCallee(); f != nil && f.String() == "(*github.com/fsnotify/fsnotify.Watcher).Add" {
				adds = append(adds, call)
			}
		}
		if len(adds) != 1 {
			r.Violation("C11.5", "add", c.U.Pos(up.Pos()), fmt.Sprintf("%d watcher.Add calls in update (one expected)", len(adds)))
		} else {
			add := adds[0]
			gs := normExpr(up, c.exprGuardsOf(up, add.(ssa.Instruction)))
			var inLoop, untracked bool
			var extra []string
			for _, g := range gs {
				switch g {
				case "loop($0.tracked)":
					inLoop = true
				case "!elem($0.tracked)":
					untracked = true
				case "$0.watcher != nil":
				default:
					extra = append(extra, g)
				}
			}
			argOK := normExpr(up, []string{c.exprDesc(add.Common().Args[1])})[0] == "idx($0.tracked)"
			r.Check("C11.5", "add-untracked", inLoop && untracked && len(extra) == 0 && argOK, c.pos(add), fmt.Sprintf("Add is retried for every directory that is not tracked yet (conditions %v)", gs))
			// on success: tracked[dir] = true and update reported
			okMark := false
			ir.Instrs(up, func(in ssa.Instruction) {
				mu, ok := in.(*ssa.MapUpdate)
				if !ok {
					return
				}
				if b, isB := ir.ConstBool(mu.Value); isB && b && normExpr(up, []string{c.exprDesc(mu.Map)})[0] == "$0.tracked" {
					for _, g := range normExpr(up, c.exprGuardsOf(up, in)) {
						if strings.HasSuffix(g, "Add($0.watcher,idx($0.tracked)) == nil") {
							okMark = true
						}
					}
				}
			})
			r.Check("C11.5", "mark-tracked", okMark, c.pos(add), "a successful Add marks the directory tracked")
			// a successful Add makes update report a change (so that the directory's content is loaded)
			aerr := add.Value()
			for _, iff := range ir.Ifs(up) {
				tv, nilSucc, ok := ir.NilTest(iff)
				if !ok || tv != aerr {
					continue
				}
				succEdge := ir.Edge{From: iff.Block(), Succ: nilSucc}
				okTrue, n := true, 0
				ir.EnumPaths(up, &succEdge, false, func(p ir.BlockPath, end ssa.Instruction) {
					ret, isRet := end.(*ssa.Return)
					if !isRet || !ir.FeasiblePath(p) {
						return
					}
					n++
					if b, isB := ir.ConstBool(ir.ResolveOnPath(ir.ReturnResult(ret, 0), p)); !isB || !b {
						okTrue = false
					}
				})
				r.Check("C11.5", "add-reports-change", okTrue && n > 0, c.pos(iff), "after a successful Add every path returns true (the caller refreshes and loads the directory's content)")
			}
		}
		// result: true iff something was added or removed; nil watcher -> true (C20.4)
		okRes := false
		for _, ret := range ir.NormalReturns(up) {
			leaves := phiLeaves(ret.Results[0])
			hasTrue, hasFalseInit := false, false
			for _, lv := range leaves {
				if b, ok := ir.ConstBool(lv); ok {
					if b {
						hasTrue = true
					} else {
						hasFalseInit = true
					}
				}
			}
			if hasTrue && hasFalseInit {
				okRes = true
			}
		}
		r.Check("C11.5", "reports-change", okRes, c.U.Pos(up.Pos()), "update starts from 'no change' and reports true once a directory was added or removed")
		// removed dirs become untracked
		okRem := false
		ir.Instrs(up, func(in ssa.Instruction) {
			mu, ok := in.(*ssa.MapUpdate)
			if !ok {
				return
			}
			if b, isB := ir.ConstBool(mu.Value); isB && !b && normExpr(up, []string{c.exprDesc(mu.Key)})[0] == "elem($2)" {
				okRem = true
			}
		})
		// ... and its stale watch is dropped: fsnotify keeps the path of a directory that was
		// renamed away; a later Add of the same path would reuse that entry and report the new
		// directory's events under a wrong name (which its own filter then discards)
		okUnwatch := false
		for _, call := range ir.Calls(up) {
			if f := call.Common().StaticCallee(); f != nil && f.String() == "(*github.com/fsnotify/fsnotify.Watcher).Remove" {
				if normExpr(up, []string{c.exprDesc(call.Common().Args[1])})[0] == "elem($2)" {
					okUnwatch = true
					for _, g := range normExpr(up, c.exprGuardsOf(up, call.(ssa.Instruction))) {
						if g != "loop($2)" && g != "$0.watcher != nil" && !strings.HasPrefix(g, "loopdone(") {
							okUnwatch = false
						}
					}
				}
			}
		}
		r.Check("C11.5", "removed-unwatched", okUnwatch, c.U.Pos(up.Pos()), "for every directory reported as removed the watch on its path is dropped before it may be added again")
		r.Check("C11.5", "removed-untracked", okRem, c.U.Pos(up.Pos()), "a removed directory becomes untracked again (so that it is re-added when it reappears)")
	}
	if su := c.fn("C11.5", "cdi", "(*watch).setup"); su != nil {
		okInit := false
		ir.Instrs(su, func(in ssa.Instruction) {
			mu, ok := in.(*ssa.MapUpdate)
			if !ok {
				return
			}
			if b, isB := ir.ConstBool(mu.Value); isB && !b && normExpr(su, []string{c.exprDesc(mu.Key)})[0] == "elem($1)" {
				for _, l := range ir.Loops(su) {
					if l.Complete && l.BodyBlocks()[mu.Block()] {
						okInit = true
					}
				}
			}
		})
		calls := c.callsTo(su, false, "cdi", "(*watch).update")
		r.Check("C11.5", "setup", okInit && len(calls) == 1, c.U.Pos(su.Pos()), "setup registers every configured directory as untracked and then lets update add them")
	}
}

// trackedNeverDeleted: tracked directories are never forgotten: a directory whose
// Add fails stays pending whatever the error (ENOENT alone would be a wrong
// criterion: ENOTDIR or EACCES are repaired later too).
func (c *Ctx) trackedNeverDeleted(rule string) {
	n := 0
	for _, fn := range c.U.RepoFuncs("cdi") {
		for _, call := range ir.Calls(fn) {
			if ir.BuiltinName(call) == "delete" && strings.HasSuffix(c.exprDesc(call.Common().Args[0]), ".tracked") {
				n++
				c.R.Violation(rule, "tracked-never-deleted:"+c.U.RelName(fn), c.pos(call), "an entry of the tracked-directories table is deleted in "+c.U.RelName(fn)+": that directory is never watched or retried again, its error entry never goes away after the repair")
			}
		}
	}
	if n == 0 {
		c.R.OK(rule, "tracked-never-deleted", "", "no entry of the tracked-directories table is ever deleted: a directory that cannot be watched stays pending and is retried at every update")
	}
}

func uniq(a []string) []string {
	m := map[string]bool{}
	var out []string
	for _, x := range a {
		if !m[x] {
			m[x] = true
			out = append(out, x)
		}
	}
	sort.Strings(out)
	return out
}

// addReportsChange: in (*watch).update, after watcher.Add succeeded every feasible path
// returns true. found=false when the anchor (one Add call with a nil test) is missing.
func addReportsChange(c *Ctx) (ok, found bool, pos string) {
	up := c.U.Func("cdi", "(*watch).update")
	if up == nil {
		return false, false, ""
	}
	var adds []ssa.CallInstruction
	for _, call := range ir.Calls(up) {
		if f := call.Common().StaticCallee(); f != nil && f.String() == "(*github.com/fsnotify/fsnotify.Watcher).Add" {
			adds = append(adds, call)
		}
	}
	if len(adds) != 1 {
		return false, false, c.U.Pos(up.Pos())
	}
	aerr := adds[0].Value()
	ok = true
	for _, iff := range ir.Ifs(up) {
		tv, nilSucc, isTest := ir.NilTest(iff)
		if !isTest || tv != aerr {
			continue
		}
		found = true
		pos = c.pos(iff)
		succEdge := ir.Edge{From: iff.Block(), Succ: nilSucc}
		n := 0
		ir.EnumPaths(up, &succEdge, false, func(p ir.BlockPath, end ssa.Instruction) {
			ret, isRet := end.(*ssa.Return)
			if !isRet || !ir.FeasiblePath(p) {
				return
			}
			n++
			if b, isB := ir.ConstBool(ir.ResolveOnPath(ir.ReturnResult(ret, 0), p)); !isB || !b {
				ok = false
			}
		})
		if n == 0 {
			ok = false
		}
	}
	return ok && found, found, pos
}

// dirErrorCleared: in (*watch).update every path from the success edge of watcher.Add to the
// next iteration or a return deletes the directory's entry from the dirErrors parameter.
func dirErrorCleared(c *Ctx) (ok, found bool, pos string) {
	up := c.U.Func("cdi", "(*watch).update")
	if up == nil || len(up.Params) < 2 {
		return false, false, ""
	}
	var add ssa.CallInstruction
	for _, call := range ir.Calls(up) {
		if f := call.Common().StaticCallee(); f != nil && f.String() == "(*github.com/fsnotify/fsnotify.Watcher).Add" {
			add = call
		}
	}
	if add == nil {
		return false, false, c.U.Pos(up.Pos())
	}
	isClear := func(in ssa.Instruction) bool {
		call, ok := in.(*ssa.Call)
		if !ok || ir.BuiltinName(call) != "delete" || len(call.Call.Args) != 2 {
			return false
		}
		return call.Call.Args[0] == ssa.Value(up.Params[1]) && call.Call.Args[1] == add.Common().Args[1]
	}
	ok = true
	for _, iff := range ir.Ifs(up) {
		tv, nilSucc, isTest := ir.NilTest(iff)
		if !isTest || tv != add.Value() {
			continue
		}
		found = true
		pos = c.pos(iff)
		e := ir.Edge{From: iff.Block(), Succ: nilSucc}
		hdr := iff.Block()
		for _, l := range ir.Loops(up) {
			if l.BodyBlocks()[iff.Block()] {
				hdr = l.Header
			}
		}
		if ir.CanReach(up, ir.PathQuery{FromEdge: &e, ToAny: func(in ssa.Instruction) bool {
			_, isRet := in.(*ssa.Return)
			return isRet || in.Block() == hdr
		}, Stop: isClear}) {
			ok = false
		}
	}
	return ok && found, found, pos
}
