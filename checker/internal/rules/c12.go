package rules

import (
	"fmt"
	"go/types"
	"sort"
	"strings"

	"golang.org/x/tools/go/ssa"

	"cdiverif/internal/ir"
)

// C12 — concurrent use of a cache is race-free, every result reflects one snapshot.
//
// Decided structurally:
//   C12.1 guarded-by: every access to a field of Cache (except the mutex) or of
//         watch, every in-place operation on a container held in such a field,
//         and every access to the package-level validator, happens with the
//         guarding lock held on all paths - locally, or by every caller
//         (interprocedural requirement propagation), for every entry point.
//   C12.2 no-relock: no function that (transitively) acquires a lock is called
//         while that lock is held.
//   C12.3 pairing and order: every Lock is released on every path to a return;
//         the lock-order graph is acyclic.
//   C12.4 handed-out references are immutable: containers reachable from the
//         index fields that exported methods hand out are never written in
//         place after publication.

func init() {
	register(&Property{
		ID: "C12",
		Explanation: "Static lock discipline for pkg/cdi: a must-hold lockset analysis per function (Lock/Unlock/defer Unlock of sync.Mutex and sync.RWMutex, lock classes by owning type or global) combined with bottom-up requirement summaries over resolved calls (static callees, closures, bound method values, function-typed parameters traced to call-site arguments). " +
			"Guarded memory = fields of cdi.Cache and cdi.watch, containers stored in them that are mutated in place (dirErrors, tracked), and the specValidator global. Every entry point (exported function or method of pkg/cdi, goroutine body) must end up with no unmet requirement. " +
			"Also decided: no call path re-acquires a held lock, every Lock is released on every path, lock order is acyclic, and memory handed out to callers (slices/maps/objects reachable from c.specs, c.devices, c.errors) is never written in place after it was published (write-effect analysis over access paths). " +
			"This decides the locking structure, not schedule-level behaviour: it does not prove absence of races inside dependencies (fsnotify, yaml) nor on objects the caller owns, and it does not model what a query observes.",
		Assumptions: []string{
			"sync.Mutex/RWMutex provide mutual exclusion; a lock class identifies all mutex instances of one owning type (instance-insensitive)",
			"fsnotify, filepath.Walk and other dependencies do not touch Cache/watch memory except through the callbacks and arguments passed to them",
			"callers do not mutate objects handed out by getters (documented as read-only)",
		},
		Run: runC12,
	})
}

const cacheLock = "Cache.Mutex"

type lockReq struct {
	Class   string // lock class required; "" = not yet known (container parameter)
	Write   bool
	Path    ir.Path // accessed memory, in the function's own terms
	What    string  // description of the access
	Witness string  // position chain
	// Held: for requirements whose class is not known yet, the locks held at
	// the access and at every call site the requirement was lifted through.
	Held ir.LockSet
}

type lockSummary struct {
	Reqs     []lockReq
	Acquires map[string]string // class -> witness
	Spawns   bool
}

type c12 struct {
	c       *Ctx
	sum     map[*ssa.Function]*lockSummary
	busy    map[*ssa.Function]bool
	li      map[*ssa.Function]*ir.LockInfo
	access  int // guarded accesses examined
	covered int // covered locally
	order   map[string]map[string]string
}

func runC12(c *Ctx) {
	r := c.R
	r.Rule("C12.1", "guarded-by: Cache/watch fields, their in-place-mutated containers and the validator global are only accessed with the guarding lock held, for every entry point", 45)
	r.Rule("C12.2", "no-relock: no lock is acquired (directly or in a callee) while already held", 10)
	r.Rule("C12.3", "pairing/order: every Lock is released on every path to a return; lock order is acyclic", 10)
	r.Rule("C12.4", "handed-out references immutable: no in-place write to containers/objects reachable from the published index fields", 3)

	a := &c12{c: c, sum: map[*ssa.Function]*lockSummary{}, busy: map[*ssa.Function]bool{},
		li: map[*ssa.Function]*ir.LockInfo{}, order: map[string]map[string]string{}}

	fns := c.U.RepoFuncs("cdi")
	if len(fns) < 80 {
		r.Undecided("C12.1", "functions", "", fmt.Sprintf("only %d functions found in pkg/cdi", len(fns)))
	}
	// the lock classes this rule set knows must exist
	cacheT := c.U.NamedType("cdi", "Cache")
	watchT := c.U.NamedType("cdi", "watch")
	if cacheT == nil || watchT == nil {
		r.Undecided("C12.1", "anchor:types", "", "types cdi.Cache / cdi.watch not found")
		return
	}
	st := ir.StructOf(cacheT)
	hasMutex := false
	for i := 0; i < st.NumFields(); i++ {
		if st.Field(i).Name() == "Mutex" && st.Field(i).Type().String() == "sync.Mutex" {
			hasMutex = true
		}
	}
	if !hasMutex {
		r.Undecided("C12.1", "anchor:Cache.Mutex", "", "cdi.Cache no longer embeds sync.Mutex: the lock model of this rule set does not apply")
		return
	}

	// entry points: exported functions and methods (on exported or unexported
	// receivers reachable by API users: Cache, Spec, Device, ContainerEdits...)
	var entries []*ssa.Function
	for _, fn := range fns {
		if fn.Parent() != nil {
			continue
		}
		if fn.Object() == nil || !fn.Object().Exported() {
			continue
		}
		entries = append(entries, fn)
	}
	sort.Slice(entries, func(i, j int) bool { return c.U.RelName(entries[i]) < c.U.RelName(entries[j]) })

	for _, fn := range entries {
		s := a.summary(fn)
		key := "entry:" + c.U.RelName(fn)
		if len(s.Reqs) == 0 {
			r.OK("C12.1", key, c.U.Pos(fn.Pos()), "no unmet lock requirement")
			continue
		}
		for _, q := range dedupReqs(s.Reqs) {
			cl := q.Class
			if cl == "" {
				continue // container parameter of an exported function: caller-owned
			}
			r.Violation("C12.1", key+":"+q.What, c.U.Pos(fn.Pos()),
				fmt.Sprintf("entry point %s reaches %s without holding %s: %s", c.U.RelName(fn), q.What, cl, q.Witness))
		}
		if onlyUnknown(s.Reqs) {
			r.OK("C12.1", key, c.U.Pos(fn.Pos()), "only caller-owned containers accessed")
		}
	}
	// goroutine bodies and escaping closures
	for _, fn := range fns {
		for _, b := range fn.Blocks {
			for _, in := range b.Instrs {
				g, ok := in.(*ssa.Go)
				if !ok {
					continue
				}
				for _, callee := range c.U.Callees(g) {
					s := a.summary(callee)
					key := "go:" + c.U.RelName(callee)
					bad := false
					for _, q := range dedupReqs(s.Reqs) {
						// requirements on parameters of the goroutine function are
						// translated to the spawning site: nothing held there counts
						if q.Class == "" {
							// container parameter: resolve at the go statement
							cls := a.classAtSite(g, callee, q)
							if cls == "" {
								continue
							}
							if w, ok := q.Held[cls]; ok && (w || !q.Write) {
								continue
							}
							q.Class = cls
						}
						bad = true
						r.Violation("C12.1", key+":"+q.What, c.pos(in),
							fmt.Sprintf("goroutine %s accesses %s without holding %s: %s", c.U.RelName(callee), q.What, q.Class, q.Witness))
					}
					if !bad {
						r.OK("C12.1", key, c.pos(in), "goroutine body has no unmet lock requirement")
					}
				}
			}
		}
	}
	// Option-typed dynamic calls: an option may touch any Cache field
	optT := c.U.NamedType("cdi", "Option")
	for _, fn := range fns {
		li := a.lockInfo(fn)
		for _, call := range ir.Calls(fn) {
			cc := call.Common()
			if cc.IsInvoke() || cc.StaticCallee() != nil || optT == nil {
				continue
			}
			if !types.Identical(cc.Value.Type(), optT) || len(cc.Args) != 1 {
				continue
			}
			key := "option-call:" + c.U.RelName(fn)
			held := li.Before[call.(ssa.Instruction)]
			if held[cacheLock] {
				r.OK("C12.1", key, c.pos(call), "Option applied with the cache lock held")
				continue
			}
			if a.freshUnpublished(fn, cc.Args[0]) {
				r.OK("C12.1", key, c.pos(call), "Option applied to a cache that is not yet published")
				continue
			}
			// requirement moves to the callers of fn
			if a.callersHold(fn, cacheLock, map[*ssa.Function]bool{}) {
				r.OK("C12.1", key, c.pos(call), "Option applied in a function all of whose callers hold the cache lock")
			} else {
				r.Violation("C12.1", key, c.pos(call), "an Option (which may write any Cache field) is applied to a published cache without the cache lock")
			}
		}
	}
	r.Analysed["C12.guarded_accesses_examined"] = a.access
	r.Analysed["C12.guarded_accesses_covered_locally"] = a.covered
	if a.access < 45 {
		r.Undecided("C12.1", "floor:accesses", "", fmt.Sprintf("only %d guarded accesses found (floor 45)", a.access))
	}

	a.relock(fns)
	a.pairing(fns)
	a.handedOut(fns)
	r.Rule("C12.5", "one-snapshot: an operation takes the cache lock once - not once per looked-up item, and not a second time to publish what it computed from data read under the first", 20)
	a.oneSection(fns)
	c.noRebuildAfterLookup("C12.5", c.U.Func("cdi", "(*Cache).InjectDevices"))
}

func onlyUnknown(rs []lockReq) bool {
	if len(rs) == 0 {
		return false
	}
	for _, q := range rs {
		if q.Class != "" {
			return false
		}
	}
	return true
}

func dedupReqs(rs []lockReq) []lockReq {
	seen := map[string]bool{}
	var out []lockReq
	for _, q := range rs {
		k := q.Class + "|" + q.What + "|" + q.Held.String()
		if !seen[k] {
			seen[k] = true
			out = append(out, q)
		}
	}
	sort.Slice(out, func(i, j int) bool { return out[i].What < out[j].What })
	return out
}

func (a *c12) lockInfo(fn *ssa.Function) *ir.LockInfo {
	if li, ok := a.li[fn]; ok {
		return li
	}
	li := a.c.U.LockAnalysis(fn)
	a.li[fn] = li
	return li
}

// guardClass: the lock class guarding memory denoted by path p, "" if none.
func (a *c12) guardClass(p ir.Path) (string, string) {
	for _, s := range p.Sels {
		if s.F == nil {
			continue
		}
		owner := a.fieldOwner(s.F)
		switch owner {
		case "Cache":
			if s.F.Name() == "Mutex" {
				continue
			}
			return cacheLock, "Cache." + s.F.Name()
		case "watch":
			return cacheLock, "watch." + s.F.Name()
		}
	}
	if g, ok := p.Root.(*ssa.Global); ok && g.Name() == "specValidator" {
		return "global:validatorLock", "global specValidator"
	}
	return "", ""
}

var ownerMemo = map[*types.Var]string{}

func (a *c12) fieldOwner(f *types.Var) string {
	if o, ok := ownerMemo[f]; ok {
		return o
	}
	o := ""
	for _, tn := range []string{"Cache", "watch"} {
		t := a.c.U.NamedType("cdi", tn)
		if t == nil {
			continue
		}
		st := ir.StructOf(t)
		for i := 0; i < st.NumFields(); i++ {
			if st.Field(i) == f {
				o = tn
			}
		}
	}
	ownerMemo[f] = o
	return o
}

type access struct {
	paths []ir.Path
	write bool
	what  string
	in    ssa.Instruction
}

// accessesOf lists the memory accesses of an instruction that matter for
// the lock discipline.
func (a *c12) accessesOf(in ssa.Instruction) []access {
	u := a.c.U
	var out []access
	switch x := in.(type) {
	case *ssa.FieldAddr:
		st := ir.StructOf(x.X.Type())
		if st == nil {
			return nil
		}
		f := st.Field(x.Field)
		owner := a.fieldOwner(f)
		if owner == "" || f.Name() == "Mutex" {
			return nil
		}
		write := false
		if x.Referrers() != nil {
			for _, r := range *x.Referrers() {
				if s, ok := r.(*ssa.Store); ok && s.Addr == x {
					write = true
				}
			}
		}
		var ps []ir.Path
		for _, p := range u.PathsOf(x.X) {
			ps = append(ps, ir.Path{Root: p.Root, Res: p.Res, Sels: append(append([]ir.Sel{}, p.Sels...), ir.Sel{F: f}), Trunc: p.Trunc})
		}
		out = append(out, access{ps, write, "field " + owner + "." + f.Name(), in})
	case *ssa.MapUpdate:
		out = append(out, access{u.PathsOf(x.Map), true, "map update", in})
	case *ssa.Lookup:
		if _, isMap := x.X.Type().Underlying().(*types.Map); isMap {
			out = append(out, access{u.PathsOf(x.X), false, "map lookup", in})
		}
	case *ssa.Range:
		if _, isMap := x.X.Type().Underlying().(*types.Map); isMap {
			out = append(out, access{u.PathsOf(x.X), false, "map range", in})
		}
	case *ssa.UnOp:
		if g, ok := x.X.(*ssa.Global); ok && g.Name() == "specValidator" {
			out = append(out, access{[]ir.Path{{Root: g}}, false, "global specValidator (read)", in})
		}
	case *ssa.Store:
		if g, ok := x.Addr.(*ssa.Global); ok && g.Name() == "specValidator" {
			out = append(out, access{[]ir.Path{{Root: g}}, true, "global specValidator (write)", in})
		}
	case ssa.CallInstruction:
		switch ir.BuiltinName(x) {
		case "delete":
			out = append(out, access{u.PathsOf(x.Common().Args[0]), true, "map delete", in})
		case "len":
			arg := x.Common().Args[0]
			if _, isMap := arg.Type().Underlying().(*types.Map); isMap {
				out = append(out, access{u.PathsOf(arg), false, "map len", in})
			}
		}
	}
	return out
}

func isFreshRoot(p ir.Path, fn *ssa.Function) bool {
	switch r := p.Root.(type) {
	case *ssa.Alloc:
		for f := fn; f != nil; f = f.Parent() {
			if r.Parent() == f {
				return true
			}
		}
		return r.Parent() == fn
	case *ssa.MakeMap, *ssa.MakeSlice, *ssa.MakeChan:
		return true
	case *ssa.Const:
		return true
	}
	return p.Kind() == ir.RootCall || p.Kind() == ir.RootConst || p.Kind() == ir.RootFresh
}

// summary computes the lock requirements fn imposes on its callers.
func (a *c12) summary(fn *ssa.Function) *lockSummary {
	if s, ok := a.sum[fn]; ok {
		return s
	}
	if a.busy[fn] {
		return &lockSummary{Acquires: map[string]string{}}
	}
	a.busy[fn] = true
	defer delete(a.busy, fn)
	u := a.c.U
	s := &lockSummary{Acquires: map[string]string{}}
	if len(fn.Blocks) == 0 || !u.IsRepoFunc(fn) {
		a.sum[fn] = s
		return s
	}
	li := a.lockInfo(fn)
	for _, op := range li.Ops {
		if op.Acquire && op.Class != "" {
			s.Acquires[op.Class] = a.c.pos(op.Call.(ssa.Instruction))
		}
	}
	if ir.HasGo(fn) {
		s.Spawns = true
	}
	inPkgCDI := u.FuncPkgPath(fn) == ir.PkgAlias["cdi"]
	for _, b := range fn.Blocks {
		for _, in := range b.Instrs {
			held := li.Before[in]
			if inPkgCDI {
				for _, ac := range a.accessesOf(in) {
					a.noteAccess(s, fn, held, ac, a.c.pos(in))
				}
			}
			call, ok := in.(ssa.CallInstruction)
			if !ok {
				continue
			}
			if _, isGo := in.(*ssa.Go); isGo {
				continue // goroutine bodies are entry points of their own
			}
			callees, viaArg := a.calleesWithCallbacks(call)
			for _, callee := range callees {
				cs := a.summary(callee)
				if cs.Spawns {
					s.Spawns = true
				}
				for cl, w := range cs.Acquires {
					if _, ok := s.Acquires[cl]; !ok {
						s.Acquires[cl] = w
					}
				}
				for _, q := range cs.Reqs {
					a.liftReq(s, fn, held, call, callee, q, viaArg[callee])
				}
			}
		}
	}
	s.Reqs = dedupReqs(s.Reqs)
	a.sum[fn] = s
	return s
}

// calleesWithCallbacks: resolved callees of the call, plus function values
// passed as arguments to callees whose body is not analysed (filepath.Walk,
// sync.Once.Do, sort.Slice ...): those run synchronously at this site.
func (a *c12) calleesWithCallbacks(call ssa.CallInstruction) ([]*ssa.Function, map[*ssa.Function]bool) {
	u := a.c.U
	viaArg := map[*ssa.Function]bool{}
	callees := u.Callees(call)
	external := len(callees) == 0
	for _, f := range callees {
		if !u.IsRepoFunc(f) {
			external = true
		}
	}
	if external && ir.BuiltinName(call) == "" {
		for _, arg := range call.Common().Args {
			if _, ok := arg.Type().Underlying().(*types.Signature); !ok {
				continue
			}
			for _, f := range u.FuncValues(arg) {
				if u.IsRepoFunc(f) {
					callees = append(callees, f)
					viaArg[f] = true
				}
			}
		}
	}
	return callees, viaArg
}

func (a *c12) noteAccess(s *lockSummary, fn *ssa.Function, held ir.LockSet, ac access, pos string) {
	counted := false
	for _, p := range ac.paths {
		cl, what := a.guardClass(p)
		if cl == "" {
			// container held in a parameter: class unknown until a caller is seen
			if par, ok := p.Root.(*ssa.Parameter); ok && len(p.Sels) == 0 && strings.HasPrefix(ac.what, "map") && par.Parent() == fn {
				s.Reqs = append(s.Reqs, lockReq{Class: "", Write: ac.write, Path: p, What: ac.what + " on parameter " + par.Name(), Witness: pos, Held: cloneSet(held)})
			}
			continue
		}
		if !counted {
			a.access++
			counted = true
		}
		if strings.HasPrefix(ac.what, "map") {
			what = ac.what + " on " + what
		}
		if w, ok := held[cl]; ok && (w || !ac.write) {
			a.covered++
			continue
		}
		if isFreshRoot(p, fn) && !a.publishedBefore(fn, p, ac.in) {
			continue
		}
		s.Reqs = append(s.Reqs, lockReq{Class: cl, Write: ac.write, Path: p, What: what, Witness: pos})
	}
}

// publishedBefore: object p.Root (created in fn) may already be visible to
// other goroutines when instruction `at` executes: some path from the
// allocation to `at` passes a call that spawns a goroutine.
func (a *c12) publishedBefore(fn *ssa.Function, p ir.Path, at ssa.Instruction) bool {
	root, ok := p.Root.(ssa.Instruction)
	if !ok || root.Parent() != fn {
		return false
	}
	spawning := func(in ssa.Instruction) bool {
		if _, ok := in.(*ssa.Go); ok {
			return true
		}
		call, ok := in.(ssa.CallInstruction)
		if !ok {
			return false
		}
		for _, f := range a.c.U.Callees(call) {
			if a.summary(f).Spawns {
				return true
			}
		}
		return false
	}
	// is there a path root -> spawning -> at ?
	for _, b := range fn.Blocks {
		for _, in := range b.Instrs {
			if in == at || !spawning(in) {
				continue
			}
			if (ir.CanReach(fn, ir.PathQuery{From: root, To: in}) || root.Block() == in.Block()) &&
				ir.CanReach(fn, ir.PathQuery{From: in, To: at}) {
				return true
			}
		}
	}
	return false
}

// freshUnpublished: value v is an object created in fn that no goroutine can
// know yet at any point of fn before a lock is taken.
func (a *c12) freshUnpublished(fn *ssa.Function, v ssa.Value) bool {
	for _, p := range a.c.U.PathsOf(v) {
		if !isFreshRoot(p, fn) {
			return false
		}
	}
	return true
}

// liftReq translates a callee requirement to the call site in fn.
func (a *c12) liftReq(s *lockSummary, fn *ssa.Function, held ir.LockSet, call ssa.CallInstruction, callee *ssa.Function, q lockReq, viaCallback bool) {
	u := a.c.U
	pos := a.c.pos(call.(ssa.Instruction))
	wit := pos + " -> " + u.RelName(callee) + " -> " + q.Witness
	var paths []ir.Path
	if viaCallback {
		paths = []ir.Path{q.Path}
	} else {
		paths = u.Translate(call, callee, q.Path)
	}
	if q.Class != "" {
		if w, ok := held[q.Class]; ok && (w || !q.Write) {
			return
		}
		// exempt: the object is fresh in fn and not yet published
		allFresh := len(paths) > 0
		for _, p := range paths {
			if !isFreshRoot(p, fn) || a.publishedBefore(fn, p, call.(ssa.Instruction)) {
				allFresh = false
			}
		}
		if _, isGlobal := q.Path.Root.(*ssa.Global); isGlobal {
			allFresh = false
		}
		if allFresh && !a.summary(callee).Spawns {
			return
		}
		if len(paths) == 0 {
			paths = []ir.Path{q.Path}
		}
		s.Reqs = append(s.Reqs, lockReq{Class: q.Class, Write: q.Write, Path: paths[0], What: q.What, Witness: wit})
		return
	}
	// container parameter: classify at this site
	along := cloneSet(q.Held)
	for k, v := range held {
		along[k] = along[k] || v
	}
	for _, p := range paths {
		cl, what := a.guardClass(p)
		if cl != "" {
			a.access++
			if w, ok := along[cl]; ok && (w || !q.Write) {
				a.covered++
				continue
			}
			s.Reqs = append(s.Reqs, lockReq{Class: cl, Write: q.Write, Path: p, What: strings.SplitN(q.What, " on parameter", 2)[0] + " on " + what, Witness: wit})
			continue
		}
		if par, ok := p.Root.(*ssa.Parameter); ok && len(p.Sels) == 0 && par.Parent() == fn {
			s.Reqs = append(s.Reqs, lockReq{Class: "", Write: q.Write, Path: p, What: strings.SplitN(q.What, " on parameter", 2)[0] + " on parameter " + par.Name(), Witness: wit, Held: along})
		}
	}
}

// classAtSite resolves a container-parameter requirement of a goroutine
// function at the go statement.
func (a *c12) classAtSite(g *ssa.Go, callee *ssa.Function, q lockReq) string {
	for _, p := range a.c.U.Translate(g, callee, q.Path) {
		if cl, _ := a.guardClass(p); cl != "" {
			return cl
		}
		// follow parameters of the spawning function to its callers
		if par, ok := p.Root.(*ssa.Parameter); ok && len(p.Sels) == 0 {
			fn := par.Parent()
			for _, site := range a.c.U.CallSitesOf(fn) {
				for _, pp := range a.c.U.Translate(site, fn, p) {
					if cl, _ := a.guardClass(pp); cl != "" {
						return cl
					}
				}
			}
		}
	}
	return ""
}

// callersHold: every static call site of fn holds class (recursively through
// callers that do not hold it themselves); false if fn has no callers.
func (a *c12) callersHold(fn *ssa.Function, class string, seen map[*ssa.Function]bool) bool {
	if seen[fn] {
		return true
	}
	seen[fn] = true
	sites := a.c.U.CallSitesOf(fn)
	if len(sites) == 0 {
		return false
	}
	for _, s := range sites {
		caller := s.Parent()
		held := a.lockInfo(caller).Before[s.(ssa.Instruction)]
		if held[class] {
			continue
		}
		if len(s.Common().Args) > 0 && a.freshUnpublished(caller, s.Common().Args[0]) && !a.publishedBefore(caller, firstPath(a.c.U.PathsOf(s.Common().Args[0])), s.(ssa.Instruction)) {
			continue
		}
		if !a.callersHold(caller, class, seen) {
			return false
		}
	}
	return true
}

func cloneSet(s ir.LockSet) ir.LockSet {
	n := ir.LockSet{}
	for k, v := range s {
		n[k] = v
	}
	return n
}

func firstPath(ps []ir.Path) ir.Path {
	if len(ps) > 0 {
		return ps[0]
	}
	return ir.Path{}
}

// relock: C12.2.
func (a *c12) relock(fns []*ssa.Function) {
	r := a.c.R
	n := 0
	for _, fn := range fns {
		li := a.lockInfo(fn)
		for _, b := range fn.Blocks {
			for _, in := range b.Instrs {
				call, ok := in.(ssa.CallInstruction)
				if !ok {
					continue
				}
				if _, isGo := in.(*ssa.Go); isGo {
					continue
				}
				held := li.Before[in]
				if len(held) == 0 {
					continue
				}
				if op := a.c.U.LockOpOf(call); op != nil {
					if op.Acquire && !op.Defer {
						n++
						if _, ok := held[op.Class]; ok && !(op.Read && !held[op.Class]) {
							r.Violation("C12.2", "relock:"+a.c.U.RelName(fn)+":"+op.Class, a.c.pos(in), "lock "+op.Class+" acquired while already held: self-deadlock")
						}
						for h := range held {
							a.addOrder(h, op.Class, a.c.pos(in))
						}
					}
					continue
				}
				callees, _ := a.calleesWithCallbacks(call)
				for _, callee := range callees {
					cs := a.summary(callee)
					for cl, w := range cs.Acquires {
						n++
						key := "relock:" + a.c.U.RelName(fn) + "->" + a.c.U.RelName(callee) + ":" + cl
						if _, ok := held[cl]; ok {
							r.Violation("C12.2", key, a.c.pos(in), fmt.Sprintf("%s is called with %s held and (transitively) acquires it again at %s: self-deadlock", a.c.U.RelName(callee), cl, w))
						} else {
							r.OK("C12.2", key, a.c.pos(in), "callee acquires "+cl+", not held here "+held.String())
						}
						for h := range held {
							a.addOrder(h, cl, a.c.pos(in))
						}
					}
					if len(cs.Acquires) == 0 {
						n++
					}
				}
			}
		}
	}
	r.OK("C12.2", "calls-under-lock-examined", "", fmt.Sprintf("%d call/lock sites executed with a lock held were examined", n))
	r.Analysed["C12.calls_under_lock"] = n
	// sync.Once.Do bodies: once -> whatever the body acquires
	for _, fn := range fns {
		for _, call := range ir.Calls(fn) {
			if f := call.Common().StaticCallee(); f != nil && f.String() == "(*sync.Once).Do" {
				cls := a.c.U.LockClassOf(call.Common().Args[0])
				name := "once"
				if len(cls) > 0 {
					name = "once:" + cls[0]
				}
				for _, body := range a.c.U.FuncValues(call.Common().Args[1]) {
					for cl := range a.summary(body).Acquires {
						a.addOrder(name, cl, a.c.pos(call.(ssa.Instruction)))
					}
				}
			}
		}
	}
	// lock order acyclic
	cyc := a.findCycle()
	if cyc != "" {
		r.Violation("C12.3", "lock-order", "", "lock order cycle: "+cyc)
	} else {
		var edges []string
		for from, m := range a.order {
			for to := range m {
				edges = append(edges, from+" -> "+to)
			}
		}
		sort.Strings(edges)
		r.OK("C12.3", "lock-order", "", "lock order graph acyclic: "+strings.Join(edges, "; "))
	}
}

func (a *c12) addOrder(from, to, pos string) {
	if from == to {
		return
	}
	if a.order[from] == nil {
		a.order[from] = map[string]string{}
	}
	if _, ok := a.order[from][to]; !ok {
		a.order[from][to] = pos
	}
}

func (a *c12) findCycle() string {
	state := map[string]int{}
	var stack []string
	var found string
	var dfs func(n string)
	dfs = func(n string) {
		if found != "" {
			return
		}
		state[n] = 1
		stack = append(stack, n)
		for m := range a.order[n] {
			if state[m] == 1 {
				found = strings.Join(append(stack, m), " -> ")
				return
			}
			if state[m] == 0 {
				dfs(m)
			}
		}
		stack = stack[:len(stack)-1]
		state[n] = 2
	}
	var nodes []string
	for n := range a.order {
		nodes = append(nodes, n)
	}
	sort.Strings(nodes)
	for _, n := range nodes {
		if state[n] == 0 {
			dfs(n)
		}
	}
	return found
}

// pairing: C12.3 every Lock is followed by an Unlock (or a deferred one) of
// the same class on every path to a return.
func (a *c12) pairing(fns []*ssa.Function) {
	r := a.c.R
	for _, fn := range fns {
		li := a.lockInfo(fn)
		for _, op := range li.Ops {
			if !op.Acquire || op.Defer {
				continue
			}
			key := "pairing:" + a.c.U.RelName(fn) + ":" + op.Class
			if op.Class == "" || strings.HasPrefix(op.Class, "?") {
				r.Undecided("C12.3", key, a.c.pos(op.Call.(ssa.Instruction)), "lock could not be classified: "+op.Class)
				continue
			}
			release := func(in ssa.Instruction) bool {
				c2, ok := in.(ssa.CallInstruction)
				if !ok {
					return false
				}
				o2 := a.c.U.LockOpOf(c2)
				return o2 != nil && !o2.Acquire && o2.Class == op.Class && o2.Read == op.Read
			}
			ok := ir.AlwaysFollowedBy(fn, op.Call.(ssa.Instruction), release)
			r.Check("C12.3", key, ok, a.c.pos(op.Call.(ssa.Instruction)),
				"every path from this Lock to a return passes an Unlock (or defer Unlock) of "+op.Class)
		}
	}
}

// handedOut: C12.4.
func (a *c12) handedOut(fns []*ssa.Function) {
	r := a.c.R
	u := a.c.U
	// Published memory: anything reachable from the index fields beyond the
	// field itself (the maps' elements, the slices' elements, the objects).
	published := map[string]bool{"specs": true, "devices": true, "errors": true}
	n := 0
	for _, fn := range fns {
		if fn.Parent() != nil {
			continue // closures are covered through their parents
		}
		eff := u.EffectsOf(fn)
		for _, w := range eff.Writes {
			p := w.Path
			// find Cache.<published>
			idx := -1
			for i, s := range p.Sels {
				if s.F != nil && a.fieldOwner(s.F) == "Cache" && published[s.F.Name()] {
					idx = i
					break
				}
			}
			if idx < 0 {
				continue
			}
			rest := p.Sels[idx+1:]
			if len(rest) == 0 {
				n++
				continue // replacing the field itself (swap of a fresh index) is the allowed idiom
			}
			// writes into the maps themselves under the lock are harmless for
			// readers that hold the lock; writes deeper (slices, objects handed
			// out) are not
			if len(rest) == 1 && rest[0].F == nil && (w.Kind == "mapupdate" || w.Kind == "delete" || w.Kind == "clear") {
				n++
				r.Note("C12.4", "in-place-map:"+u.RelName(fn)+":"+p.String(), a.c.pos(w.Site), "index map mutated in place (harmless under the lock)")
				continue
			}
			n++
			key := "write:" + u.RelName(fn) + ":" + pathNoRoot(p)
			r.Violation("C12.4", key, a.c.pos(w.Site),
				fmt.Sprintf("%s writes %s (%s at %s via %v): memory handed out by getters (GetVendorSpecs/GetErrors/GetDevice) must not change after publication", u.RelName(fn), p, w.Kind, u.InstrPos(w.Deep), w.Chain))
		}
	}
	// no method hands out one of the cache's own containers: the index and error maps are
	// replaced or refilled under the lock, a caller holding the map itself would read it
	// (or range over it) while that happens, and would see later states in an old answer
	nRet, leaked := 0, ""
	for _, fn := range fns {
		if fn.Parent() != nil || fn.Signature.Recv() == nil || len(fn.Params) == 0 || !fn.Object().Exported() {
			continue
		}
		if named := ir.NamedOf(fn.Params[0].Type()); named == nil || named.Obj().Name() != "Cache" {
			continue
		}
		for _, ret := range ir.NormalReturns(fn) {
			for i := range ret.Results {
				switch ret.Results[i].Type().Underlying().(type) {
				case *types.Map, *types.Slice:
				default:
					continue
				}
				nRet++
				for _, p := range u.PathsOf(ir.ReturnResult(ret, i)) {
					if par, ok := p.Root.(*ssa.Parameter); ok && par == fn.Params[0] && len(p.Sels) == 1 && p.Sels[0].F != nil {
						leaked += " " + u.RelName(fn) + " returns c." + p.Sels[0].F.Name() + ";"
					}
				}
			}
		}
	}
	r.Check("C12.4", "containers-not-handed-out", leaked == "" && nRet > 0, "", fmt.Sprintf("exported Cache methods return copies, never the cache's own maps/slices (%d container results examined):%s", nRet, leaked))
	// the swap idiom: refresh stores fresh maps
	refresh := a.c.fn("C12.4", "cdi", "(*Cache).refresh")
	if refresh != nil {
		for _, field := range []string{"specs", "devices", "errors"} {
			ok := false
			var pos string
			ir.Instrs(refresh, func(in ssa.Instruction) {
				st, isStore := in.(*ssa.Store)
				if !isStore {
					return
				}
				fa, isFA := st.Addr.(*ssa.FieldAddr)
				if !isFA {
					return
				}
				sto := ir.StructOf(fa.X.Type())
				if sto == nil || sto.Field(fa.Field).Name() != field || a.fieldOwner(sto.Field(fa.Field)) != "Cache" {
					return
				}
				pos = a.c.pos(in)
				fresh := true
				for _, p := range u.PathsOf(st.Val) {
					if _, isMake := p.Root.(*ssa.MakeMap); !isMake || len(p.Sels) > 0 {
						fresh = false
					}
				}
				if fresh {
					ok = true
				}
			})
			r.Check("C12.4", "swap:"+field, ok, pos, "refresh publishes c."+field+" by storing a map made in the same call (readers of the old map never see it change)")
		}
	}
	r.Analysed["C12.writes_through_published_fields"] = n
}

func pathNoRoot(p ir.Path) string {
	return p.SelString()
}

// oneSection: C12.5. Every result must reflect ONE state of the cache. An
// operation that acquires the cache lock more than once in a call - in a loop
// (one acquisition per requested device) or in sequence (read the configuration
// under the lock, scan without it, lock again to publish) - can combine data of
// two states, without any data race. The watcher's event loop, which handles
// each event in a critical section of its own and carries nothing over, is the
// one function exempt by design.
func (a *c12) oneSection(fns []*ssa.Function) {
	c, r, u := a.c, a.c.R, a.c.U
	const class = "Cache.Mutex"
	exempt := map[string]string{
		"(*watch).watch": "event loop: one critical section per event, no data carried from one to the next",
	}
	// which functions take the lock of an EXISTING cache: locking the cache a constructor has
	// just allocated (newCache/NewCache) is not a critical section of the operation
	constructor := map[string]bool{"newCache": true, "NewCache": true}
	acq := map[*ssa.Function]bool{}
	for changed := true; changed; {
		changed = false
		for _, fn := range fns {
			if acq[fn] || constructor[u.RelName(fn)] {
				continue
			}
			for _, call := range ir.Calls(fn) {
				if op := u.LockOpOf(call); op != nil {
					if op.Acquire && op.Class == class {
						acq[fn] = true
					}
					continue
				}
				if _, isGo := call.(*ssa.Go); isGo {
					continue
				}
				for _, callee := range u.Callees(call) {
					if acq[callee] {
						acq[fn] = true
					}
				}
				// closures handed to sync.Once.Do and the like run inside the call
				for _, arg := range call.Common().Args {
					for _, f := range u.FuncValues(arg) {
						if acq[f] {
							acq[fn] = true
						}
					}
				}
			}
			if acq[fn] {
				changed = true
			}
		}
	}
	for _, fn := range fns {
		if len(fn.Blocks) == 0 {
			continue
		}
		type site struct {
			in   ssa.Instruction
			what string
		}
		var sites []site
		for _, call := range ir.Calls(fn) {
			if op := u.LockOpOf(call); op != nil {
				if op.Acquire && !op.Defer && op.Class == class {
					sites = append(sites, site{call.(ssa.Instruction), "Lock"})
				}
				continue
			}
			if _, isDefer := call.(*ssa.Defer); isDefer {
				continue
			}
			if _, isGo := call.(*ssa.Go); isGo {
				continue
			}
			for _, callee := range u.Callees(call) {
				if !u.IsRepoFunc(callee) {
					continue
				}
				if acq[callee] {
					sites = append(sites, site{call.(ssa.Instruction), u.RelName(callee)})
					break
				}
			}
		}
		if len(sites) == 0 {
			continue
		}
		name := u.RelName(fn)
		var problems []string
		for i, s1 := range sites {
			for j, s2 := range sites {
				if i == j {
					if ir.CanReach(fn, ir.PathQuery{From: s1.in, To: s1.in}) {
						problems = append(problems, fmt.Sprintf("%s at %s is repeated in a loop", s1.what, c.pos(s1.in)))
					}
					continue
				}
				if i < j && (ir.CanReach(fn, ir.PathQuery{From: s1.in, To: s2.in}) || ir.CanReach(fn, ir.PathQuery{From: s2.in, To: s1.in})) {
					problems = append(problems, fmt.Sprintf("%s at %s and %s at %s on one path", s1.what, c.pos(s1.in), s2.what, c.pos(s2.in)))
				}
			}
		}
		if why, ok := exempt[name]; ok {
			r.OK("C12.5", "one-section:"+name, u.Pos(fn.Pos()), "exempt: "+why)
			continue
		}
		r.Check("C12.5", "one-section:"+name, len(problems) == 0, u.Pos(fn.Pos()), fmt.Sprintf("%s takes the cache lock at most once per call (%d acquiring site(s))%s", name, len(sites), ifMsg(strings.Join(problems, "; "))))
	}
}
