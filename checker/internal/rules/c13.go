package rules

import (
	"go/token"
	"fmt"
	"os"
	"strings"

	"golang.org/x/tools/go/ssa"

	"cdiverif/internal/ir"
)

// C13 — a bad Spec file or directory affects only itself and is reported.

func init() {
	register(&Property{
		ID: "C13",
		Explanation: "Return-shape and error-flow analysis of the scan machinery (scanSpecDirs, its filepath.Walk callback, the scan callback and error collector of (*Cache).refresh, Refresh, refreshIfRequired, ReadSpec) on go/ssa. " +
			"Decided: (C13.1) the walk callback can only return nil, filepath.SkipDir or what the scan function returned - a per-path failure is never turned into an error that ends the walk of later directories by itself; every failure that is not 'does not exist' is handed to the scan function; " +
			"(C13.2) scanSpecDirs leaves its directory loop early only for a non-nil, non-ErrStopScan result of the walk; (C13.3) the scan callback of refresh returns nil on every path and records a load failure under the file's path before returning; ReadSpec returns (nil, non-nil error) on every failure path; " +
			"(C13.4) c.specs, c.devices and c.errors are replaced by maps made in the same refresh (an entry disappears when its cause is gone), refresh returns the join of exactly this scan's error lists, Refresh returns refresh's result when it refreshed and the join of c.errors otherwise; " +
			"(C13.5) the error collector appends the error under every path it is given. " +
			"Not decided: fault semantics of the file system and of filepath.Walk; which inputs fail to load (C05).",
		Assumptions: []string{
			"filepath.Walk ends the walk of one root when the callback returns a non-nil, non-SkipDir error and reports that error",
			"errors.Join returns nil iff all its arguments are nil",
		},
		Run: runC13,
	})
}

// directErrorRecord: in is errors[key] = append(errors[key], e) on the scan's
// error map, written out instead of going through a collector closure; returns
// the description of the key.
func directErrorRecord(c *Ctx, s *scanShape, in ssa.Instruction, raw bool) (string, bool) {
	mu, ok := in.(*ssa.MapUpdate)
	if !ok || s.errorsMap == nil || mapRoot(c, mu.Map) != s.errorsMap {
		return "", false
	}
	ap, isAp := mu.Value.(*ssa.Call)
	if !isAp || ir.BuiltinName(ap) != "append" {
		return "", false
	}
	lk, isLk := ap.Call.Args[0].(*ssa.Lookup)
	if !isLk || mapRoot(c, lk.X) != s.errorsMap || !(lk.Index == mu.Key || c.valueDesc(lk.Index) == c.valueDesc(mu.Key)) {
		return "", false
	}
	if len(c.U.ContainerElems(ap.Call.Args[1])) != 1 {
		return "", false
	}
	if raw {
		return c.exprDesc(mu.Key), true
	}
	return c.valueDesc(mu.Key), true
}

func runC13(c *Ctx) {
	r := c.R
	r.Rule("C13.1", "walk-returns: the walk callback returns only nil, SkipDir or the scan function's result; non-ENOENT failures go to the scan function", 4)
	r.Rule("C13.2", "scan-continues: the directory loop ends early only on a non-nil, non-ErrStopScan walk result", 1)
	r.Rule("C13.3", "collector-total: refresh's scan callback always returns nil and records load failures per file; ReadSpec fails with (nil, error)", 4)
	r.Rule("C13.4", "rebuilt-wholesale: index and error maps are made anew per refresh; results are joins of the current error lists", 5)
	r.Rule("C13.5", "collector: the error is appended under every given path", 1)

	s := analyseScan(c, "C13.1")
	if s == nil {
		return
	}
	cb := s.walkCB
	// ---- C13.1
	scanFnCall := func(v ssa.Value) bool {
		call, ok := v.(*ssa.Call)
		if !ok || call.Call.IsInvoke() || call.Call.StaticCallee() != nil {
			return false
		}
		// a call of the scanFn parameter of scanSpecDirs (captured)
		for _, p := range c.U.PathsOf(call.Call.Value) {
			if par, ok := p.Root.(*ssa.Parameter); ok && par.Parent() == s.scan && len(p.Sels) == 0 {
				return true
			}
		}
		return false
	}
	nScanFn := 0
	for _, ret := range ir.NormalReturns(cb) {
		rv := ir.ReturnResult(ret, 0)
		leaves := phiLeaves(rv)
		for _, lv := range leaves {
			d := c.valueDesc(lv)
			switch {
			case ir.IsNilConst(lv):
				r.OK("C13.1", "return:nil", c.pos(ret), "returns nil")
			case d == "global:SkipDir":
				isDir := false
				for _, g := range c.guardsOf(cb, ret) {
					if strings.HasPrefix(g, "IsDir(param:info)") {
						isDir = true
					}
				}
				r.Check("C13.1", "return:SkipDir", isDir, c.pos(ret), "filepath.SkipDir is returned only for an entry that is a directory (for any other entry Walk would skip the REST of the containing directory, silently dropping the Spec files that sort after it)")
			case scanFnCall(lv):
				nScanFn++
				r.OK("C13.1", "return:scanFn", c.pos(ret), "returns the scan function's verdict")
			default:
				r.Violation("C13.1", "return:other", c.pos(ret), fmt.Sprintf("the walk callback returns %s under %v: this ends the walk of the directory list (later, higher-priority directories are not scanned) without the failure being recorded anywhere", d, c.guardsOf(cb, ret)))
			}
		}
	}
	for _, ret := range ir.NormalReturns(cb) {
		if !ir.IsNilConst(ir.ReturnResult(ret, 0)) {
			continue
		}
		gs := c.guardsOf(cb, ret)
		swallowed, notExist := false, false
		for _, g := range gs {
			if g == "nonnil(param:err)" {
				swallowed = true
			}
			if strings.Contains(g, "ErrNotExist") && !strings.HasPrefix(g, "!") {
				notExist = true
			}
		}
		if swallowed && !notExist {
			r.Violation("C13.1", "return:swallowed-error", c.pos(ret), fmt.Sprintf("the walk callback returns nil although the walk reported an error for this path (conditions %v): the failing file gets no entry in the error report", gs))
		}
	}
	if nScanFn == 0 {
		r.Violation("C13.1", "return:scanFn", c.U.Pos(cb.Pos()), "the walk callback never reports to the scan function")
	}
	// Walk calls back a second time for the scanned directory itself when it cannot read
	// it (EMFILE, EACCES, EIO), with the entry information AND the error: the directory is
	// entered silently only without an error, the error goes to the scan function
	rootSilent, rootReported := true, false
	for _, ret := range ir.NormalReturns(cb) {
		// every feasible way to this return, with the conditions of the branches taken
		for _, gs := range c.feasiblePathConds(cb, ret) {
			isDir, isRoot, errNil := false, false, false
			for _, g := range gs {
				switch {
				case strings.HasPrefix(g, "IsDir(param:info)"):
					isDir = true
				case strings.HasPrefix(g, "param:path == "):
					isRoot = true
				case g == "nil(param:err)":
					errNil = true
				}
			}
			if isDir && isRoot && !errNil && ir.IsNilConst(ir.ReturnResult(ret, 0)) {
				rootSilent = false
			}
			errNonNilP := false
			for _, g := range gs {
				if g == "nonnil(param:err)" {
					errNonNilP = true
				}
			}
			if rv := ir.ReturnResult(ret, 0); isDir && isRoot && errNonNilP {
				if call, ok := rv.(*ssa.Call); ok && scanFnCall(rv) && len(call.Call.Args) == 4 &&
					call.Call.Args[0] == ssa.Value(cb.Params[0]) && ir.IsNilConst(call.Call.Args[2]) && call.Call.Args[3] == ssa.Value(cb.Params[2]) {
					rootReported = true
				}
			}
		}
		gs := c.guardsOf(cb, ret)
		isDir, isRoot, errNil, errNonNil := false, false, false, false
		for _, g := range gs {
			switch {
			case strings.HasPrefix(g, "IsDir(param:info)"):
				isDir = true
			case strings.HasPrefix(g, "param:path == "):
				isRoot = true
			case g == "nil(param:err)":
				errNil = true
			case g == "nonnil(param:err)":
				errNonNil = true
			}
		}
		if !isDir || !isRoot {
			continue
		}
		rv := ir.ReturnResult(ret, 0)
		_ = errNil
		if call, ok := rv.(*ssa.Call); ok && errNonNil && scanFnCall(rv) && len(call.Call.Args) == 4 &&
			call.Call.Args[0] == ssa.Value(cb.Params[0]) && ir.IsNilConst(call.Call.Args[2]) && call.Call.Args[3] == ssa.Value(cb.Params[2]) {
			rootReported = true
		}
	}
	r.Check("C13.1", "unreadable-directory-reported", rootSilent && rootReported, c.U.Pos(cb.Pos()), "a Spec directory that exists but cannot be read is reported to the scan function with its path and the error; it is passed over silently only when Walk reported no error for it")
	// failures that are not ENOENT reach the scan function: on the info == nil
	// branch the only silent return is guarded by errors.Is(err, fs.ErrNotExist)
	for _, ret := range ir.NormalReturns(cb) {
		gs := c.guardsOf(cb, ret)
		infoNil := false
		notExist := false
		for _, g := range gs {
			if g == "nil(param:info)" {
				infoNil = true
			}
			if strings.Contains(g, "ErrNotExist") && !strings.HasPrefix(g, "!") {
				notExist = true
			}
		}
		if !infoNil {
			continue
		}
		rv := ir.ReturnResult(ret, 0)
		if ir.IsNilConst(rv) {
			r.Check("C13.1", "stat-failure:silent-only-enoent", notExist, c.pos(ret), fmt.Sprintf("a failed stat is passed over silently only when the path does not exist (conditions %v)", gs))
		} else {
			okArgs := false
			if call, ok := rv.(*ssa.Call); ok && scanFnCall(rv) && len(call.Call.Args) == 4 {
				okArgs = call.Call.Args[0] == ssa.Value(cb.Params[0]) && ir.IsNilConst(call.Call.Args[2]) && call.Call.Args[3] == ssa.Value(cb.Params[2])
			}
			r.Check("C13.1", "stat-failure:reported", okArgs, c.pos(ret), "any other stat failure is reported to the scan function with the path and the error")
		}
	}
	// walk error for a file with Spec extension is reported with that error
	for _, call := range ir.Calls(cb) {
		if !scanFnCall(call.Value()) {
			continue
		}
		gs := c.guardsOf(cb, call.(ssa.Instruction))
		for _, g := range gs {
			if g == "nonnil(param:err)" {
				ok := call.Common().Args[3] == ssa.Value(cb.Params[2]) && call.Common().Args[0] == ssa.Value(cb.Params[0])
				r.Check("C13.1", "walk-error:reported", ok, c.pos(call), "an error filepath.Walk met for a Spec file is handed to the scan function with the file's path")
			}
		}
	}
	// ReadSpec result handed over as is
	for _, call := range ir.Calls(cb) {
		if !c.U.CalleeIs(call, "cdi", "ReadSpec") {
			continue
		}
		handed := false
		for _, c2 := range ir.Calls(cb) {
			if scanFnCall(c2.Value()) && len(c2.Common().Args) == 4 {
				d2, d3 := c.valueDescRaw(c2.Common().Args[2]), c.valueDescRaw(c2.Common().Args[3])
				if strings.Contains(d2, "ReadSpec#0") && strings.Contains(d3, "ReadSpec#1") && c2.Common().Args[0] == ssa.Value(cb.Params[0]) {
					handed = true
				}
			}
		}
		r.Check("C13.1", "readspec-result-handed-over", handed, c.pos(call), "both results of ReadSpec (Spec, error) go to the scan function together with the path")
	}

	// ---- C13.2
	for _, ret := range ir.NormalReturns(s.scan) {
		gs := c.guardsOf(s.scan, ret)
		inLoop := false
		for _, g := range gs {
			if g == "loop(param:dirs)" {
				inLoop = true
			}
		}
		if !inLoop {
			rv := ir.ReturnResult(ret, 0)
			r.Check("C13.2", "final-return", ir.IsNilConst(rv), c.pos(ret), "after all directories scanSpecDirs returns nil")
			continue
		}
		var nonNil, notStop bool
		var extra []string
		for _, g := range gs {
			switch {
			case g == "loop(param:dirs)":
			case g == "nonnil(err:path/filepath.Walk)":
				nonNil = true
			case strings.Contains(g, "!= global:ErrStopScan") || (strings.HasPrefix(g, "!errors.Is(") && strings.Contains(g, "ErrStopScan")):
				notStop = true
			default:
				extra = append(extra, g)
			}
		}
		r.Check("C13.2", "early-exit", nonNil && notStop && len(extra) == 0, c.pos(ret), fmt.Sprintf("the directory loop is left early only when the walk returned a non-nil error other than ErrStopScan (conditions %v)", gs))
	}

	// ---- C13.3
	scb := s.scanCB
	for _, ret := range ir.NormalReturns(scb) {
		rv := ir.ReturnResult(ret, 0)
		ok := true
		for _, lv := range phiLeaves(rv) {
			if !ir.IsNilConst(lv) {
				ok = false
			}
		}
		r.Check("C13.3", "callback-returns-nil", ok, c.pos(ret), "refresh's scan callback returns nil (a bad file never stops the scan); found "+c.valueDesc(rv))
	}
	// the failure edge records before returning
	var collector *ssa.Function
	nDirect := 0
	for _, iff := range ir.Ifs(scb) {
		tv, nilSucc, ok := ir.NilTest(iff)
		if !ok || tv != ssa.Value(scb.Params[3]) {
			continue
		}
		bad := ir.Edge{From: iff.Block(), Succ: 1 - nilSucc}
		recorded := func(in ssa.Instruction) bool {
			if kd, ok := directErrorRecord(c, s, in, true); ok {
				if os.Getenv("CDIVERIF_DEBUG") != "" {
					fmt.Fprintln(os.Stderr, "DBG direct record key:", kd)
				}
				// the key is the file's own (cleaned) path, nothing derived from it
				if kd == "$path" || kd == "path/filepath.Clean($path)" || kd == "elem([$path])" || kd == "elem([path/filepath.Clean($path)])" {
					nDirect++
					return true
				}
				return false
			}
			call, ok := in.(*ssa.Call)
			if !ok {
				return false
			}
			f := c.U.StaticCallee(call)
			if f == nil || f.Parent() != s.refresh {
				return false
			}
			// collector(err-derived, path)
			var ds []string
			for _, a := range call.Call.Args {
				for _, ev := range append(c.U.ContainerElems(a), a) {
					ds = append(ds, c.valueDescRaw(ev))
				}
			}
			j := strings.Join(ds, " ")
			if strings.Contains(j, "Clean(param:path)") || strings.Contains(j, "param:path") {
				collector = f
				return true
			}
			return false
		}
		// a record inside the loop over a literal list of paths (the expanded collector) is made
		// whenever that loop is reached
		recordedOrLoop := func(in ssa.Instruction) bool {
			if recorded(in) {
				return true
			}
			for _, l := range ir.Loops(scb) {
				if in.Block() != l.Header || !nonEmptyLiteral(l.Over) {
					continue
				}
				for b := range l.BodyBlocks() {
					for _, bi := range b.Instrs {
						if recorded(bi) {
							return true
						}
					}
				}
			}
			return false
		}
		// a file that failed to load contributes nothing to the index (no Spec kept from an
		// earlier scan, no partial result): no insertion is reachable from the failure edge
		inserts := false
		ir.Instrs(scb, func(in ssa.Instruction) {
			if mu, ok := in.(*ssa.MapUpdate); ok {
				if m := mapRoot(c, mu.Map); m != nil && (m == s.specsMap || m == s.devicesMap) {
					if ir.CanReach(scb, ir.PathQuery{FromEdge: &bad, To: in}) {
						inserts = true
					}
				}
			}
		})
		r.Check("C13.3", "failure-isolated", !inserts, c.pos(iff), "after a load failure the callback inserts nothing into the Spec and device indexes (a failing file cannot shadow or conflict with devices of valid files)")
		esc := ir.CanReach(scb, ir.PathQuery{FromEdge: &bad, Stop: recordedOrLoop})
		r.Check("C13.3", "failure-recorded", !esc, c.pos(iff), "on a load failure every path records the error under the file's path before the callback returns")
	}
	if collector == nil && nDirect == 0 {
		r.Violation("C13.3", "failure-recorded", c.U.Pos(scb.Pos()), "refresh's scan callback has no branch on its error parameter that records the failure")
	}
	// a file that decodes to nothing is an error of that file, not a crash of the scan
	c.decoderRootGuarded("C13.3", c.U.RepoFuncs("cdi"))
	// a directory that cannot be watched stays pending (its entry goes once it is repaired)
	c.trackedNeverDeleted("C13.3")
	// ReadSpec failure shape
	if read := c.fn("C13.3", "cdi", "ReadSpec"); read != nil {
		nFail := 0
		okAll := true
		ir.EnumPaths(read, nil, false, func(p ir.BlockPath, end ssa.Instruction) {
			ret := end.(*ssa.Return)
			sv := ir.ResolveOnPath(ir.ReturnResult(ret, 0), p)
			ev := ir.ResolveOnPath(ir.ReturnResult(ret, 1), p)
			specNil := ir.DefiniteNil(sv) == ir.IsNil
			errNil := ir.DefiniteNil(ev) == ir.IsNil
			if specNil {
				nFail++
				if errNil {
					okAll = false
				}
			}
			if !specNil && !errNil && ir.DefiniteNil(ev) != ir.NilUnknown {
				okAll = false
			}
		})
		r.Check("C13.3", "readspec-failure-shape", okAll && nFail > 0, c.U.Pos(read.Pos()), fmt.Sprintf("ReadSpec returns a nil Spec only together with a non-nil error (%d failure paths)", nFail))
	}

	// ---- C13.5 the collector
	if collector == nil && nDirect > 0 {
		r.OK("C13.5", "collector", c.U.Pos(scb.Pos()), "errors are recorded in place: errors[path] = append(errors[path], err) in the map published as c.errors (no collector closure)")
	}
	if collector != nil {
		var loop *ir.Loop
		for _, l := range ir.Loops(collector) {
			loop = l
		}
		ok := false
		if loop != nil && loop.Complete {
			ir.Instrs(collector, func(in ssa.Instruction) {
				mu, isMU := in.(*ssa.MapUpdate)
				if !isMU || mapRoot(c, mu.Map) != s.errorsMap {
					return
				}
				ap, isAp := mu.Value.(*ssa.Call)
				if !isAp || ir.BuiltinName(ap) != "append" {
					return
				}
				elems := c.U.ContainerElems(ap.Call.Args[1])
				keyIsPath := len(collector.Params) == 2 && c.valueDesc(mu.Key) == "param:"+collector.Params[1].Name()+"[*]"
				sameKey := false
				if lk, isLk := ap.Call.Args[0].(*ssa.Lookup); isLk && lk.Index == mu.Key {
					sameKey = true
				}
				if len(elems) == 1 && elems[0] == ssa.Value(collector.Params[0]) && loop.BodyBlocks()[mu.Block()] && keyIsPath && sameKey {
					ok = true
				}
			})
		}
		r.Check("C13.5", "collector", ok, c.U.Pos(collector.Pos()), "for every given path: errors[path] = append(errors[path], err), in the map published as c.errors")
	}

	// ---- C13.4
	for name, m := range map[string]*ssa.MakeMap{"specs": s.specsMap, "devices": s.devicesMap, "errors": s.errorsMap} {
		// every path through refresh to a return stores the field
		var st *ssa.Store
		ir.Instrs(s.refresh, func(in ssa.Instruction) {
			if x, ok := in.(*ssa.Store); ok {
				if fa, ok := x.Addr.(*ssa.FieldAddr); ok && ir.TypeIs(fa.X.Type(), "cdi", "Cache") && ir.StructOf(fa.X.Type()).Field(fa.Field).Name() == name {
					st = x
				}
			}
		})
		always := st != nil
		if st != nil {
			for _, ret := range ir.NormalReturns(s.refresh) {
				if !ir.MustPassBefore(s.refresh, ret, func(in ssa.Instruction) bool { return in == ssa.Instruction(st) }) {
					always = false
				}
			}
		}
		okFresh := m != nil && m.Parent() == s.refresh && always
		if !okFresh && c13ClearedInPlace(c, s.refresh, name) {
			okFresh = true
		}
		r.Check("C13.4", "fresh:"+name, okFresh, c.U.Pos(s.refresh.Pos()), "every refresh replaces c."+name+" by a map made in that refresh (or empties it completely before refilling): stale entries cannot survive")
	}
	// refresh's result: join over the error map of this scan
	okJoin := false
	for _, ret := range ir.NormalReturns(s.refresh) {
		if call, ok := ir.ReturnResult(ret, 0).(*ssa.Call); ok && call.Call.StaticCallee() != nil && call.Call.StaticCallee().String() == "errors.Join" {
			// the joined list is appended to in a loop over errorsMap
			for _, l := range ir.Loops(s.refresh) {
				if mapRoot(c, l.Over) == s.errorsMap && l.Complete {
					// every entry contributes: the append feeding the joined list is unconditional in the loop
					ir.Instrs(s.refresh, func(in ssa.Instruction) {
						ap, isAp := in.(*ssa.Call)
						if !isAp || ir.BuiltinName(ap) != "append" || !l.BodyBlocks()[ap.Block()] {
							return
						}
						gs := c.guardsOf(s.refresh, ap)
						onlyLoops := true
						for _, g := range gs {
							if !strings.HasPrefix(g, "loop(") && !strings.HasPrefix(g, "loopdone(") {
								onlyLoops = false
							}
						}
						if onlyLoops {
							okJoin = true
						}
					})
				}
			}
		}
	}
	r.Check("C13.4", "refresh-result", okJoin, c.U.Pos(s.refresh.Pos()), "refresh returns errors.Join over the error lists collected by this scan (nil iff no file is in error)")
	if rf := c.fn("C13.4", "cdi", "(*Cache).Refresh"); rf != nil {
		var okRefreshed, okCached bool
		for _, ret := range ir.NormalReturns(rf) {
			gs := c.guardsOf(rf, ret)
			// one return per case, or one return of a variable assigned in either case
			for _, rv := range phiLeaves(ir.ReturnResult(ret, 0)) {
				d := c.valueDescRaw(rv)
				if strings.Contains(d, "refreshIfRequired#1") {
					okRefreshed = true
					continue
				}
				if call, ok := rv.(*ssa.Call); ok && call.Call.StaticCallee() != nil && call.Call.StaticCallee().String() == "errors.Join" {
					for _, l := range ir.Loops(rf) {
						if c.valueDesc(l.Over) == "param:c.errors" && l.Complete {
							okCached = true
						}
					}
					continue
				}
				r.Violation("C13.4", "Refresh-result:other", c.pos(ret), fmt.Sprintf("Refresh returns %s under %v", d, gs))
			}
		}
		// which of the two is returned when: the refresh's own result exactly when it refreshed
		okWhen := false
		for _, iff := range ir.Ifs(rf) {
			cond, yesSucc := iff.Cond, 0
			if not, isNot := cond.(*ssa.UnOp); isNot && not.Op == token.NOT {
				cond, yesSucc = not.X, 1
			}
			ex, isEx := cond.(*ssa.Extract)
			if !isEx || ex.Index != 0 {
				continue
			}
			call, isCall := ex.Tuple.(*ssa.Call)
			if !isCall || !c.U.CalleeIs(call, "cdi", "(*Cache).refreshIfRequired") {
				continue
			}
			yes := ir.Edge{From: iff.Block(), Succ: yesSucc}
			no := ir.Edge{From: iff.Block(), Succ: 1 - yesSucc}
			okWhen = true
			// viaOnly: instruction `at` (or, for a value carried by a phi, the edge pred->blk)
			// lies only behind edge e
			viaOnly := func(e ir.Edge, pred, blk *ssa.BasicBlock, at ssa.Instruction) bool {
				if pred == iff.Block() {
					return iff.Block().Succs[e.Succ] == blk
				}
				return ir.OnlyViaEdge(rf, at, e)
			}
			for _, ret := range ir.NormalReturns(rf) {
				res := ir.ReturnResult(ret, 0)
				check := func(v ssa.Value, pred *ssa.BasicBlock, at ssa.Instruction) {
					if e1, ok := v.(*ssa.Extract); ok && e1.Tuple == ssa.Value(call) && e1.Index == 1 {
						if !viaOnly(yes, pred, ret.Block(), at) {
							okWhen = false
						}
					} else if jc, ok := v.(*ssa.Call); ok && jc.Call.StaticCallee() != nil && jc.Call.StaticCallee().String() == "errors.Join" {
						if !viaOnly(no, pred, ret.Block(), at) {
							okWhen = false
						}
					}
				}
				if phi, isPhi := res.(*ssa.Phi); isPhi && phi.Block() == ret.Block() {
					for k, e := range phi.Edges {
						pb := ret.Block().Preds[k]
						check(e, pb, pb.Instrs[len(pb.Instrs)-1])
					}
				} else {
					check(res, nil, ret)
				}
			}
		}
		if ok, found, pos := dirErrorCleared(c); found {
			r.Check("C13.4", "directory-error-cleared", ok, pos, "once a directory can be watched again its entry leaves the directory-error report on every path (an entry disappears at the first refresh after its cause is gone)")
		}
		r.Check("C13.4", "Refresh-result-when", okWhen, c.U.Pos(rf.Pos()), "the refresh's own result is returned exactly on the 'refreshed' outcome of refreshIfRequired; an up-to-date cache in auto-refresh mode answers with the join of the recorded errors, not with nil")
		r.Check("C13.4", "Refresh-result", okRefreshed && okCached, c.U.Pos(rf.Pos()), "Refresh returns the refresh's own result when it refreshed, and the join of the cached per-file errors otherwise")
	}
	if rir := c.fn("C13.4", "cdi", "(*Cache).refreshIfRequired"); rir != nil {
		ok := false
		for _, ret := range ir.NormalReturns(rir) {
			b, isB := ir.ConstBool(ir.ReturnResult(ret, 0))
			if isB && b && strings.Contains(c.valueDescRaw(ir.ReturnResult(ret, 1)), "refresh#0") {
				ok = true
			}
		}
		r.Check("C13.4", "refreshIfRequired-result", ok, c.U.Pos(rir.Pos()), "refreshIfRequired returns (true, result of refresh) when it refreshes")
	}
}

// phiLeaves returns the non-phi values a value may take.
func phiLeaves(v ssa.Value) []ssa.Value {
	seen := map[ssa.Value]bool{}
	var out []ssa.Value
	var rec func(x ssa.Value)
	rec = func(x ssa.Value) {
		if seen[x] {
			return
		}
		seen[x] = true
		if phi, ok := x.(*ssa.Phi); ok {
			for _, e := range phi.Edges {
				rec(e)
			}
			return
		}
		out = append(out, x)
	}
	rec(v)
	return out
}

// valueDescRaw describes a value by its defining instruction when it is a
// call result ("callee#idx(args...)"), without looking through the callee.
func (c *Ctx) valueDescRaw(v ssa.Value) string {
	return c.valueDescRaw1(v, map[ssa.Value]bool{})
}

func (c *Ctx) valueDescRaw1(v ssa.Value, seen map[ssa.Value]bool) string {
	if seen[v] || len(seen) > 64 {
		return "..."
	}
	seen[v] = true
	defer delete(seen, v)
	switch x := v.(type) {
	case *ssa.Extract:
		if call, ok := x.Tuple.(*ssa.Call); ok {
			return fmt.Sprintf("%s#%d", c.rawCallName(call), x.Index)
		}
	case *ssa.Call:
		var args []string
		for _, a := range x.Call.Args {
			args = append(args, c.valueDescRaw1(a, seen))
		}
		return fmt.Sprintf("%s#0(%s)", c.rawCallName(x), strings.Join(args, ","))
	case *ssa.UnOp:
		// load of a local cell: describe what is stored there
		if a, ok := c.U.CellOf(x.X).(*ssa.Alloc); ok {
			var ds []string
			for _, sv := range c.U.StoredValues(a) {
				ds = append(ds, c.valueDescRaw1(sv, seen))
			}
			if len(ds) > 0 {
				return strings.Join(ds, "|")
			}
		}
	case *ssa.Phi:
		var ds []string
		for _, e := range phiLeaves(x) {
			ds = append(ds, c.valueDescRaw1(e, seen))
		}
		return strings.Join(ds, "|")
	}
	return c.valueDesc(v)
}

func (c *Ctx) rawCallName(call *ssa.Call) string {
	if f := c.U.StaticCallee(call); f != nil {
		n := c.U.RelName(f)
		n = strings.TrimPrefix(n, "(*Cache).")
		if i := strings.LastIndex(n, "."); i >= 0 && !strings.HasPrefix(n, "(") {
			n = n[i+1:]
		}
		return n
	}
	if b := ir.BuiltinName(call); b != "" {
		return b
	}
	return "dyncall"
}

// c13ClearedInPlace: refresh empties c.<field> with a complete loop deleting
// every key (or clear()) before any insertion into it.
func c13ClearedInPlace(c *Ctx, refresh *ssa.Function, field string) bool {
	want := "param:c." + field
	var clears []ssa.Instruction
	for _, l := range ir.Loops(refresh) {
		if c.valueDesc(l.Over) != want || !l.Complete {
			continue
		}
		ir.Instrs(refresh, func(in ssa.Instruction) {
			call, ok := in.(*ssa.Call)
			if !ok || ir.BuiltinName(call) != "delete" || !l.BodyBlocks()[call.Block()] {
				return
			}
			if c.valueDesc(call.Call.Args[0]) != want {
				return
			}
			if ex, ok := call.Call.Args[1].(*ssa.Extract); ok && ex.Index == 1 {
				var gs []string
				for _, g := range c.guardsOf(refresh, call) {
					if !strings.HasPrefix(g, "loopdone(") {
						gs = append(gs, g)
					}
				}
				if len(gs) == 1 {
					clears = append(clears, l.Exit.From.Instrs[len(l.Exit.From.Instrs)-1])
				}
			}
		})
	}
	ir.Instrs(refresh, func(in ssa.Instruction) {
		if call, ok := in.(*ssa.Call); ok && ir.BuiltinName(call) == "clear" && c.valueDesc(call.Call.Args[0]) == want {
			clears = append(clears, in)
		}
	})
	if len(clears) == 0 {
		return false
	}
	ok := true
	n := 0
	ir.Instrs(refresh, func(in ssa.Instruction) {
		mu, isMU := in.(*ssa.MapUpdate)
		if !isMU || c.valueDesc(mu.Map) != want {
			return
		}
		n++
		if !ir.MustPassBefore(refresh, in, func(x ssa.Instruction) bool {
			for _, cl := range clears {
				if x == cl {
					return true
				}
			}
			return false
		}) {
			ok = false
		}
	})
	return ok && n > 0
}

// feasiblePathConds lists, for every acyclic path from the entry of fn to instruction `to`,
// the decoded conditions of the branches taken, leaving out paths that take a condition
// and its opposite (`case a && b:` followed by `case a:` reaches the second only with !b).
func (c *Ctx) feasiblePathConds(fn *ssa.Function, to ssa.Instruction) [][]string {
	var out [][]string
	loops := ir.Loops(fn)
	on := map[*ssa.BasicBlock]bool{}
	var conds []string
	n := 0
	var rec func(b *ssa.BasicBlock)
	rec = func(b *ssa.BasicBlock) {
		if on[b] || n > 20000 {
			return
		}
		n++
		if b == to.Block() {
			out = append(out, append([]string{}, conds...))
			return
		}
		on[b] = true
		defer func() { on[b] = false }()
		if iff, ok := b.Instrs[len(b.Instrs)-1].(*ssa.If); ok && b.Succs[0] != b.Succs[1] {
			for k := 0; k < 2; k++ {
				d := c.condDesc(iff, k, loops)
				contra := false
				for _, g := range conds {
					if g == negDesc(d) {
						contra = true
					}
				}
				if contra {
					continue
				}
				conds = append(conds, d)
				rec(b.Succs[k])
				conds = conds[:len(conds)-1]
			}
			return
		}
		for _, s := range b.Succs {
			rec(s)
		}
	}
	if len(fn.Blocks) > 0 {
		rec(fn.Blocks[0])
	}
	return out
}
