package rules

import (
	"fmt"
	"go/types"
	"sort"
	"strings"

	"golang.org/x/tools/go/ssa"

	"cdiverif/internal/ir"
)

// C14 — injection changes nothing but the OCI spec and is repeatable.

func init() {
	register(&Property{
		ID: "C14",
		Explanation: "Write-effect analysis over access paths (field-based, flow-insensitive value origins; bottom-up summaries through every resolved callee, including the bodies of the OCI generator methods) for the injection entry points " +
			"(*ContainerEdits).Apply, (*Device).ApplyEdits, (*Spec).ApplyEdits, (*Cache).InjectDevices and the package-level InjectDevices. " +
			"Decided: (C14.1) no write reaches memory of a loaded Spec (any field of a specs-go type or of the cdi.Spec/cdi.Device wrappers) through a parameter other than the OCI spec or through a global; " +
			"(C14.2) the edit accumulator of InjectDevices is an object allocated in that call; (C14.3) nothing reachable from Apply writes or reads package-level state (no memoisation of host device information) and the host lookup call is on every path that fills in missing information. " +
			"Not decided: aliasing created into the OCI spec (toOCI shares Args/Options/FileMode by reference, a later writer of the OCI spec could reach cached memory); behaviour under host node changes.",
		Assumptions: []string{
			"functions of read-only dependencies (fmt, strings, errors, os, filepath, unix.Lstat writing only its out-parameter) do not write through other arguments",
			"the OCI generator (runtime-tools/generate) is analysed from its source in the same SSA program",
		},
		Run:       runC14,
		OtherGOOS: []string{"darwin", "windows"},
	})
}

func runC14(c *Ctx) {
	r := c.R
	r.Rule("C14.1", "no-cache-writes: injection entry points write only the OCI spec, their own locals and the Cache's index bookkeeping, never memory of a loaded Spec", 5)
	r.Rule("C14.2", "fresh-accumulator: the receiver of every Append in InjectDevices is allocated in that call", 2)
	r.Rule("C14.3", "host-each-time: no package-level state is written or read on the Apply path; missing host information comes from a host lookup made in the same call", 3)

	type entry struct {
		pkg, name string
		ociParam  string // name of the OCI spec parameter
	}
	entries := []entry{
		{"cdi", "(*ContainerEdits).Apply", ""},
		{"cdi", "(*Device).ApplyEdits", ""},
		{"cdi", "(*Spec).ApplyEdits", ""},
		{"cdi", "(*Cache).InjectDevices", ""},
		{"cdi", "InjectDevices", ""},
	}
	var roots []*ssa.Function
	for _, e := range entries {
		if f := c.U.Func(e.pkg, e.name); f != nil {
			roots = append(roots, f)
		}
	}
	// make pointer stores done by callees (Append storing into the accumulator)
	// visible to the origin analysis before summarising effects
	c.U.RefineHeap(roots, 3)
	for _, e := range entries {
		fn := c.fn("C14.1", e.pkg, e.name)
		if fn == nil {
			continue
		}
		oci := paramOfType(fn, ociSpecsPkg, "Spec")
		if oci == nil {
			r.Undecided("C14.1", "anchor:"+e.name+":oci-param", c.U.Pos(fn.Pos()), "no *oci.Spec parameter")
			continue
		}
		eff := c.U.EffectsOf(fn)
		bad := map[string]bool{}
		nWrites := 0
		for _, w := range eff.Writes {
			p := w.Path
			switch p.Kind() {
			case ir.RootParam:
				if rootedAt(p, oci) {
					continue
				}
				nWrites++
				if hit, what := c.touchesSpecMemory(p); hit {
					key := fmt.Sprintf("write:%s:%s", e.name, selNames(p))
					if !bad[key] {
						bad[key] = true
						r.Violation("C14.1", key, c.pos(w.Site),
							fmt.Sprintf("%s writes %s (%s; %s at %s via %s): memory of a loaded Spec must not change during injection", e.name, p, what, w.Kind, c.U.InstrPos(w.Deep), strings.Join(w.Chain, " > ")))
					}
				}
			case ir.RootGlobal:
				nWrites++
				if g := p.Root.(*ssa.Global); ir.TypeIs(g.Type().(*types.Pointer).Elem(), "cdi", "Cache") {
					// the default cache: same rule as for a cache receiver
					if hit, what := c.touchesSpecMemory(p); hit {
						key := fmt.Sprintf("write:%s:%s", e.name, selNames(p))
						if !bad[key] {
							bad[key] = true
							r.Violation("C14.1", key, c.pos(w.Site),
								fmt.Sprintf("%s writes %s (%s; %s at %s via %s): memory of a loaded Spec must not change during injection", e.name, p, what, w.Kind, c.U.InstrPos(w.Deep), strings.Join(w.Chain, " > ")))
						}
					}
					continue
				}
				key := fmt.Sprintf("global-write:%s:%s", e.name, p.String())
				if !bad[key] {
					bad[key] = true
					r.Violation("C14.1", key, c.pos(w.Site),
						fmt.Sprintf("%s writes package-level state %s (%s at %s via %s): injection must not remember anything", e.name, p, w.Kind, c.U.InstrPos(w.Deep), strings.Join(w.Chain, " > ")))
				}
			}
		}
		for _, o := range eff.Opaque {
			for _, ap := range o.Args {
				if hit, what := c.touchesSpecMemory(ap); hit && !rootedAt(ap, oci) {
					key := fmt.Sprintf("opaque:%s:%s", e.name, o.Callee)
					if !bad[key] {
						bad[key] = true
						r.Undecided("C14.1", key, c.pos(o.Site),
							fmt.Sprintf("%s passes %s (%s) to %s, whose effect on its arguments is unknown to the analysis", e.name, ap, what, o.Callee))
					}
				}
			}
		}
		if len(bad) == 0 {
			r.OK("C14.1", "entry:"+e.name, c.U.Pos(fn.Pos()),
				fmt.Sprintf("%d writes summarised, %d outside the OCI spec and locals, none into Spec memory or globals", len(eff.Writes), nWrites))
		}
	}

	// C14.2: accumulator
	if inj := c.fn("C14.2", "cdi", "(*Cache).InjectDevices"); inj != nil {
		appends := c.callsTo(inj, false, "cdi", "(*ContainerEdits).Append")
		if len(appends) == 0 {
			r.Undecided("C14.2", "anchor:appends", c.U.Pos(inj.Pos()), "no call to (*ContainerEdits).Append in InjectDevices")
		}
		// equal requests give equal results: the edits are accumulated in an order that is a
		// function of the request, never in the iteration order of a map
		mapOrdered := 0
		for _, l := range ir.Loops(inj) {
			if _, isMap := l.Over.Type().Underlying().(*types.Map); !isMap {
				continue
			}
			for _, call := range appends {
				if l.BodyBlocks()[call.(ssa.Instruction).Block()] {
					mapOrdered++
					r.Violation("C14.2", "order-from-map:"+c.pos(call), c.pos(call), "edits are appended inside a loop over a map ("+c.valueDesc(l.Over)+"): their order in the result changes from call to call")
				}
			}
		}
		if mapOrdered == 0 && len(appends) > 0 {
			r.OK("C14.2", "order-from-request", c.U.Pos(inj.Pos()), fmt.Sprintf("none of the %d Append calls runs inside a loop over a map: the order of the combined edits is determined by the request", len(appends)))
		}
		for i, call := range appends {
			recv := call.Common().Args[0]
			fresh := true
			var desc []string
			for _, p := range c.U.PathsOf(recv) {
				desc = append(desc, p.String())
				a, ok := p.Root.(*ssa.Alloc)
				if !ok || a.Parent() != inj || len(p.Sels) != 0 {
					fresh = false
				}
			}
			r.Check("C14.2", fmt.Sprintf("append-receiver:%d", i), fresh && len(desc) > 0, c.pos(call),
				"Append receiver is "+strings.Join(desc, ",")+" (must be an object allocated in this call)")
		}
	}

	// C14.3: nothing remembered
	apply := c.fn("C14.3", "cdi", "(*ContainerEdits).Apply")
	if apply != nil {
		reach := c.U.Reach([]*ssa.Function{apply}, nil)
		var names []string
		globalsRead := map[string]string{}
		for fn := range reach {
			names = append(names, c.U.ShortName(fn))
			ir.Instrs(fn, func(in ssa.Instruction) {
				// any use: a load, but also the variable's address handed to a method
				// (a sync.Map or a mutex-protected table is state just the same)
				for _, op := range in.Operands(nil) {
					if *op == nil {
						continue
					}
					if g, ok := (*op).(*ssa.Global); ok && g.Pkg != nil && strings.HasPrefix(g.Pkg.Pkg.Path(), ir.ModulePrefix) {
						globalsRead[g.Name()] = c.pos(in)
					}
				}
			})
		}
		sort.Strings(names)
		r.Analysed["C14.functions_reachable_from_Apply"] = names
		if len(globalsRead) == 0 {
			r.OK("C14.3", "no-global-reads", c.U.Pos(apply.Pos()), fmt.Sprintf("%d repository functions reachable from Apply read no package-level variable", len(reach)))
		}
		for g, pos := range globalsRead {
			r.Violation("C14.3", "global-read:"+g, pos, "code reachable from Apply uses package-level variable "+g+": host device information (or anything else) could be remembered between injections")
		}
		// host lookup on every filling path (unix only)
		fill := c.U.Func("cdi", "(*DeviceNode).fillMissingInfo")
		if fill == nil {
			r.Undecided("C14.3", "anchor:fillMissingInfo", "", "fillMissingInfo not found")
		} else if c.U.GOOS == "windows" {
			r.OK("C14.3", "host-lookup", c.U.Pos(fill.Pos()), "windows: fillMissingInfo is unimplemented (returns an error), nothing is filled in")
		} else {
			// every store to Type/Major/Minor in fillMissingInfo is preceded by a call that reaches unix.Lstat
			lookups := func(in ssa.Instruction) bool {
				call, ok := in.(ssa.CallInstruction)
				if !ok {
					return false
				}
				for _, f := range c.U.Callees(call) {
					sub := c.U.Reach([]*ssa.Function{f}, nil)
					for g := range sub {
						for _, cc := range ir.Calls(g) {
							if sc := cc.Common().StaticCallee(); sc != nil && (sc.String() == "golang.org/x/sys/unix.Lstat" || sc.String() == "golang.org/x/sys/unix.Stat" || sc.String() == "os.Lstat" || sc.String() == "os.Stat") {
								return true
							}
						}
					}
				}
				return false
			}
			n := 0
			ir.Instrs(fill, func(in ssa.Instruction) {
				st, ok := in.(*ssa.Store)
				if !ok {
					return
				}
				fa, ok := st.Addr.(*ssa.FieldAddr)
				if !ok {
					return
				}
				sto := ir.StructOf(fa.X.Type())
				if sto == nil {
					return
				}
				fname := sto.Field(fa.Field).Name()
				if fname != "Type" && fname != "Major" && fname != "Minor" {
					return
				}
				n++
				ok2 := ir.MustPassBefore(fill, in, lookups)
				r.Check("C14.3", "host-lookup:"+fname, ok2, c.pos(in), "store to "+fname+" is preceded on every path by a host stat made in this call")
			})
			if n == 0 {
				r.Undecided("C14.3", "host-lookup", c.U.Pos(fill.Pos()), "no store to Type/Major/Minor found in fillMissingInfo")
			}
		}
	}
}
