package rules

import (
	"fmt"
	"go/constant"
	"go/types"
	"sort"
	"strings"

	"golang.org/x/tools/go/ssa"

	"cdiverif/internal/ir"
)

// C15 — CDI annotations written by the helper parse back to the same request.

func init() {
	register(&Property{
		ID: "C15",
		Explanation: "Structural decision of pkg/cdi/annotations.go on go/ssa with decoded condition sets and source-like expressions: " +
			"(C15.1) validate-then-mutate: the only store into the annotation map in UpdateAnnotations is reachable exactly when the key was built without error, is not yet present, and the value was built without error; every failing return hands back the map parameter itself with a non-nil error, so the map is exactly as it was; " +
			"(C15.2) the key stored is the one tested for presence (no overwrite) and the value is the one built from the device list; a nil map is replaced by a fresh one only on the success path; " +
			"(C15.3) ParseAnnotations: keys without the CDI prefix are skipped before anything is collected, every device of a CDI key must be a qualified name or the result is (nil, nil, error), devices are collected in the order of the value's elements; " +
			"(C15.4) tables: the prefix tested in ParseAnnotations is the one AnnotationKey prepends; the join separator of AnnotationValue is the split separator of ParseAnnotations; every device is checked with ParseQualifiedName when building the value; AnnotationKey's length limit equals the Kubernetes qualified-name length limit, '/' in the device id is replaced, first and last character must be alphanumeric and the middle ones alphanumeric or _ - . (exact rune sets by interval evaluation); bounds obligations of the file are discharged. " +
			"Not decided: equality of the accepted key language with the full Kubernetes annotation-key grammar over all strings; map iteration order (the property does not fix an order between different keys).",
		Assumptions: []string{"strings.Split/Join-by-concatenation are inverse for separator-free elements (qualified names contain no ',')"},
		Run:         runC15,
	})
}

func runC15(c *Ctx) {
	r := c.R
	r.Rule("C15.1", "validate-then-mutate: the map is written only after key and value were validated and the key found unused; failures return the map untouched", 4)
	r.Rule("C15.2", "no-overwrite: stored key = tested key, stored value = built value", 2)
	r.Rule("C15.3", "parse-contract: foreign keys skipped, unqualified device -> (nil,nil,err), order preserved", 4)
	r.Rule("C15.4", "tables: prefix, separator, length limit, character classes, qualification check", 8)

	up := c.fn("C15.1", "cdi", "UpdateAnnotations")
	if up != nil && len(up.Params) == 4 {
		nd := func(v ssa.Value) string { return normExpr(up, []string{c.exprDesc(v)})[0] }
		var stores []*ssa.MapUpdate
		ir.Instrs(up, func(in ssa.Instruction) {
			if mu, ok := in.(*ssa.MapUpdate); ok {
				stores = append(stores, mu)
			}
		})
		if len(stores) != 1 {
			r.Violation("C15.1", "single-store", c.U.Pos(up.Pos()), fmt.Sprintf("%d map stores in UpdateAnnotations (exactly one expected)", len(stores)))
		} else {
			mu := stores[0]
			gs := normExpr(up, c.exprGuardsOf(up, mu))
			want := []string{"!$0[AnnotationKey($1,$2)#0]#1", "AnnotationKey($1,$2)#1 == nil", "AnnotationValue($3)#1 == nil"}
			// a nil test of the map on the way to the store is allowed
			var rest []string
			for _, g := range gs {
				if g == "$0 == nil" || g == "$0 != nil" {
					continue
				}
				rest = append(rest, g)
			}
			sort.Strings(want)
			r.Check("C15.1", "store-conditions", sameSet(rest, want), c.pos(mu), fmt.Sprintf("the map is written exactly when key and value were built without error and the key is unused (conditions %v)", gs))
			r.Check("C15.2", "store-key", nd(mu.Key) == "AnnotationKey($1,$2)#0", c.pos(mu), "the key stored is the validated key that was tested for presence (found "+nd(mu.Key)+")")
			r.Check("C15.2", "store-value", nd(mu.Value) == "AnnotationValue($3)#0", c.pos(mu), "the value stored is the validated value (found "+nd(mu.Value)+")")
			md := nd(mu.Map)
			r.Check("C15.2", "store-map", md == "phi($0|make(map))" || md == "$0", c.pos(mu), "the store goes to the given map, or to a fresh one when it was nil (found "+md+")")
		}
		for _, er := range c.exprReturns(up) {
			if er.results[1] == "nil" {
				r.Check("C15.1", "success-return", er.results[0] == "phi($0|make(map))" || er.results[0] == "$0", c.pos(er.ret), "success returns the (possibly newly made) map (found "+er.results[0]+")")
				continue
			}
			r.Check("C15.1", "failure-return:"+strings.Join(er.guards, "&"), er.results[0] == "$0" && strings.HasPrefix(er.results[1], "fmt.Errorf("), c.pos(er.ret),
				"a failing return hands back the map parameter itself and an error (found "+strings.Join(er.results, ", ")+")")
			// and nothing was stored before: no path from the store to this return
			for _, mu := range stores {
				r.Check("C15.1", "failure-after-store:"+strings.Join(er.guards, "&"), !ir.CanReach(up, ir.PathQuery{From: mu, To: er.ret}), c.pos(er.ret), "no failing return is reachable after the map was written")
			}
		}
	} else if up != nil {
		r.Undecided("C15.1", "anchor:UpdateAnnotations-params", c.U.Pos(up.Pos()), "UpdateAnnotations no longer has (map, plugin, deviceID, devices) parameters")
	}

	// ---- ParseAnnotations
	var prefixTested, prefixBuilt, sepSplit, sepJoin string
	pa := c.fn("C15.3", "cdi", "ParseAnnotations")
	if pa != nil {
		ers := c.exprReturns(pa)
		nFail := 0
		for _, er := range ers {
			if er.results[2] != "nil" {
				nFail++
			}
		}
		r.Check("C15.3", "failure-exists", nFail >= 1, c.U.Pos(pa.Pos()), "ParseAnnotations has an error return for device names that are not fully qualified")
		for _, er := range ers {
			if er.results[2] == "nil" {
				okKeys := er.results[0] == "phi(append(↺,[idx($0)])|nil)"
				okDevs := strings.Contains(er.results[1], `elem(strings.Split(elem($0),","))`) && strings.HasPrefix(er.results[1], "phi(append(")
				r.Check("C15.3", "success-results", okKeys && okDevs && sameSet(er.guards, []string{"loopdone($0)"}), c.pos(er.ret), fmt.Sprintf("success returns the collected keys and devices after the whole map was walked (found %s / %s under %v)", er.results[0], er.results[1], er.guards))
				continue
			}
			okShape := er.results[0] == "nil" && er.results[1] == "nil"
			var okCond bool
			for _, g := range er.guards {
				// IsQualifiedName(d) is ParseQualifiedName(d) succeeding (C07.2): either spelling
				if g == `!IsQualifiedName(elem(strings.Split(elem($0),",")))` || g == `ParseQualifiedName(elem(strings.Split(elem($0),",")))#3 != nil` {
					okCond = true
				}
			}
			r.Check("C15.3", "failure-shape", okShape && okCond, c.pos(er.ret), fmt.Sprintf("an unqualified device yields (nil, nil, error) (found %v under %v)", er.results, er.guards))
		}
		// prefix filter dominates every append
		nApp := 0
		for _, call := range ir.Calls(pa) {
			if ir.BuiltinName(call) != "append" {
				continue
			}
			nApp++
			gs := normExpr(pa, c.exprGuardsOf(pa, call.(ssa.Instruction)))
			ok := false
			for _, g := range gs {
				if strings.HasPrefix(g, "strings.HasPrefix(idx($0),") {
					ok = true
					prefixTested = strings.TrimSuffix(strings.TrimPrefix(g, "strings.HasPrefix(idx($0),"), ")")
				}
			}
			r.Check("C15.3", fmt.Sprintf("prefix-filter:%d", nApp), ok, c.pos(call), fmt.Sprintf("keys and devices are collected only for keys with the CDI prefix (conditions %v)", gs))
		}
		if nApp < 2 {
			r.Violation("C15.3", "collect", c.U.Pos(pa.Pos()), "ParseAnnotations does not collect both keys and devices")
		}
		for _, call := range ir.Calls(pa) {
			if f := call.Common().StaticCallee(); f != nil && f.String() == "strings.Split" {
				if s, ok := ir.ConstString(call.Common().Args[1]); ok {
					sepSplit = s
				}
			}
		}
		// device loop complete and in order; each device checked before it is collected
		for _, l := range ir.Loops(pa) {
			if strings.HasPrefix(normExpr(pa, []string{c.exprDesc(l.Over)})[0], "strings.Split(") {
				r.Check("C15.3", "device-order", l.Complete, c.pos(l.Header.Instrs[len(l.Header.Instrs)-1]), "the devices of a value are walked completely, in order")
			}
		}
	}

	// ---- AnnotationValue
	if av := c.fn("C15.4", "cdi", "AnnotationValue"); av != nil {
		for _, er := range c.exprReturns(av) {
			if er.results[1] == "nil" {
				// value = acc + sep + elem, sep = "" first then ","
				res := er.results[0]
				okShape := strings.HasPrefix(res, `phi(""|(↺ + (phi(""|`) && strings.HasSuffix(res, `) + elem($0))))`)
				if okShape {
					mid := strings.TrimSuffix(strings.TrimPrefix(res, `phi(""|(↺ + (phi(""|`), `) + elem($0))))`)
					sepJoin = strings.Trim(mid, `"`)
				}
				if !okShape && strings.HasPrefix(res, `strings.Join($0,"`) && strings.HasSuffix(res, `")`) {
					// the same concatenation by the standard library
					okShape = true
					sepJoin = strings.TrimSuffix(strings.TrimPrefix(res, `strings.Join($0,"`), `")`)
				}
				r.Check("C15.4", "value-join", okShape && sameSet(er.guards, []string{"loopdone($0)"}), c.pos(er.ret), "the value is the devices joined in order by one separator (found "+res+")")
				continue
			}
			ok := er.results[0] == `""` && er.results[1] == "ParseQualifiedName(elem($0))#3"
			r.Check("C15.4", "value-failure", ok, c.pos(er.ret), "a device that is not a qualified name makes AnnotationValue fail with an empty value (found "+strings.Join(er.results, ", ")+")")
		}
		calls := c.callsTo(av, false, "parser", "ParseQualifiedName")
		if len(calls) == 1 {
			msg := c.errflow(av, calls[0])
			l := ir.LoopOf(av, ir.Loops(av), calls[0].(ssa.Instruction).Block())
			every := false
			if l != nil {
				be := l.Body
				every = l.Complete && !ir.CanReach(av, ir.PathQuery{FromEdge: &be, ToAny: func(in ssa.Instruction) bool { return in.Block() == l.Header },
					Stop: func(in ssa.Instruction) bool { return in == calls[0].(ssa.Instruction) }})
			}
			r.Check("C15.4", "value-qualifies-each", msg == "" && every, c.pos(calls[0]), "every device is checked with ParseQualifiedName and its error returned"+ifMsg(msg))
		} else {
			r.Violation("C15.4", "value-qualifies-each", c.U.Pos(av.Pos()), "AnnotationValue does not check the devices with ParseQualifiedName")
		}
	}
	if sepSplit != "" || sepJoin != "" {
		r.Check("C15.4", "separator", sepSplit == sepJoin && sepSplit != "", "", fmt.Sprintf("join separator %q = split separator %q", sepJoin, sepSplit))
	}

	// ---- AnnotationKey
	ak := c.fn("C15.4", "cdi", "AnnotationKey")
	if ak != nil {
		name := `(($0 + "_") + strings.ReplaceAll($1,"/","_"))`
		first := "IsAlphaNumeric(rune(" + name + "[0]))"
		last := "IsAlphaNumeric(rune(" + name + "[(len(" + name + ") - 1)]))"
		var limit string
		for _, er := range c.exprReturns(ak) {
			if er.results[1] != "nil" {
				r.Check("C15.4", "key-failure:"+fmt.Sprint(len(er.guards)), er.results[0] == `""`, c.pos(er.ret), "a failing AnnotationKey returns an empty key")
				continue
			}
			res := er.results[0]
			okRes := strings.HasSuffix(res, " + "+name+")") && strings.HasPrefix(res, `("`)
			if okRes {
				prefixBuilt = strings.TrimSuffix(strings.TrimPrefix(res, "("), " + "+name+")")
			}
			var okFirst, okLast, okP, okD bool
			var extra []string
			for _, g := range er.guards {
				switch {
				case g == first:
					okFirst = true
				case g == last:
					okLast = true
				case g == "nonempty($0)":
					okP = true
				case g == "nonempty($1)":
					okD = true
				case strings.HasPrefix(g, "len("+name+") <= "):
					limit = strings.TrimPrefix(g, "len("+name+") <= ")
				default:
					extra = append(extra, g)
				}
			}
			r.Check("C15.4", "key-success", okRes && okFirst && okLast && okP && okD && limit != "" && len(extra) == 0, c.pos(er.ret),
				fmt.Sprintf("the key is prefix + plugin + \"_\" + id with '/' replaced, produced exactly when both parts are non-empty, the name is within the length limit and starts and ends alphanumeric (result %s, conditions %v)", res, er.guards))
		}
		// length limit equals the k8s limit
		k8sLimit := ""
		if p := c.U.Pkgs[ir.PkgAlias["k8s"]]; p != nil && p.Types != nil {
			if k, ok := p.Types.Scope().Lookup("qualifiedNameMaxLength").(*types.Const); ok {
				if v, exact := constant.Int64Val(k.Val()); exact {
					k8sLimit = fmt.Sprint(v)
				}
			}
		}
		r.Check("C15.4", "key-length-limit", limit != "" && limit == k8sLimit, c.U.Pos(ak.Pos()), fmt.Sprintf("the length limit of the name part (%s) is the Kubernetes qualified-name limit (%s)", limit, k8sLimit))
		// middle class
		var loop *ir.Loop
		for _, l := range ir.Loops(ak) {
			if normExpr(ak, []string{c.exprDesc(l.Over)})[0] == name+"[1:(len("+name+") - 1)]" {
				loop = l
			}
		}
		if loop == nil || loop.Elem == nil {
			r.Violation("C15.4", "key-middle", c.U.Pos(ak.Pos()), "AnnotationKey has no loop over the middle section of the name")
		} else {
			acc, rej, ok := c.loopRuneSets(ak, loop)
			want := runesOf("A-Z,a-z,0-9,_,-,.")
			if !ok {
				r.Undecided("C15.4", "key-middle", c.U.Pos(ak.Pos()), "the middle-section loop is not made of comparisons and class calls on the loop's rune")
			} else {
				r.Check("C15.4", "key-middle", acc.equal(want) && rej.equal(want.complement()), c.U.Pos(ak.Pos()), fmt.Sprintf("middle characters accepted are exactly %s (found %s)", want, acc))
			}
			// the loop is skipped only for names too short to have a middle
			gs := normExpr(ak, c.exprGuardsOf(ak, loop.Header.Instrs[len(loop.Header.Instrs)-1]))
			okLen := false
			for _, g := range gs {
				if g == "len("+name+") > 2" || g == "len("+name+") >= 3" || g == "len("+name+") > 1" || g == "len("+name+") >= 2" {
					okLen = true
				}
			}
			r.Check("C15.4", "key-middle-guard", okLen, c.U.Pos(ak.Pos()), fmt.Sprintf("the middle check runs for every name that has a middle (conditions %v)", gs))
		}
	}
	if prefixBuilt != "" || prefixTested != "" {
		constPrefix := ""
		if p := c.U.Pkgs[ir.PkgAlias["cdi"]]; p != nil && p.Types != nil {
			if k, ok := p.Types.Scope().Lookup("AnnotationPrefix").(*types.Const); ok {
				constPrefix = fmt.Sprintf("%q", constant.StringVal(k.Val()))
			}
		}
		r.Check("C15.4", "prefix", prefixBuilt == prefixTested && prefixBuilt == constPrefix && prefixBuilt != "", "", fmt.Sprintf("prefix prepended by AnnotationKey %s = prefix tested by ParseAnnotations %s = AnnotationPrefix %s", prefixBuilt, prefixTested, constPrefix))
	}
	// bounds of this file's functions are covered by C08.K1; re-check the annotation functions here
	boundsCheckFuncs(c, "C15.4", []*ssa.Function{ak, pa, up})
}

// boundsCheckFuncs applies the bounds engine to the given functions only.
func boundsCheckFuncs(c *Ctx, rule string, fns []*ssa.Function) {
	unproven, ok := c.compilerUnproven(rule, ".")
	if !ok {
		return
	}
	n := 0
	for _, fn := range fns {
		if fn == nil {
			continue
		}
		for _, op := range indexOps(fn) {
			n++
			if !op.in.Pos().IsValid() {
				continue
			}
			pos := c.U.Fset.Position(op.in.Pos())
			rel := strings.TrimPrefix(pos.Filename, c.Root+"/")
			if unproven[bcePos{rel, pos.Line}] == 0 {
				continue
			}
			why := c.dischargeBounds(op)
			key := fmt.Sprintf("bounds:%s:%s", c.U.RelName(fn), normExpr(fn, []string{c.exprDesc(op.in.(ssa.Value))})[0])
			if why != "" {
				c.R.OK(rule, key, c.pos(op.in), "discharged by rule "+why)
			} else {
				c.R.Violation(rule, key, c.pos(op.in), "index/slice expression not proven in range: "+c.exprDesc(op.in.(ssa.Value)))
			}
		}
	}
	c.R.OK(rule, "bounds", "", fmt.Sprintf("%d index/slice expressions of the annotation helpers are in range", n))
}
