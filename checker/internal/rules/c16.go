package rules

import (
	"fmt"
	"go/types"
	"strings"

	"golang.org/x/tools/go/ssa"

	"cdiverif/internal/ir"
)

// C16 — generated Spec file names are confined; write and remove are symmetric.

func init() {
	register(&Property{
		ID: "C16",
		Explanation: "Source-like expressions of the name generators and of the path computations of WriteSpec / RemoveSpec / newSpec are extracted from go/ssa and compared: " +
			"(C16.1) GenerateSpecName is vendor + \"-\" + class and the transient id reaches the generated name only through strings.ReplaceAll(id, \"/\", <separator-free constant>), so the name is one path component for valid vendor/class; GenerateNameFor*Spec use ParseQualifier of the Spec's kind and refuse an empty vendor; " +
			"(C16.2) WriteSpec hands newSpec, and RemoveSpec hands os.Remove, the same path expression: Join(last directory, name) with the default extension appended under the same extension test; newSpec normalises its path with the same extension table and default; " +
			"(C16.3) the target directory is the last element of the configured list (and its index the priority); no directories configured is an error for both; (C16.4) RemoveSpec turns exactly 'does not exist' into success and returns every other error; (C16.5) WriteSpec writes through (*Spec).write with overwrite enabled and nothing else touches the file system (shared with C10.4). " +
			"Not decided: directory snapshots before/after (file-system behaviour), precedence after refresh (C01).",
		Assumptions: []string{"filepath.Join(dir, name) stays inside dir for a name that is a single path component", "valid vendor and class names contain no path separator (C07)"},
		Run:         runC16,
	})
}

func runC16(c *Ctx) {
	r := c.R
	r.Rule("C16.1", "sanitised-name: generated names are vendor-class[_id] with '/' removed from the id", 4)
	r.Rule("C16.2", "path-siblings: WriteSpec and RemoveSpec compute the same path; newSpec normalises alike", 3)
	r.Rule("C16.3", "last-dir: the target directory is the last configured one", 2)
	r.Rule("C16.4", "enoent-tolerated: removing a missing file succeeds, other errors are returned", 1)
	r.Rule("C16.5", "write-through: WriteSpec publishes via (*Spec).write(overwrite)", 1)

	// ---- C16.1
	if fn := c.fn("C16.1", "cdi", "GenerateSpecName"); fn != nil {
		ers := c.exprReturns(fn)
		ok := len(ers) == 1 && ers[0].results[0] == `(($0 + "-") + $1)`
		r.Check("C16.1", "GenerateSpecName", ok, c.U.Pos(fn.Pos()), "GenerateSpecName = vendor + \"-\" + class")
	}
	if fn := c.fn("C16.1", "cdi", "GenerateTransientSpecName"); fn != nil {
		ers := c.exprReturns(fn)
		got := ""
		if len(ers) == 1 {
			got = ers[0].results[0]
		}
		// the id may reach the result only through ReplaceAll(id, "/", x)
		okShape := false
		repl := ""
		pre := `((GenerateSpecName($0,$1) + "_") + strings.ReplaceAll($2,"/",`
		// GenerateSpecName written out in place is the same name
		if in := strings.Replace(pre, "GenerateSpecName($0,$1)", `(($0 + "-") + $1)`, 1); strings.HasPrefix(got, in) {
			pre = in
		}
		if strings.HasPrefix(got, pre) && strings.HasSuffix(got, "))") {
			repl = strings.Trim(strings.TrimSuffix(strings.TrimPrefix(got, pre), "))"), `"`)
			okShape = !strings.ContainsAny(repl, `/\`) && strings.Count(got, "$2") == 1
		}
		r.Check("C16.1", "GenerateTransientSpecName", okShape, c.U.Pos(fn.Pos()), fmt.Sprintf("transient name = GenerateSpecName(vendor,class) + \"_\" + id with every '/' replaced by a separator-free string (found %s)", got))
	}
	for _, name := range []string{"GenerateNameForSpec", "GenerateNameForTransientSpec"} {
		fn := c.fn("C16.1", "cdi", name)
		if fn == nil {
			continue
		}
		okS, okF := false, false
		for _, er := range c.exprReturns(fn) {
			last := er.results[len(er.results)-1]
			if last == "nil" {
				want := "GenerateSpecName(ParseQualifier($0.Kind)#0,ParseQualifier($0.Kind)#1)"
				if name == "GenerateNameForTransientSpec" {
					want = "GenerateTransientSpecName(ParseQualifier($0.Kind)#0,ParseQualifier($0.Kind)#1,$1)"
				}
				okS = er.results[0] == want && sameSet(er.guards, []string{"nonempty(ParseQualifier($0.Kind)#0)"})
			} else {
				okF = er.results[0] == `""` && sameSet(er.guards, []string{"empty(ParseQualifier($0.Kind)#0)"})
			}
		}
		r.Check("C16.1", name, okS && okF, c.U.Pos(fn.Pos()), name+" derives vendor and class from the Spec's kind and fails for an unqualified kind")
	}

	// ---- C16.2 / C16.3 / C16.5
	ws := c.fn("C16.2", "cdi", "(*Cache).WriteSpec")
	rs := c.fn("C16.2", "cdi", "(*Cache).RemoveSpec")
	pathExpr := func(fn *ssa.Function, pkg, callee string, argIdx int) (string, ssa.CallInstruction) {
		for _, call := range ir.Calls(fn) {
			f := call.Common().StaticCallee()
			if f == nil {
				continue
			}
			if (pkg == "" && f.String() == callee) || (pkg != "" && c.U.CalleeIs(call, pkg, callee)) {
				return normExpr(fn, []string{c.exprDesc(call.Common().Args[argIdx])})[0], call
			}
		}
		return "", nil
	}
	wantPath := `phi((path/filepath.Join([(*Cache).highestPrioritySpecDir($0)#0,$NAME]) + ".yaml")|path/filepath.Join([(*Cache).highestPrioritySpecDir($0)#0,$NAME]))`
	var wPath, rPath string
	if ws != nil {
		var call ssa.CallInstruction
		wPath, call = pathExpr(ws, "cdi", "newSpec", 1)
		if call == nil {
			r.Violation("C16.2", "write-path", c.U.Pos(ws.Pos()), "WriteSpec does not build its Spec through newSpec")
		} else {
			r.Check("C16.2", "write-path", wPath == strings.ReplaceAll(wantPath, "$NAME", "$2"), c.pos(call), "WriteSpec's target = Join(last directory, name) [+ default extension] (found "+wPath+")")
			// priority argument
			pd := normExpr(ws, []string{c.exprDesc(call.Common().Args[2])})[0]
			r.Check("C16.3", "write-priority", pd == "(*Cache).highestPrioritySpecDir($0)#1", c.pos(call), "the Spec written carries the priority of the last directory (found "+pd+")")
			r.Check("C16.2", "write-raw", call.Common().Args[0] == ssa.Value(ws.Params[1]), c.pos(call), "the Spec written is the one given")
		}
		// default extension appended exactly when ext not in table
		c16ExtCondition(c, ws, "write")
		// write(true)
		okW := false
		for _, call := range c.callsTo(ws, false, "cdi", "(*Spec).write") {
			if b, ok := ir.ConstBool(call.Common().Args[1]); ok && b {
				for _, ret := range ir.NormalReturns(ws) {
					if ret.Results[0] == call.Value() {
						okW = true
					}
				}
			}
		}
		r.Check("C16.5", "write-through", okW, c.U.Pos(ws.Pos()), "WriteSpec returns the result of spec.write(true): create or replace")
		// no-directories error
		c16NoDirs(c, ws, "write")
	}
	c16TempRemoved(c)
	if rs != nil {
		var call ssa.CallInstruction
		rPath, call = pathExpr(rs, "", "os.Remove", 0)
		if call == nil {
			r.Violation("C16.2", "remove-path", c.U.Pos(rs.Pos()), "RemoveSpec does not call os.Remove")
		} else {
			r.Check("C16.2", "remove-path", rPath == strings.ReplaceAll(wantPath, "$NAME", "$1"), c.pos(call), "RemoveSpec's target = Join(last directory, name) [+ default extension] (found "+rPath+")")
		}
		nRemove := 0
		for _, cl := range ir.Calls(rs) {
			if f := cl.Common().StaticCallee(); f != nil && (f.String() == "os.Remove" || f.String() == "os.RemoveAll") {
				nRemove++
			}
		}
		r.Check("C16.5", "remove-single-target", nRemove == 1, c.U.Pos(rs.Pos()), fmt.Sprintf("RemoveSpec removes exactly one file (%d removal calls)", nRemove))
		c16ExtCondition(c, rs, "remove")
		c16NoDirs(c, rs, "remove")
		// C16.4: every way out after the removal, per incoming edge of the returning block
		okTol, okOther, bad := false, false, ""
		rmVal, _ := call.(ssa.Value)
		for _, ret := range ir.NormalReturns(rs) {
			if call == nil || !ir.Dominates(call.Block(), ret.Block()) {
				continue
			}
			type alt struct {
				v  ssa.Value
				gs []string
			}
			var alts []alt
			res := ir.ReturnResult(ret, 0)
			b := ret.Block()
			if len(b.Preds) >= 2 && b != call.Block() {
				for k, p := range b.Preds {
					v := res
					if phi, ok := res.(*ssa.Phi); ok && phi.Block() == b {
						v = phi.Edges[k]
					}
					alts = append(alts, alt{v, c.edgeGuards(rs, p, b)})
				}
			} else {
				alts = append(alts, alt{res, c.guardsOf(rs, ret)})
			}
			for _, a := range alts {
				isNotExist, errNil := false, false
				for _, g := range a.gs {
					if strings.HasPrefix(g, "errors.Is(") && strings.Contains(g, "ErrNotExist") {
						isNotExist = true
					}
					if strings.HasPrefix(g, "nil(") && strings.Contains(g, "os.Remove") {
						errNil = true
					}
				}
				switch {
				case ir.IsNilConst(a.v):
					if isNotExist {
						okTol = true
					} else if !errNil {
						bad += fmt.Sprintf(" nil returned under %v;", a.gs)
					}
				case a.v == rmVal:
					if isNotExist {
						bad += " the 'does not exist' error is returned;"
					} else {
						okOther = true
					}
				default:
					bad += " returns " + c.valueDesc(a.v) + ";"
				}
			}
		}
		okTol = okTol && bad == ""
		r.Check("C16.4", "enoent", okTol && okOther, c.U.Pos(rs.Pos()), "RemoveSpec returns nil exactly for 'does not exist', the removal error otherwise"+bad)
	}
	if wPath != "" && rPath != "" {
		r.Check("C16.2", "same-path", strings.ReplaceAll(wPath, "$2", "$N") == strings.ReplaceAll(rPath, "$1", "$N"), "", "WriteSpec and RemoveSpec address the same file for the same name")
	}
	// newSpec normalisation
	if ns := c.fn("C16.2", "cdi", "newSpec"); ns != nil {
		okStore, okClean := false, false
		ir.Instrs(ns, func(in ssa.Instruction) {
			st, ok := in.(*ssa.Store)
			if !ok {
				return
			}
			fa, ok := st.Addr.(*ssa.FieldAddr)
			if !ok || !ir.TypeIs(fa.X.Type(), "cdi", "Spec") || ir.StructOf(fa.X.Type()).Field(fa.Field).Name() != "path" {
				return
			}
			d := normExpr(ns, []string{c.exprDesc(st.Val)})[0]
			// `spec.path = withDefaultExt(spec.path)`: the store is unconditional, the value a choice
			// between the path and path + ".yaml": judge the extended alternative where it is computed
			var at ssa.Instruction = st
			if _, isPhi := st.Val.(*ssa.Phi); isPhi {
				for _, lv := range phiLeaves(st.Val) {
					ld := normExpr(ns, []string{c.exprDesc(lv)})[0]
					if ld == "path/filepath.Clean($1)" {
						okClean = true
					}
					if li, isInstr := lv.(ssa.Instruction); isInstr && strings.HasPrefix(ld, "(") && strings.HasSuffix(ld, ` + ".yaml")`) {
						d, at = ld, li
					}
				}
			}
			if strings.HasPrefix(d, "(") && strings.HasSuffix(d, ` + ".yaml")`) {
				x := strings.TrimSuffix(strings.TrimPrefix(d, "("), ` + ".yaml")`)
				gs := normExpr(ns, c.exprGuardsOf(ns, at))
				var j, y bool
				for _, g := range gs {
					if g == "path/filepath.Ext("+x+`) != ".json"` {
						j = true
					}
					if g == "path/filepath.Ext("+x+`) != ".yaml"` {
						y = true
					}
				}
				if j && y {
					okStore = true
				}
			} else if d == "path/filepath.Clean($1)" {
				okClean = true
			}
		})
		r.Check("C16.2", "newSpec-normalise", okStore && okClean, c.U.Pos(ns.Pos()), "newSpec stores the cleaned path and appends the default extension exactly when it has neither .json nor .yaml")
	}
	// ---- C16.3 the configured list is the given list: WithSpecDirs keeps every directory, in order
	if ws := c.fn("C16.3", "cdi", "WithSpecDirs"); ws != nil && len(ws.AnonFuncs) == 1 {
		opt := ws.AnonFuncs[0]
		var loop *ir.Loop
		for _, l := range ir.Loops(opt) {
			if strings.HasSuffix(c.exprDesc(l.Over), "dirs") {
				loop = l
			}
		}
		ok := loop != nil && loop.Complete
		detail := "no complete loop over the given directories"
		if ok {
			// the instruction that keeps the element: specDirs[i] = Clean(dir) or append(specDirs, Clean(dir))
			var keeps []ssa.Instruction
			isCleanElem := func(v ssa.Value) bool {
				d := c.exprDesc(v)
				return strings.HasPrefix(d, "path/filepath.Clean(elem(") && strings.HasSuffix(d, "dirs))")
			}
			ir.Instrs(opt, func(in ssa.Instruction) {
				if !loop.BodyBlocks()[in.Block()] {
					return
				}
				switch x := in.(type) {
				case *ssa.Store:
					if ia, isIA := x.Addr.(*ssa.IndexAddr); isIA && loop.IsIndex(ia.Index) && isCleanElem(x.Val) {
						keeps = append(keeps, in)
					}
				case *ssa.Call:
					if ir.BuiltinName(x) == "append" {
						for _, ev := range c.U.ContainerElems(x.Call.Args[1]) {
							if isCleanElem(ev) {
								keeps = append(keeps, in)
							}
						}
					}
				}
			})
			body := loop.Body
			skip := len(keeps) == 0 || ir.CanReach(opt, ir.PathQuery{FromEdge: &body, ToAny: func(in ssa.Instruction) bool { return in.Block() == loop.Header },
				Stop: func(in ssa.Instruction) bool {
					for _, k := range keeps {
						if k == in {
							return true
						}
					}
					return false
				}})
			ok = !skip
			detail = fmt.Sprintf("%d keeping instruction(s), an iteration can finish without one: %v", len(keeps), skip)
		}
		specDirsCleanOnly(c, "C16.3", "specdirs-clean-only", "the last directory's name is the cleaned form of what was given: write, remove and the scan address the same place")
		r.Check("C16.3", "specdirs-kept-in-order", ok, c.U.Pos(opt.Pos()), "WithSpecDirs keeps every given directory (cleaned), in the given order - the last one given is the last one configured, also when it was given before ("+detail+")")
	}
	// ---- C16.3 last-dir
	if hp := c.fn("C16.3", "cdi", "(*Cache).highestPrioritySpecDir"); hp != nil {
		okLast, okEmpty := false, false
		for _, er := range c.exprReturns(hp) {
			if er.results[0] == `""` && er.results[1] == "-1" && sameSet(er.guards, []string{"empty($0.specDirs)"}) {
				okEmpty = true
			}
			if er.results[0] == "$0.specDirs[(len($0.specDirs) - 1)]" && er.results[1] == "(len($0.specDirs) - 1)" && sameSet(er.guards, []string{"nonempty($0.specDirs)"}) {
				okLast = true
			}
		}
		r.Check("C16.3", "last-dir", okLast && okEmpty, c.U.Pos(hp.Pos()), "highestPrioritySpecDir returns the last configured directory and its index, (\"\", -1) when none")
	}
}

// c16ExtCondition: the default extension is appended exactly when the path's
// extension is not in the Spec table.
func c16ExtCondition(c *Ctx, fn *ssa.Function, what string) {
	ok := false
	ir.Instrs(fn, func(in ssa.Instruction) {
		b, isBin := in.(*ssa.BinOp)
		if !isBin || b.Op.String() != "+" {
			return
		}
		if s, isStr := ir.ConstString(b.Y); !isStr || s != ".yaml" {
			return
		}
		gs := normExpr(fn, c.exprGuardsOf(fn, in))
		var j, y bool
		other := false
		for _, g := range gs {
			if !strings.HasPrefix(g, "path/filepath.Ext(path/filepath.Join(") {
				continue
			}
			switch {
			case strings.HasSuffix(g, `!= ".json"`):
				j = true
			case strings.HasSuffix(g, `!= ".yaml"`):
				y = true
			default:
				// a third extension treated as "already has one": newSpec, which decides the
				// real file name, knows only .json and .yaml - write and remove would disagree
				other = true
			}
		}
		if j && y && !other {
			ok = true
		}
	})
	c.R.Check("C16.2", what+"-default-ext", ok, c.U.Pos(fn.Pos()), "the default extension .yaml is appended exactly when the joined path ends in neither .json nor .yaml")
}

func c16NoDirs(c *Ctx, fn *ssa.Function, what string) {
	ok := false
	for _, er := range c.exprReturns(fn) {
		if strings.HasPrefix(er.results[0], "errors.New(") && sameSet(er.guards, []string{"empty((*Cache).highestPrioritySpecDir($0)#0)"}) {
			ok = true
		}
	}
	c.R.Check("C16.3", what+"-no-dirs", ok, c.U.Pos(fn.Pos()), "without configured directories the operation fails instead of touching some other place")
}

// specDirsCleanOnly: whatever WithSpecDirs puts into the configured list is
// filepath.Clean(given element) - no other string is stored into it or appended to it.
func specDirsCleanOnly(c *Ctx, rule, key, why string) {
	ws := c.U.Func("cdi", "WithSpecDirs")
	if ws == nil || len(ws.AnonFuncs) != 1 {
		return
	}
	opt := ws.AnonFuncs[0]
	isCleanElem := func(v ssa.Value) bool {
		d := c.exprDesc(v)
		return strings.HasPrefix(d, "path/filepath.Clean(elem(") && strings.HasSuffix(d, "dirs))")
	}
	isStrings := func(t types.Type) bool {
		sl, ok := t.Underlying().(*types.Slice)
		if !ok {
			return false
		}
		b, ok := sl.Elem().Underlying().(*types.Basic)
		return ok && b.Kind() == types.String
	}
	n, bad := 0, ""
	ir.Instrs(opt, func(in ssa.Instruction) {
		switch x := in.(type) {
		case *ssa.Store:
			if ia, isIA := x.Addr.(*ssa.IndexAddr); isIA && isStrings(ia.X.Type()) {
				n++
				if !isCleanElem(x.Val) {
					bad += " " + c.pos(in) + ": stores " + c.exprDesc(x.Val) + ";"
				}
			}
		case *ssa.Call:
			if ir.BuiltinName(x) == "append" && isStrings(x.Type()) {
				for _, ev := range c.U.ContainerElems(x.Call.Args[1]) {
					n++
					if !isCleanElem(ev) {
						bad += " " + c.pos(in) + ": appends " + c.exprDesc(ev) + ";"
					}
				}
			}
		}
	})
	c.R.Check(rule, key, n > 0 && bad == "", c.U.Pos(opt.Pos()), fmt.Sprintf("WithSpecDirs configures exactly filepath.Clean(d) for each given d (%d storing site(s)): %s%s", n, why, bad))
}

// c16TempRemoved: a write whose final rename fails leaves nothing behind: from the error
// edge of renameIn every path to a return removes the temporary file - directly, or through
// a deferred clean-up whose condition (a captured error variable) is set on that path.
func c16TempRemoved(c *Ctx) {
	r := c.R
	w := c.U.Func("cdi", "(*Spec).write")
	if w == nil {
		return
	}
	rns := c.callsTo(w, false, "cdi", "renameIn")
	if len(rns) != 1 {
		return
	}
	rn := rns[0]
	var errEdges []ir.Edge
	for _, iff := range ir.Ifs(w) {
		if tv, nilSucc, ok := ir.NilTest(iff); ok && tv == rn.Value() {
			errEdges = append(errEdges, ir.Edge{From: iff.Block(), Succ: 1 - nilSucc})
		}
	}
	if len(errEdges) == 0 {
		r.Undecided("C16.5", "temp-removed-on-failed-rename", c.pos(rn), "the result of renameIn is not tested against nil in (*Spec).write")
		return
	}
	isRemove := func(in ssa.Instruction) bool {
		call, ok := in.(ssa.CallInstruction)
		if !ok {
			return false
		}
		f := call.Common().StaticCallee()
		return f != nil && f.String() == "os.Remove"
	}
	// deferred clean-up closures: os.Remove under nonnil(load of a captured cell)
	var condCells []*ssa.Alloc
	ir.Instrs(w, func(in ssa.Instruction) {
		d, ok := in.(*ssa.Defer)
		if !ok {
			return
		}
		mc, ok := d.Call.Value.(*ssa.MakeClosure)
		if !ok {
			return
		}
		cl := mc.Fn.(*ssa.Function)
		for _, call := range ir.Calls(cl) {
			if !isRemove(call.(ssa.Instruction)) {
				continue
			}
			for _, iff := range ir.Ifs(cl) {
				tv, nilSucc, ok := ir.NilTest(iff)
				if !ok {
					continue
				}
				ld, isLoad := tv.(*ssa.UnOp)
				if !isLoad {
					continue
				}
				fv, isFV := ld.X.(*ssa.FreeVar)
				if !isFV {
					continue
				}
				e := ir.Edge{From: iff.Block(), Succ: 1 - nilSucc}
				if !ir.OnlyViaEdge(cl, call.(ssa.Instruction), e) {
					continue
				}
				for i, f := range cl.FreeVars {
					if f == fv && i < len(mc.Bindings) {
						if a, isAlloc := mc.Bindings[i].(*ssa.Alloc); isAlloc {
							condCells = append(condCells, a)
						}
					}
				}
			}
		}
	})
	cleans := func(in ssa.Instruction) bool {
		if isRemove(in) {
			return true
		}
		if st, ok := in.(*ssa.Store); ok {
			for _, cell := range condCells {
				if st.Addr == ssa.Value(cell) && ir.DefiniteNil(st.Val) != ir.IsNil {
					return true // arms the deferred removal
				}
			}
		}
		return false
	}
	left := false
	for _, e := range errEdges {
		e := e
		if ir.CanReach(w, ir.PathQuery{FromEdge: &e, Stop: cleans}) {
			left = true
		}
	}
	r.Check("C16.5", "temp-removed-on-failed-rename", !left, c.pos(rn), "when the final rename fails every path to the return removes the temporary file (directly, or by setting the error variable a deferred clean-up tests): a failed write leaves nothing behind in the Spec directory")
}
