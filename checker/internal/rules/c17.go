package rules

import (
	"fmt"
	"strings"

	"golang.org/x/tools/go/ssa"

	"cdiverif/internal/ir"
)

// C17 — the builtin schema validator decides exactly what the shipped schema files say.

func init() {
	register(&Property{
		ID: "C17",
		Explanation: "The shipped schema files are source: they are parsed and checked structurally, and the Go code that feeds documents to the schema library is analysed on go/ssa. " +
			"Decided: (C17.1) schema-lint: every $ref of schema/*.json resolves to an embedded file (//go:embed pattern read from the source) and an existing JSON pointer; the file named by builtinSchemaFile is embedded; every keyword has the JSON kind draft-07 requires; patterns compile - the static counterpart of 'compilation fails and BuiltinSchema silently falls back to a schema that accepts everything'; unknown keywords (ignored by draft-07) are noted; " +
			"(C17.2) funnel: every exported Validate* method reaches (*Schema).validate, which returns nil exactly for a nil/none schema or a Valid() result and an error otherwise; nil receivers are safe; 'none' and '' load the no-op schema; " +
			"(C17.3) contents-reached: ValidateData decodes the document into the map handed to validateContents on every path (YAML and JSON branch alike), YAML input is re-marshalled to JSON and goes through the same validate, ValidateFile goes through ValidateData for every extension; validateContents checks spec-level and every device's annotations. " +
			"Not decided: gojsonschema's conformance to draft-07 and its verdict per document.",
		Assumptions: []string{"github.com/xeipuuv/gojsonschema implements draft-07 for the keywords the shipped schema uses", "sigs.k8s.io/yaml converts YAML to the same generic JSON value the JSON decoder yields"},
		Run:         runC17,
	})
}

func runC17(c *Ctx) {
	r := c.R
	r.Rule("C17.1", "schema-lint: shipped schema files are well-formed draft-07 with resolvable references", 5)
	r.Rule("C17.2", "funnel: all entry points decide through (*Schema).validate; nil and none schemas accept", 8)
	r.Rule("C17.3", "contents-reached: both encodings are decoded for, and reach, the annotation content check", 5)
	untypedAnnotationsCopied(c, "C17.3", "untyped-annotations-copied")

	// ---- C17.1
	sf := loadSchemaFiles(c, "C17.1")
	if sf != nil {
		for _, p := range sf.problems {
			r.Violation("C17.1", "file:"+p, "schema/", p)
		}
		bf := sf.builtinFile()
		_, ok := sf.docs[bf]
		r.Check("C17.1", "builtin-embedded", ok, "schema/schema.go", fmt.Sprintf("builtinSchemaFile %q names %q, which matches the embed pattern %q and parses", sf.builtin, bf, sf.pattern))
		nRefs := 0
		for name, doc := range sf.docs {
			var issues []schemaIssue
			before := nRefs
			sf.lint(name, doc, name+"#", &issues, &nRefs)
			bad := 0
			for _, is := range issues {
				if is.note {
					r.Note("C17.1", "note:"+is.where, "schema/"+name, is.text)
					continue
				}
				bad++
				r.Violation("C17.1", "lint:"+is.where, "schema/"+name, is.text+": gojsonschema refuses to compile such a schema and BuiltinSchema() silently falls back to a no-op schema that accepts every document")
			}
			if bad == 0 {
				r.OK("C17.1", "lint:"+name, "schema/"+name, fmt.Sprintf("%d $ref resolve, all keywords well-typed", nRefs-before))
			}
		}
		r.Analysed["C17.schema_refs"] = nRefs
		if nRefs < 15 {
			r.Undecided("C17.1", "refs", "schema/", fmt.Sprintf("only %d $ref found in the schema files (23 confirmed by hand)", nRefs))
		}
		// definitions used by schema.json exist (top-level properties present)
		if root, ok := sf.docs[bf].(map[string]interface{}); ok {
			props, _ := root["properties"].(map[string]interface{})
			for _, want := range []string{"cdiVersion", "kind", "devices"} {
				_, has := props[want]
				r.Check("C17.1", "root-property:"+want, has, "schema/"+bf, "the root schema constrains "+want)
			}
		}
	}

	// ---- C17.2
	validate := c.fn("C17.2", "schema", "(*Schema).validate")
	for _, name := range []string{"Validate", "ReadAndValidate", "ValidateReader", "ValidateData", "ValidateFile", "ValidateType"} {
		fn := c.fn("C17.2", "schema", "(*Schema)."+name)
		if fn == nil || validate == nil {
			continue
		}
		reach := c.U.Reach([]*ssa.Function{fn}, nil)
		r.Check("C17.2", "funnel:"+name, reach[validate], c.U.Pos(fn.Pos()), "(*Schema)."+name+" reaches (*Schema).validate")
	}
	if validate != nil {
		var okNil, okValid, okInvalid, okLoadErr bool
		for _, er := range c.exprReturns(validate) {
			g := strings.Join(er.guards, " & ")
			switch {
			case er.results[0] == "nil" && len(er.guards) == 0:
				okNil = true // reached via s == nil || s.schema == nil (disjunction)
			case er.results[0] == "nil" && strings.Contains(g, ".Valid(") && !strings.Contains(g, "!(*github.com"):
				okValid = strings.Contains(g, "$0 != nil") && strings.Contains(g, "$0.schema != nil") && strings.Contains(g, "#1 == nil")
			case er.results[0] == "nil":
				r.Violation("C17.2", "validate:accepts", c.pos(er.ret), "validate returns nil under ["+g+"]: only a nil/none schema or a Valid() result may accept")
			case strings.HasPrefix(er.results[0], "fmt.Errorf("):
				okLoadErr = strings.Contains(g, "#1 != nil")
			default:
				okInvalid = strings.Contains(g, "!(*github.com/xeipuuv/gojsonschema.Result).Valid(")
			}
		}
		// the unconditional nil return must be guarded by the nil tests (disjunction): no schema.Validate call precedes it
		r.Check("C17.2", "validate:verdict", okNil && okValid && okInvalid && okLoadErr, c.U.Pos(validate.Pos()), fmt.Sprintf("validate: nil for nil/none schema (%v), nil iff Valid() (%v), *Error for an invalid document (%v), error when the document cannot be loaded (%v)", okNil, okValid, okInvalid, okLoadErr))
		// the document validated is the parameter, against s.schema
		for _, call := range ir.Calls(validate) {
			if f := call.Common().StaticCallee(); f != nil && f.String() == "(*github.com/xeipuuv/gojsonschema.Schema).Validate" {
				a := call.Common().Args
				ok := normExpr(validate, []string{c.exprDesc(a[0])})[0] == "$0.schema" && a[1] == ssa.Value(validate.Params[1])
				r.Check("C17.2", "validate:args", ok, c.pos(call), "the compiled schema of this object validates the document given")
			}
		}
	}
	c17Loaders(c, "C17.2")
	if fn := c.fn("C17.2", "schema", "(*Schema).Validate"); fn != nil {
		ok := false
		for _, er := range c.exprReturns(fn) {
			if er.results[0] == "nil" && sameSet(er.guards, []string{"$0 == nil"}) {
				ok = true
			}
		}
		r.Check("C17.2", "nil-schema-accepts", ok, c.U.Pos(fn.Pos()), "a nil *Schema used as Spec validator accepts")
	}
	if fn := c.fn("C17.2", "schema", "Load"); fn != nil {
		var okBuiltin, okNone bool
		for _, er := range c.exprReturns(fn) {
			g := strings.Join(er.guards, " & ")
			if er.results[0] == "BuiltinSchema()" && strings.Contains(g, `== "builtin"`) {
				okBuiltin = true
			}
			if er.results[0] == "NopSchema()" {
				okNone = true
			}
		}
		r.Check("C17.2", "load-names", okBuiltin && okNone, c.U.Pos(fn.Pos()), "Load(\"builtin\") yields the builtin schema, Load(\"none\"/\"\") the no-op schema")
	}
	if fn := c.fn("C17.2", "schema", "BuiltinSchema"); fn != nil {
		// the loader reads builtinSchemaFile from the embedded FS
		ok := false
		for _, call := range ir.Calls(fn) {
			if f := call.Common().StaticCallee(); f != nil && strings.HasSuffix(f.String(), "gojsonschema.NewReferenceLoaderFileSystem") {
				if s, isStr := ir.ConstString(call.Common().Args[0]); isStr && sf != nil && s == sf.builtin {
					ok = strings.Contains(c.exprDesc(call.Common().Args[1]), "builtinFS")
				}
			}
		}
		r.Check("C17.2", "builtin-loader", ok, c.U.Pos(fn.Pos()), "BuiltinSchema compiles builtinSchemaFile from the embedded file system")
	}

	// the 'none' schema and a nil schema never reject: the content checks that follow the schema
	// verdict can only fail when there is a compiled schema
	if vcf := c.fn("C17.2", "schema", "(*Schema).validateContents"); vcf != nil {
		_, fails := c.returnsByOutcome(vcf)
		okNone := true
		var bad []string
		for _, fr := range fails {
			has := false
			for _, g := range fr.guards {
				if g == "nonnil($0.schema)" {
					has = true
				}
			}
			if !has {
				okNone = false
				bad = append(bad, c.pos(fr.ret)+" under "+strings.Join(fr.guards, " & "))
			}
		}
		r.Check("C17.2", "none-never-rejects", okNone && len(fails) > 0, c.U.Pos(vcf.Pos()), fmt.Sprintf("every failing return of validateContents (%d) is taken only with a compiled schema: the 'none' schema, like a nil one, accepts every parseable document%s", len(fails), ifMsg(strings.Join(bad, "; "))))
	}

	// ---- C17.3
	if vd := c.fn("C17.3", "schema", "(*Schema).ValidateData"); vd != nil {
		vc := c.callsTo(vd, false, "schema", "(*Schema).validateContents")
		vv := c.callsTo(vd, false, "schema", "(*Schema).validate")
		if len(vc) != 1 || len(vv) != 1 {
			r.Violation("C17.3", "ValidateData:calls", c.U.Pos(vd.Pos()), fmt.Sprintf("%d validate and %d validateContents calls in ValidateData (one each expected)", len(vv), len(vc)))
		} else {
			// the map given to validateContents: a local every path assigns from a decode of the input
			arg := vc[0].Common().Args[1]
			var cell *ssa.Alloc
			if ld, ok := arg.(*ssa.UnOp); ok {
				cell, _ = c.U.CellOf(ld.X).(*ssa.Alloc)
			}
			var loaderBytes ssa.Value
			if lc, ok := vv[0].Common().Args[1].(*ssa.Call); ok && len(lc.Call.Args) == 1 {
				loaderBytes = lc.Call.Args[0]
			} else if mi, ok := vv[0].Common().Args[1].(*ssa.MakeInterface); ok {
				if lc, ok := mi.X.(*ssa.Call); ok && len(lc.Call.Args) == 1 {
					loaderBytes = lc.Call.Args[0]
				}
			}
			decodes := func(in ssa.Instruction) bool {
				call, ok := in.(ssa.CallInstruction)
				if !ok || cell == nil {
					return false
				}
				f := call.Common().StaticCallee()
				if f == nil || !(strings.HasSuffix(f.String(), ".Unmarshal") || strings.HasSuffix(f.String(), ".UnmarshalStrict")) {
					return false
				}
				a := call.Common().Args
				if len(a) < 2 {
					return false
				}
				// what is decoded: the input bytes, or the bytes handed to the schema (the input
				// converted to JSON)
				if a[0] != ssa.Value(vd.Params[1]) && a[0] != loaderBytes {
					return false
				}
				// a JSON decoder reads the input only in its JSON form (what the schema is given);
				// applied to the raw input it fails - silently, the error is not looked at - for
				// every YAML document, whose contents would then go unchecked
				if strings.HasPrefix(f.String(), "encoding/json.") && a[0] != loaderBytes {
					return false
				}
				// &any, possibly boxed in an interface
				v := a[1]
				if mi, ok := v.(*ssa.MakeInterface); ok {
					v = mi.X
				}
				return v == ssa.Value(cell)
			}
			okDecode := cell != nil && ir.MustPassBefore(vd, vc[0].(ssa.Instruction), decodes)
			r.Check("C17.3", "contents-decoded", okDecode, c.pos(vc[0]), "on every path to the content check the document was decoded into the map that is checked (JSON documents too, not only YAML ones)")
			// schema verdict first, on the same bytes (re-marshalled for YAML)
			okOrder := ir.MustPassBefore(vd, vc[0].(ssa.Instruction), func(in ssa.Instruction) bool { return in == vv[0].(ssa.Instruction) })
			d := normExpr(vd, []string{c.exprDesc(vv[0].Common().Args[1])})[0]
			okDoc := d == "github.com/xeipuuv/gojsonschema.NewBytesLoader(phi($1|sigs.k8s.io/yaml.YAMLToJSON($1)#0))"
			why := ""
			if strings.Contains(d, "encoding/json.Marshal(") {
				why = ": the YAML document reaches the schema as the re-marshalled form of a value decoded into interface{}, i.e. with every number rounded to float64 (major: 9223372036854775807 is refused as YAML and accepted as JSON)"
			}
			r.Check("C17.3", "same-verdict-both-encodings", okOrder && okDoc, c.pos(vv[0]), "JSON bytes are validated as they are, YAML bytes after a digit-preserving conversion to JSON text (yaml.YAMLToJSON), by the same validate call (found "+d+")"+why)
			msg := c.errflow(vd, vv[0])
			r.Check("C17.3", "schema-error-returned", msg == "", c.pos(vv[0]), "a schema violation is returned"+ifMsg(msg))
			// result of the content check is the result
			okRes := false
			for _, ret := range ir.NormalReturns(vd) {
				if ret.Results[0] == vc[0].Value() {
					okRes = true
				}
			}
			r.Check("C17.3", "contents-verdict-returned", okRes, c.pos(vc[0]), "the verdict of the content check is ValidateData's result")
		}
	}
	if vf := c.fn("C17.3", "schema", "(*Schema).ValidateFile"); vf != nil {
		okAll := true
		n := 0
		for _, er := range c.exprReturns(vf) {
			if strings.HasPrefix(er.results[0], "os.ReadFile(") {
				continue // read error
			}
			n++
			if er.results[0] != "(*Schema).ValidateData($0,os.ReadFile($1)#0)" {
				okAll = false
			}
			for _, g := range er.guards {
				if strings.Contains(g, "filepath.Ext") {
					okAll = false
				}
			}
		}
		r.Check("C17.3", "file-through-data", okAll && n == 1, c.U.Pos(vf.Pos()), "ValidateFile validates every file, whatever its extension, through ValidateData (same checks as for bytes)")
	}
	if vcf := c.fn("C17.3", "schema", "(*Schema).validateContents"); vcf != nil {
		calls := c.callsTo(vcf, false, "validation", "ValidateSpecAnnotations")
		var specLevel, devLevel bool
		for _, call := range calls {
			d := normExpr(vcf, []string{c.exprDesc(call.Common().Args[1])})[0]
			if d == "(schemaContents).getAnnotations($1)#0" {
				specLevel = true
			}
			if d == "(schemaContents).getAnnotations(elem((schemaContents).getDevices($1)#0))#0" {
				devLevel = true
			}
			msg := c.errflow(vcf, call)
			r.Check("C17.3", "contents-errflow:"+d, msg == "", c.pos(call), "annotation error returned"+ifMsg(msg))
		}
		r.Check("C17.3", "contents-scope", specLevel && devLevel, c.U.Pos(vcf.Pos()), "the content check covers the Spec's annotations and every device's annotations")
	}
}

// c17Loaders: what each entry point hands to validate() is the caller's document itself -
// an in-memory object as a Go loader of that object (not of a copy decoded into generic
// maps, where every number is a float64), and validate's verdict is returned as it is.
func c17Loaders(c *Ctx, rule string) {
	r := c.R
	if vt := c.fn(rule, "schema", "(*Schema).ValidateType"); vt != nil {
		ok := false
		var found []string
		for _, call := range ir.Calls(vt) {
			if f := call.Common().StaticCallee(); f != nil && f.String() == "github.com/xeipuuv/gojsonschema.NewGoLoader" {
				d := normExpr(vt, []string{c.exprDesc(call.Common().Args[0])})[0]
				found = append(found, d)
				ok = d == "$1"
			}
		}
		r.Check(rule, "ValidateType:loader", ok && len(found) == 1, c.U.Pos(vt.Pos()), fmt.Sprintf("ValidateType validates the object it was given (Go loader of %v; a copy decoded into map[string]interface{} would round every integer to float64)", found))
	}
	// ValidateData hands the schema the document as JSON TEXT (numbers keep all their digits):
	// a Go loader of the decoded map would show the schema float64 values
	if vd := c.U.Func("schema", "(*Schema).ValidateData"); vd != nil {
		nBytes, nOther := 0, ""
		for _, call := range c.callsTo(vd, false, "schema", "(*Schema).validate") {
			v := call.Common().Args[1]
			if mi, ok := v.(*ssa.MakeInterface); ok {
				v = mi.X
			}
			lc, ok := v.(*ssa.Call)
			if ok && lc.Call.StaticCallee() != nil && lc.Call.StaticCallee().String() == "github.com/xeipuuv/gojsonschema.NewBytesLoader" {
				nBytes++
			} else {
				nOther += " " + c.exprDesc(call.Common().Args[1])
			}
		}
		r.Check(rule, "ValidateData:loader", nBytes >= 1 && nOther == "", c.U.Pos(vd.Pos()), "ValidateData validates the JSON text of the document (bytes loader), not a decoded copy whose integers went through float64 (other loaders:"+nOther+")")
	}
	for _, name := range []string{"ValidateData", "ValidateType"} {
		fn := c.U.Func("schema", "(*Schema)."+name)
		if fn == nil {
			continue
		}
		for _, call := range c.callsTo(fn, false, "schema", "(*Schema).validate") {
			// on the branch where validate reported an error, that very error is returned
			okSame := false
			v := call.Value()
			for _, iff := range ir.Ifs(fn) {
				tv, nilSucc, isNil := ir.NilTest(iff)
				if !isNil || tv != v {
					continue
				}
				bad := ir.Edge{From: iff.Block(), Succ: 1 - nilSucc}
				okSame = true
				n := 0
				ir.EnumPaths(fn, &bad, false, func(p ir.BlockPath, end ssa.Instruction) {
					ret, isRet := end.(*ssa.Return)
					if !isRet {
						return
					}
					n++
					if ir.ResolveOnPath(ir.ReturnResult(ret, 0), p) != v {
						okSame = false
					}
				})
				if n == 0 {
					okSame = false
				}
			}
			if !okSame {
				// `return s.validate(l)`
				for _, ret := range ir.NormalReturns(fn) {
					if ir.ReturnResult(ret, 0) == v {
						okSame = true
					}
				}
			}
			r.Check(rule, "verdict-unchanged:"+name, okSame, c.pos(call), name+" returns the schema verdict of validate() unchanged (not filtered, not merged with other findings)")
		}
	}
}
