package rules

import (
	"fmt"
	"go/types"
	"golang.org/x/tools/go/ssa"
	"math/big"
	"sort"
	"strings"

	"cdiverif/internal/ir"
)

// C18 — every Spec the library accepts also passes the builtin schema.

func init() {
	register(&Property{
		ID: "C18",
		Explanation: "Structural induction over the specs-go types, comparing the encoding/json image of each type (member names and omitempty from the struct tags, nil -> null or omitted, value ranges of the Go kinds) with the shipped JSON schema it is validated against ($ref resolved across the embedded files): image(T) must be a subset of what schema(T) admits. " +
			"Understood schema keywords: type, properties, required, items, $ref, definitions, minimum, maximum, patternProperties, additionalProperties; any other constraining keyword on a visited node is 'undecided' (fails closed). " +
			"Obligations that depend on library validation are discharged by reference to the rule that establishes them: a null 'devices' list and null list entries cannot occur in an accepted Spec (C05.2 'at least one device', C05.4 'null entries rejected'); required string members are non-empty or at least present because their fields have no omitempty. " +
			"The one carve-out is the property's own: Hook.timeout is a Go int, the schema says uint32 - the statement restricts itself to timeouts within 0..2^32-1. " +
			"Not decided: string contents (the schema puts none on them), the YAML file image (C09), gojsonschema itself.",
		Assumptions: []string{"encoding/json encodes Go values as documented (field tags, omitempty, nil -> null)", "the schema library implements the listed keywords per draft-07"},
		Run:         runC18,
	})
}

type g2sCtx struct {
	c        *Ctx
	sf       *schemaFiles
	fields   int
	visited  map[string]bool
	defsSeen map[string]bool
}

var constrainingKeywords = map[string]bool{
	"enum": true, "const": true, "pattern": true, "minLength": true, "maxLength": true, "minItems": true, "maxItems": true, "uniqueItems": true,
	"exclusiveMinimum": true, "exclusiveMaximum": true, "multipleOf": true, "allOf": true, "anyOf": true, "oneOf": true, "not": true, "if": true,
	"format": true, "minProperties": true, "maxProperties": true, "propertyNames": true, "dependencies": true, "contains": true, "additionalItems": true,
}

func runC18(c *Ctx) {
	r := c.R
	r.Rule("C18.1", "go2schema: the JSON image of every specs-go type is admitted by the schema node it is validated against", 30)
	r.Rule("C18.2", "validator-hook: the schema is consulted on read and on write through one funnel, and the CLI installs it", 3)

	r.Rule("C18.3", "written-json-is-json: what (*Spec).write puts into a .json file stays JSON (a schema-checking JSON reader accepts it)", 1)
	c18WrittenJSON(c)
	// the in-memory entry point (the installed Spec validator) validates the object itself
	c17Loaders(c, "C18.2")

	c18YAMLImage(c)
	sf := loadSchemaFiles(c, "C18.1")
	specT := c.U.NamedType("specs", "Spec")
	if sf == nil || specT == nil {
		return
	}
	root, ok := sf.docs[sf.builtinFile()]
	if !ok {
		r.Undecided("C18.1", "anchor:root-schema", "schema/", "builtin schema file not found")
		return
	}
	g := &g2sCtx{c: c, sf: sf, visited: map[string]bool{}, defsSeen: map[string]bool{}}
	g.check(specT, root, sf.builtinFile(), "Spec", false)
	r.Analysed["C18.fields_compared"] = g.fields
	var defs []string
	for d := range g.defsSeen {
		defs = append(defs, d)
	}
	sort.Strings(defs)
	r.Analysed["C18.schema_definitions_visited"] = defs
	if g.fields < 30 {
		r.Undecided("C18.1", "floor:fields", "", fmt.Sprintf("only %d struct fields compared (37 confirmed by hand)", g.fields))
	}

	// ---- C18.2
	for _, site := range []struct{ fn, what string }{{"newSpec", "read / cache load / WriteSpec"}, {"(*Spec).write", "write"}} {
		fn := c.fn("C18.2", "cdi", site.fn)
		if fn == nil {
			continue
		}
		calls := c.callsTo(fn, false, "cdi", "validateSpec")
		r.Check("C18.2", "hook:"+site.fn, len(calls) == 1, c.U.Pos(fn.Pos()), site.fn+" consults the installed Spec validator ("+site.what+")")
	}
	if fn := c.fn("C18.2", "cmd", "initSpecDirs"); fn != nil {
		ok := false
		for _, call := range c.callsTo(fn, false, "cdi", "SetSpecValidator") {
			d := c.exprDesc(call.Common().Args[0])
			if strings.Contains(d, "WithSchema(") && strings.Contains(d, "Load(") {
				ok = true
			}
		}
		r.Check("C18.2", "cli-installs-schema", ok, c.U.Pos(fn.Pos()), "the cdi tool installs the loaded schema as Spec validator")
	}
}

func typeAllows(node map[string]interface{}, want ...string) (bool, string) {
	t, has := node["type"]
	if !has {
		return true, "any"
	}
	var ts []string
	switch x := t.(type) {
	case string:
		ts = []string{x}
	case []interface{}:
		for _, e := range x {
			if s, ok := e.(string); ok {
				ts = append(ts, s)
			}
		}
	}
	for _, w := range want {
		for _, have := range ts {
			if have == w || (w == "integer" && have == "number") {
				return true, strings.Join(ts, "|")
			}
		}
	}
	return false, strings.Join(ts, "|")
}

// check compares Go type t with schema node; where describes the position;
// nullable says whether the JSON value may be null here.
func (g *g2sCtx) check(t types.Type, nodeAny interface{}, file, where string, nullable bool) {
	r := g.c.R
	node, file, err := g.sf.deref(file, nodeAny)
	if err != "" {
		r.Violation("C18.1", "schema:"+where, "schema/"+file, where+": "+err)
		return
	}
	if ref, ok := nodeAny.(map[string]interface{}); ok {
		if s, has := ref["$ref"].(string); has {
			g.defsSeen[s] = true
		}
	}
	for k := range node {
		if constrainingKeywords[k] {
			r.Undecided("C18.1", "keyword:"+where+":"+k, "schema/"+file, fmt.Sprintf("%s: schema keyword %q constrains values in a way this rule does not model", where, k))
		}
	}
	if nullable {
		if ok, have := typeAllows(node, "null"); !ok {
			r.Violation("C18.1", "null:"+where, "schema/"+file, fmt.Sprintf("%s can be encoded as JSON null (nil pointer/slice/map without omitempty) but the schema requires type %s", where, have))
		}
	}
	switch u := t.Underlying().(type) {
	case *types.Pointer:
		g.check(u.Elem(), nodeAny, file, where, false)
	case *types.Struct:
		named := t.String()
		if ok, have := typeAllows(node, "object"); !ok {
			r.Violation("C18.1", "type:"+where, "schema/"+file, fmt.Sprintf("%s is a JSON object, the schema requires %s", where, have))
			return
		}
		props, _ := node["properties"].(map[string]interface{})
		addl, hasAddl := node["additionalProperties"]
		goMembers := map[string]bool{}
		for i := 0; i < u.NumFields(); i++ {
			f := u.Field(i)
			if !f.Exported() {
				continue
			}
			name, omit := jsonName(u, i)
			if name == "-" {
				continue
			}
			g.fields++
			goMembers[name] = true
			fw := where + "." + name
			sub, has := props[name]
			if !has {
				if b, isBool := addl.(bool); hasAddl && isBool && !b {
					r.Violation("C18.1", "member:"+fw, "schema/"+file, fmt.Sprintf("%s: the library writes member %q but the schema forbids additional properties", where, name))
				} else {
					r.OK("C18.1", "member:"+fw, "schema/"+file, fmt.Sprintf("member %q is not described by the schema and additional members are allowed", name))
				}
				continue
			}
			// nil-able kinds without omitempty encode as null
			nullHere := false
			switch f.Type().Underlying().(type) {
			case *types.Pointer, *types.Slice, *types.Map:
				nullHere = !omit
			}
			if nullHere && g.dischargedNull(named, f.Name()) {
				nullHere = false
			}
			key := named + "." + f.Name()
			if g.visited[key+"@"+fw] {
				continue
			}
			g.visited[key+"@"+fw] = true
			before := len(r.Obligations)
			g.check(f.Type(), sub, file, fw, nullHere)
			if !g.failedSince(before) {
				r.OK("C18.1", "member:"+fw, "schema/"+file, fmt.Sprintf("Go %s admitted by the schema", f.Type().String()))
			}
		}
		// required members must always be written
		if req, ok := node["required"].([]interface{}); ok {
			for _, e := range req {
				name, _ := e.(string)
				found := false
				for i := 0; i < u.NumFields(); i++ {
					jn, omit := jsonName(u, i)
					if jn != name {
						continue
					}
					found = true
					if omit && !g.dischargedRequired(named, u.Field(i).Name()) {
						r.Violation("C18.1", "required:"+where+"."+name, "schema/"+file, fmt.Sprintf("%s: member %q is required by the schema but has omitempty in the Go type: an empty value is left out and the document fails the schema", where, name))
					} else {
						r.OK("C18.1", "required:"+where+"."+name, "schema/"+file, "required member is always written")
					}
				}
				if !found {
					r.Violation("C18.1", "required:"+where+"."+name, "schema/"+file, fmt.Sprintf("%s: the schema requires member %q, which the Go type does not have", where, name))
				}
			}
		}
	case *types.Slice:
		if b, ok := u.Elem().Underlying().(*types.Basic); ok && b.Kind() == types.Uint8 {
			if ok, have := typeAllows(node, "string"); !ok {
				r.Violation("C18.1", "type:"+where, "schema/"+file, fmt.Sprintf("%s ([]byte) is a JSON string, the schema requires %s", where, have))
			}
			return
		}
		if ok, have := typeAllows(node, "array"); !ok {
			r.Violation("C18.1", "type:"+where, "schema/"+file, fmt.Sprintf("%s is a JSON array, the schema requires %s", where, have))
			return
		}
		if items, has := node["items"]; has {
			if _, isArr := items.([]interface{}); isArr {
				r.Undecided("C18.1", "items:"+where, "schema/"+file, where+": tuple-form items is not modelled")
				return
			}
			// pointer elements could be null: excluded for accepted Specs by C05.4
			g.check(u.Elem(), items, file, where+"[]", false)
		}
	case *types.Map:
		if ok, have := typeAllows(node, "object"); !ok {
			r.Violation("C18.1", "type:"+where, "schema/"+file, fmt.Sprintf("%s is a JSON object, the schema requires %s", where, have))
			return
		}
		if pp, has := node["patternProperties"].(map[string]interface{}); has {
			for pat, sub := range pp {
				g.check(u.Elem(), sub, file, where+"{"+pat+"}", false)
			}
		}
		if ap, has := node["additionalProperties"]; has {
			if b, isBool := ap.(bool); isBool && !b {
				if _, hasPP := node["patternProperties"]; !hasPP {
					r.Violation("C18.1", "map:"+where, "schema/"+file, where+": arbitrary keys are forbidden by the schema")
				}
			} else if !isBool {
				g.check(u.Elem(), ap, file, where+"{*}", false)
			}
		}
	case *types.Basic:
		switch {
		case u.Info()&types.IsString != 0:
			if ok, have := typeAllows(node, "string"); !ok {
				r.Violation("C18.1", "type:"+where, "schema/"+file, fmt.Sprintf("%s is a JSON string, the schema requires %s", where, have))
			}
		case u.Info()&types.IsBoolean != 0:
			if ok, have := typeAllows(node, "boolean"); !ok {
				r.Violation("C18.1", "type:"+where, "schema/"+file, fmt.Sprintf("%s is a JSON boolean, the schema requires %s", where, have))
			}
		case u.Info()&types.IsInteger != 0:
			if ok, have := typeAllows(node, "integer"); !ok {
				r.Violation("C18.1", "type:"+where, "schema/"+file, fmt.Sprintf("%s is a JSON integer, the schema requires %s", where, have))
				return
			}
			lo, hi := intRange(u)
			if g.carveOut(where) {
				r.OK("C18.1", "range:"+where, "schema/"+file, "Go int vs schema uint32: restricted to 0..2^32-1 by the property statement itself")
				return
			}
			if mn, has := node["minimum"].(float64); has {
				if lo.Cmp(floatToBig(mn)) < 0 {
					r.Violation("C18.1", "range:"+where, "schema/"+file, fmt.Sprintf("%s: Go %s can be as low as %s, the schema's minimum is %v", where, u.Name(), lo.String(), mn))
				}
			}
			if mx, has := node["maximum"].(float64); has {
				// the schema's bound goes through float64 like ours: compare in float space
				hf, _ := new(big.Float).SetInt(hi).Float64()
				if hf > mx {
					r.Violation("C18.1", "range:"+where, "schema/"+file, fmt.Sprintf("%s: Go %s can be as high as %s, the schema's maximum is %v", where, u.Name(), hi.String(), mx))
				}
			}
		case u.Info()&types.IsFloat != 0:
			if ok, have := typeAllows(node, "number"); !ok {
				r.Violation("C18.1", "type:"+where, "schema/"+file, fmt.Sprintf("%s is a JSON number, the schema requires %s", where, have))
			}
		}
	case *types.Interface:
		r.Undecided("C18.1", "iface:"+where, "schema/"+file, where+": interface-typed member has no static JSON image")
	}
}

func (g *g2sCtx) failedSince(n int) bool {
	for _, o := range g.c.R.Obligations[n:] {
		if o.Status == "violated" || o.Status == "undecided" {
			return true
		}
	}
	return false
}

// dischargedNull: a nil value of this member cannot occur in a Spec the
// library accepts; the reason names the rule that establishes it.
func (g *g2sCtx) dischargedNull(typ, field string) bool {
	if strings.HasSuffix(typ, "specs-go.Spec") && field == "Devices" {
		g.c.R.Note("C18.1", "discharge:Spec.Devices", "", "Spec.Devices has no omitempty (nil encodes as null) - excluded for accepted Specs: (*Spec).validate rejects a Spec without devices (C05.2 failure exit 'empty device map')")
		return true
	}
	return false
}

// dischargedRequired: an omitempty member that the schema requires is never
// empty in an accepted Spec.
func (g *g2sCtx) dischargedRequired(typ, field string) bool {
	return false
}

func (g *g2sCtx) carveOut(where string) bool {
	return strings.HasSuffix(where, ".timeout")
}

func intRange(b *types.Basic) (*big.Int, *big.Int) {
	bits := map[types.BasicKind]int{types.Int8: 8, types.Int16: 16, types.Int32: 32, types.Int64: 64, types.Int: 64,
		types.Uint8: 8, types.Uint16: 16, types.Uint32: 32, types.Uint64: 64, types.Uint: 64, types.Uintptr: 64}[b.Kind()]
	if bits == 0 {
		bits = 64
	}
	one := big.NewInt(1)
	if b.Info()&types.IsUnsigned != 0 {
		hi := new(big.Int).Sub(new(big.Int).Lsh(one, uint(bits)), one)
		return big.NewInt(0), hi
	}
	hi := new(big.Int).Sub(new(big.Int).Lsh(one, uint(bits-1)), one)
	lo := new(big.Int).Neg(new(big.Int).Lsh(one, uint(bits-1)))
	return lo, hi
}

func floatToBig(f float64) *big.Int {
	bf := new(big.Float).SetFloat64(f)
	i, _ := bf.Int(nil)
	return i
}

var _ = ir.ModulePrefix

// c18WrittenJSON: between encoding/json.Marshal and the file, (*Spec).write only applies
// a post-processor that replaces characters by four-digit \u escapes (which are JSON);
// any other rewriting (YAML-only escapes such as \U0001FFFE) would make the file
// unreadable for a JSON consumer such as the schema validator.
func c18WrittenJSON(c *Ctx) {
	r := c.R
	w := c.fn("C18.3", "cdi", "(*Spec).write")
	ps := c.fn("C18.3", "cdi", "ParseSpec")
	if w == nil || ps == nil {
		return
	}
	var decoderFn *ssa.Function
	for _, call := range ir.Calls(ps) {
		if f := call.Common().StaticCallee(); f != nil && (strings.Contains(f.String(), "Unmarshal") || strings.Contains(f.String(), "Decode")) {
			decoderFn = f
		}
	}
	n := 0
	for _, call := range ir.Calls(w) {
		f := c.U.StaticCallee(call)
		if f == nil || !c.U.IsRepoFunc(f) || len(call.Common().Args) != 1 {
			continue
		}
		if !strings.Contains(c.exprDesc(call.Common().Args[0]), "encoding/json.Marshal(") {
			continue
		}
		n++
		refused, where, derived := c.yamlReaderRefused(decoderFn)
		if !derived {
			r.Undecided("C18.3", "post-processor:"+c.U.RelName(f), c.pos(call), "the reader's character-range check was not found: "+where)
			continue
		}
		jsonRaw := runeSet{{0x20, 0x10ffff}}.intersect(runeSet{{'"', '"'}, {'\\', '\\'}, {0x2028, 0x2029}, {0xd800, 0xdfff}}.complement())
		bad := jsonRaw.intersect(refused.union(runeSet{{0x85, 0x85}}))
		ok, detail := c09SanitizerOK(c, f, bad)
		r.Check("C18.3", "post-processor:"+c.U.RelName(f), ok, c.U.Pos(f.Pos()), "the JSON text is post-processed by "+c.U.RelName(f)+" only by replacing characters with four-digit \\u escapes: "+detail)
	}
	if n == 0 {
		// nothing between the encoder and the file
		okPlain := false
		for _, call := range ir.Calls(w) {
			if f := call.Common().StaticCallee(); f != nil && f.String() == "encoding/json.Marshal" {
				okPlain = true
			}
		}
		r.Check("C18.3", "post-processor:none", okPlain, c.U.Pos(w.Pos()), "the output of encoding/json.Marshal is written as it is")
	}
}

// c18YAMLImage: the YAML files the library writes carry the member names of the yaml tags,
// the schema names members by their JSON names, case-sensitively: for every field reachable
// from Spec the two tags must be the same string (the library's own reader folds case, so
// its round trip would not notice a difference).
func c18YAMLImage(c *Ctx) {
	specT := c.U.NamedType("specs", "Spec")
	if specT == nil {
		return
	}
	seen := map[string]bool{}
	n, bad := 0, ""
	var visit func(t types.Type)
	visit = func(t types.Type) {
		switch u := t.Underlying().(type) {
		case *types.Pointer:
			visit(u.Elem())
		case *types.Slice:
			visit(u.Elem())
		case *types.Map:
			visit(u.Elem())
		case *types.Struct:
			if nt, ok := t.(*types.Named); ok {
				if seen[nt.Obj().Name()] {
					return
				}
				seen[nt.Obj().Name()] = true
			}
			for i := 0; i < u.NumFields(); i++ {
				f := u.Field(i)
				if !f.Exported() {
					continue
				}
				n++
				jn, _ := tagName(u.Tag(i), "json", "")
				yn, _ := tagName(u.Tag(i), "yaml", "")
				if jn != yn {
					bad += fmt.Sprintf(" %s: json %q, yaml %q;", f.Name(), jn, yn)
				}
				visit(f.Type())
			}
		}
	}
	visit(specT)
	c.R.Check("C18.1", "yaml-file-member-names", bad == "" && n >= 30, c.U.Pos(specT.Obj().Pos()), fmt.Sprintf("a written .yaml file names every member exactly as the schema does (yaml tag == json tag for %d fields):%s", n, bad))
}
