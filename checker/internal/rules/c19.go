package rules

import (
	"fmt"
	"sort"
	"strings"

	"golang.org/x/tools/go/ssa"

	"cdiverif/internal/ir"
)

// C19 — the cdi and validate commands report what the library computes.

func init() {
	register(&Property{
		ID: "C19",
		Explanation: "Origin and control-dependence analysis of the two command packages (cmd/cdi/cmd in the main universe, cmd/validate loaded as its own module) on go/ssa: " +
			"(C19.1) the variable bound to --spec-dirs flows through cdi.WithSpecDirs into cdi.Configure (the default cache) inside the function registered with cobra.OnInitialize, and every *cdi.Cache the subcommands query is that default cache - any other cache source (cdi.NewCache without the option) whose result is queried is a violation; " +
			"(C19.2) exit status: 'cdi validate' calls os.Exit(1) exactly under 'the cache reports errors' (len(GetErrors()) != 0) and not otherwise; cmd/validate exits with a code that is 1 exactly when ValidateData/ValidateFile returned an error for some document; " +
			"(C19.3) 'cdi inject' prints the *oci.Spec it handed to InjectDevices, and only when injection returned no error; the devices handed over are the matches of the patterns among ListDevices(); " +
			"(C19.4) each listing helper calls the library query it is named after on the default cache. " +
			"Not decided: output formatting, cobra's flag parsing, what the library computes (C01...).",
		Assumptions: []string{"cobra runs OnInitialize functions after flag parsing and before the subcommand", "pflag stores the --spec-dirs values into the bound variable"},
		Run:         runC19,
	})
}

func runC19(c *Ctx) {
	r := c.R
	r.Rule("C19.1", "flag-reaches-cache: --spec-dirs configures the cache every subcommand queries", 8)
	r.Rule("C19.2", "exit-status: non-zero exactly on library-reported errors", 3)
	r.Rule("C19.3", "inject-prints-result: the spec printed is the spec injected into, only on success", 2)
	r.Rule("C19.4", "listers: each helper uses the matching library query", 5)

	cmdFns := c.U.RepoFuncs("cmd")
	if len(cmdFns) < 20 {
		r.Undecided("C19.1", "anchor:cmd-package", "", fmt.Sprintf("only %d functions found in cmd/cdi/cmd", len(cmdFns)))
		return
	}
	// (a) the flag variable
	var flagVar *ssa.Global
	for _, fn := range cmdFns {
		for _, call := range ir.Calls(fn) {
			f := call.Common().StaticCallee()
			if f == nil || !strings.Contains(f.String(), "pflag.FlagSet).StringSliceVarP") {
				continue
			}
			if name, ok := ir.ConstString(call.Common().Args[2]); ok && name == "spec-dirs" {
				if g, ok := call.Common().Args[1].(*ssa.Global); ok {
					flagVar = g
				}
			}
		}
	}
	if flagVar == nil {
		r.Violation("C19.1", "flag-binding", "", "no --spec-dirs flag bound to a package-level variable in cmd/cdi/cmd")
		return
	}
	r.OK("C19.1", "flag-binding", c.U.Pos(flagVar.Pos()), "--spec-dirs is bound to package variable "+flagVar.Name())
	// (b) WithSpecDirs(flagVar...) -> cdi.Configure
	configured := false
	var cfgFn *ssa.Function
	for _, fn := range cmdFns {
		for _, call := range c.callsTo(fn, false, "cdi", "WithSpecDirs") {
			if c.valueDesc(call.Common().Args[0]) != "global:"+flagVar.Name() {
				continue
			}
			opt := call.Value()
			// where does the option go
			for _, c2 := range ir.Calls(fn) {
				if !c.U.CalleeIs(c2, "cdi", "Configure") && !c.U.CalleeIs(c2, "cdi", "(*Cache).Configure") {
					continue
				}
				args := c2.Common().Args
				elems := c.U.ContainerElems(args[len(args)-1])
				for _, ev := range elems {
					if ev == opt {
						// nothing but the directories is configured: any other option (auto-refresh off, ...)
						// would make the tool's cache differ from the library's default one
						var others []string
						for _, e2 := range elems {
							if e2 != opt {
								others = append(others, c.exprDesc(e2))
							}
						}
						r.Check("C19.1", "only-the-directories-configured", len(others) == 0, c.pos(c2), fmt.Sprintf("the command line configures the default cache with the directories and nothing else (other options: %v)", others))
						if c.U.CalleeIs(c2, "cdi", "Configure") {
							configured = true
							cfgFn = fn
						} else if c.valueDescRaw(args[0]) == "GetDefaultCache#0()" {
							configured = true
							cfgFn = fn
						}
					}
				}
			}
		}
	}
	r.Check("C19.1", "option-configures-default-cache", configured, "", "cdi.WithSpecDirs("+flagVar.Name()+"...) is given to cdi.Configure: the default cache scans the directories of the command line")
	// (c) registered with cobra.OnInitialize
	registered := false
	if cfgFn != nil {
		for _, fn := range cmdFns {
			for _, call := range ir.Calls(fn) {
				f := call.Common().StaticCallee()
				if f == nil || f.String() != "github.com/spf13/cobra.OnInitialize" {
					continue
				}
				for _, ev := range c.U.ContainerElems(call.Common().Args[0]) {
					for _, fv := range c.U.FuncValues(ev) {
						if fv == cfgFn {
							registered = true
						}
					}
				}
			}
		}
		r.Check("C19.1", "on-initialize", registered, c.U.Pos(cfgFn.Pos()), c.U.RelName(cfgFn)+" runs through cobra.OnInitialize (after flag parsing, before any subcommand)")
		// the schema chosen on the command line validates what the configured cache loads:
		// Configure scans at once, so the validator is installed before it in the same
		// initialiser (another OnInitialize hook runs in the order the package's files
		// happen to be initialised in)
		for _, call := range c.callsTo(cfgFn, false, "cdi", "Configure") {
			before := ir.MustPassBefore(cfgFn, call.(ssa.Instruction), func(in ssa.Instruction) bool {
				c2, ok := in.(ssa.CallInstruction)
				return ok && c.U.CalleeIs(c2, "cdi", "SetSpecValidator")
			})
			r.Check("C19.1", "validator-before-scan", before, c.pos(call), "cdi.SetSpecValidator(<the --schema choice>) is called in "+c.U.RelName(cfgFn)+" on every path before cdi.Configure, whose scan is what all subcommands report")
		}
		// unconditional except for 'no directories given'
		for _, call := range c.callsTo(cfgFn, false, "cdi", "Configure") {
			gs := c.guardsOf(cfgFn, call.(ssa.Instruction))
			var extra []string
			for _, g := range gs {
				if g == "nonempty(global:"+flagVar.Name()+")" || strings.HasPrefix(g, "nil(err:schema.Load") {
					continue
				}
				extra = append(extra, g)
			}
			r.Check("C19.1", "configure-unconditional", len(extra) == 0, c.pos(call), fmt.Sprintf("the default cache is configured whenever directories were given (extra conditions %v)", extra))
		}
	}
	// exit status of the initialisation: non-zero exactly for schema/configuration
	// failures and when the configured cache reports errors (GetErrors(), which
	// includes directory errors)
	if cfgFn != nil {
		sawCacheErrors := false
		for _, call := range ir.Calls(cfgFn) {
			f := call.Common().StaticCallee()
			if f == nil || f.String() != "os.Exit" {
				continue
			}
			gs := c.exprGuardsOf(cfgFn, call.(ssa.Instruction))
			kind := ""
			for _, g := range gs {
				switch {
				case strings.HasPrefix(g, "len((*Cache).GetErrors(GetDefaultCache())) > 0") || strings.HasPrefix(g, "len((*Cache).GetErrors(GetDefaultCache())) != 0") || strings.HasPrefix(g, "len(GetErrors()) > 0") || strings.HasPrefix(g, "len(GetErrors()) != 0"):
					kind = "cache-errors"
				case strings.HasPrefix(g, "Load(") && strings.HasSuffix(g, "#1 != nil"):
					if kind == "" {
						kind = "schema-load"
					}
				case strings.HasPrefix(g, "Configure(") && strings.HasSuffix(g, "!= nil"):
					if kind == "" {
						kind = "configure"
					}
				}
			}
			if kind == "cache-errors" {
				sawCacheErrors = true
			}
			r.Check("C19.2", "init-exit:"+kind, kind != "", c.pos(call), fmt.Sprintf("an exit in %s is due to a schema/configuration failure or to the cache's error report GetErrors() (conditions %v)", c.U.RelName(cfgFn), gs))
		}
		r.Check("C19.2", "init-exit-on-cache-errors", sawCacheErrors, c.U.Pos(cfgFn.Pos()), c.U.RelName(cfgFn)+" exits non-zero when the configured cache reports errors (len(GetErrors()) > 0: file AND directory errors)")
	}
	// (d) every cache source
	nSrc := 0
	for _, fn := range append(append([]*ssa.Function{}, cmdFns...), c.U.RepoFuncs("cdimain")...) {
		for _, call := range ir.Calls(fn) {
			isDefault := c.U.CalleeIs(call, "cdi", "GetDefaultCache")
			isNew := c.U.CalleeIs(call, "cdi", "NewCache")
			if !isDefault && !isNew {
				continue
			}
			nSrc++
			key := fmt.Sprintf("cache-source:%s:%s", c.U.RelName(fn), c.calleeName(call))
			if isDefault {
				r.OK("C19.1", key, c.pos(call), "queries the default cache (configured from --spec-dirs)")
				continue
			}
			// NewCache: must carry the spec-dirs option, or its result must not be queried
			hasOpt := false
			args := call.Common().Args
			for _, ev := range c.U.ContainerElems(args[len(args)-1]) {
				if oc, ok := ev.(*ssa.Call); ok && c.U.CalleeIs(oc, "cdi", "WithSpecDirs") && c.valueDesc(oc.Call.Args[0]) == "global:"+flagVar.Name() {
					hasOpt = true
				}
			}
			if hasOpt {
				r.OK("C19.1", key, c.pos(call), "a separate cache built from --spec-dirs")
				continue
			}
			var sinks []string
			cacheV := ir.CallResult(call, 0)
			c19Sinks(c, fn, cacheV, &sinks)
			if len(sinks) == 0 {
				r.OK("C19.1", key, c.pos(call), "a cache that is never queried")
			} else {
				sort.Strings(sinks)
				r.Violation("C19.1", key, c.pos(call), fmt.Sprintf("%s queries a cache created by cdi.NewCache without the --spec-dirs option (%s): it reports the default directories, not the ones on the command line", c.U.RelName(fn), strings.Join(sinks, ", ")))
			}
		}
	}
	r.Analysed["C19.cache_sources"] = nSrc
	if nSrc < 8 {
		r.Undecided("C19.1", "cache-sources", "", fmt.Sprintf("only %d cache sources found in the cdi command (11 confirmed by hand)", nSrc))
	}

	// ---- C19.2 cdi validate
	exitSites := 0
	for _, fn := range cmdFns {
		usesErrors := false
		for _, call := range ir.Calls(fn) {
			if c.U.CalleeIs(call, "cdi", "(*Cache).GetErrors") {
				usesErrors = true
			}
		}
		if !usesErrors || fn.Parent() == nil || !strings.HasPrefix(c.U.RelName(fn), "init$") {
			continue
		}
		// the Run closure of the validate command
		isValidate := false
		for _, call := range ir.Calls(fn) {
			if f := call.Common().StaticCallee(); f != nil && f.String() == "os.Exit" {
				isValidate = true
			}
		}
		if !isValidate {
			continue
		}
		for _, call := range ir.Calls(fn) {
			f := call.Common().StaticCallee()
			if f == nil || f.String() != "os.Exit" {
				continue
			}
			exitSites++
			code, _ := ir.ConstInt(call.Common().Args[0])
			gs := c.exprGuardsOf(fn, call.(ssa.Instruction))
			okG := false
			for _, g := range gs {
				if strings.HasPrefix(g, "len((*Cache).GetErrors(GetDefaultCache())) != 0") || strings.HasPrefix(g, "len((*Cache).GetErrors(GetDefaultCache())) > 0") {
					okG = true
				}
			}
			nOther := 0
			for _, g := range gs {
				if strings.HasPrefix(g, "loopdone(") || g == "len((*Cache).GetErrors(GetDefaultCache())) != 0" || g == "len((*Cache).GetErrors(GetDefaultCache())) > 0" {
					continue
				}
				nOther++
			}
			r.Check("C19.2", "cdi-validate-exit", code == 1 && okG && nOther == 0, c.pos(call), fmt.Sprintf("'cdi validate' exits 1 exactly when the default cache reports errors (conditions %v)", gs))
		}
		// the no-error path returns without exiting
		for _, ret := range ir.NormalReturns(fn) {
			gs := c.exprGuardsOf(fn, ret)
			for _, g := range gs {
				if strings.HasPrefix(g, "len((*Cache).GetErrors(GetDefaultCache())) == 0") {
					r.OK("C19.2", "cdi-validate-ok", c.pos(ret), "without cache errors the command returns normally (exit status 0)")
				}
			}
		}
	}
	if exitSites == 0 {
		r.Violation("C19.2", "cdi-validate-exit", "", "the 'cdi validate' command never exits with a non-zero status")
	}

	// ---- C19.3 inject
	if fn := c.fn("C19.3", "cmd", "cdiInjectDevices"); fn != nil {
		inj := c.callsTo(fn, false, "cdi", "(*Cache).InjectDevices")
		if len(inj) != 1 {
			r.Violation("C19.3", "inject-call", c.U.Pos(fn.Pos()), fmt.Sprintf("%d InjectDevices calls in cdiInjectDevices", len(inj)))
		} else {
			spec := inj[0].Common().Args[1]
			okPrint := false
			for _, call := range c.callsTo(fn, false, "cmd", "marshalObject") {
				if call.Common().Args[1] != nil {
					d := c.exprDesc(call.Common().Args[1])
					if d == c.exprDesc(spec) {
						gs := c.exprGuardsOf(fn, call.(ssa.Instruction))
						for _, g := range gs {
							if strings.HasSuffix(g, "#1 == nil") && strings.Contains(g, "InjectDevices(") {
								okPrint = true
							}
						}
					}
				}
			}
			r.Check("C19.3", "prints-injected-spec", okPrint && spec == ssa.Value(paramOfType(fn, ociSpecsPkg, "Spec")), c.pos(inj[0]), "the OCI spec printed is the one handed to InjectDevices, and only when it returned no error")
			// which devices are injected: the cache's device names matched against the patterns
			// of the command line - filepath.Match(pattern, name), in that order (the other way
			// round a literal name still matches itself, a pattern with * ? [ matches nothing)
			for _, call := range ir.Calls(fn) {
				if f := call.Common().StaticCallee(); f == nil || f.String() != "path/filepath.Match" {
					continue
				}
				pat := normExpr(fn, []string{c.exprDesc(call.Common().Args[0])})[0]
				name := normExpr(fn, []string{c.exprDesc(call.Common().Args[1])})[0]
				okArgs := strings.HasPrefix(pat, "elem($") && strings.Contains(name, "ListDevices(")
				r.Check("C19.3", "inject-match-args", okArgs, c.pos(call), fmt.Sprintf("devices are selected by filepath.Match(<pattern from the command line>, <device name from the cache>) (found pattern=%s, name=%s)", pat, name))
			}
			// devices: matches among ListDevices of the same cache
			okDev := false
			for _, call := range c.callsTo(fn, false, "cdi", "(*Cache).ListDevices") {
				if c.exprDesc(call.Common().Args[0]) == c.exprDesc(inj[0].Common().Args[0]) {
					okDev = true
				}
			}
			r.Check("C19.3", "same-cache", okDev && c.valueDescRaw(inj[0].Common().Args[0]) == "GetDefaultCache#0()", c.pos(inj[0]), "patterns are matched against, and injection is done by, the default cache")
			// error propagated
			msg := c.errflow(fn, inj[0])
			r.Check("C19.3", "inject-error", msg == "", c.pos(inj[0]), "an injection error makes the command fail"+ifMsg(msg))
		}
	}

	// ---- C19.4 listers
	type lister struct{ fn, method string }
	for _, l := range []lister{{"cdiListVendors", "(*Cache).ListVendors"}, {"cdiListClasses", "(*Cache).ListClasses"}, {"cdiListDevices", "(*Cache).ListDevices"},
		{"cdiListSpecs", "(*Cache).GetVendorSpecs"}, {"cdiPrintCacheErrors", "(*Cache).GetErrors"}, {"cdiShowSpecDirs", "(*Cache).GetSpecDirectories"}} {
		fn := c.fn("C19.4", "cmd", l.fn)
		if fn == nil {
			continue
		}
		calls := c.callsTo(fn, false, "cdi", l.method)
		ok := len(calls) > 0
		for _, call := range calls {
			if c.valueDescRaw(call.Common().Args[0]) != "GetDefaultCache#0()" {
				ok = false
			}
		}
		r.Check("C19.4", "lister:"+l.fn, ok, c.U.Pos(fn.Pos()), l.fn+" asks the default cache for "+l.method)
	}

	// ---- cmd/validate (own module)
	c19ValidateCmd(c)
}

// c19Sinks lists the query methods called on cache value v (followed through
// local variables).
func c19Sinks(c *Ctx, fn *ssa.Function, v ssa.Value, out *[]string) {
	if v == nil {
		return
	}
	seen := map[ssa.Value]bool{}
	var walk func(x ssa.Value)
	walk = func(x ssa.Value) {
		if x == nil || seen[x] || x.Referrers() == nil {
			return
		}
		seen[x] = true
		for _, ref := range *x.Referrers() {
			switch y := ref.(type) {
			case ssa.CallInstruction:
				if f := c.U.StaticCallee(y); f != nil && len(y.Common().Args) > 0 && y.Common().Args[0] == x && c.U.FuncPkgPath(f) == ir.PkgAlias["cdi"] {
					*out = append(*out, f.Name())
				}
			case *ssa.Store:
				if y.Val == x {
					// loads of that cell
					for _, f2 := range ir.WithClosures(fn) {
						ir.Instrs(f2, func(in ssa.Instruction) {
							if ld, ok := in.(*ssa.UnOp); ok && c.U.CellOf(ld.X) == c.U.CellOf(y.Addr) {
								walk(ld)
							}
						})
					}
				}
			case *ssa.Phi:
				walk(y)
			case *ssa.Extract:
				walk(y)
			}
		}
	}
	walk(v)
}

// c19ValidateCmd: exit status of cmd/validate.
func c19ValidateCmd(c *Ctx) {
	r := c.R
	u, err := c.LoadOther("cmd/validate", c.U.GOOS, "./...")
	if err != nil {
		r.Undecided("C19.2", "load:cmd/validate", "", "cannot load cmd/validate: "+err.Error())
		return
	}
	c2 := &Ctx{U: u, Root: c.Root, Tier: c.Tier, R: r}
	mainFn := u.Func("validate", "main")
	if mainFn == nil {
		r.Undecided("C19.2", "anchor:validate-main", "", "main of cmd/validate not found")
		return
	}
	var exits []ssa.CallInstruction
	for _, call := range ir.Calls(mainFn) {
		if f := call.Common().StaticCallee(); f != nil && f.String() == "os.Exit" {
			exits = append(exits, call)
		}
	}
	// the final exit: argument is a phi web of 0 and 1 where 1 is set exactly under err != nil of the validation call
	okFinal := false
	for _, ex := range exits {
		arg := ex.Common().Args[0]
		if _, isConst := arg.(*ssa.Const); isConst {
			continue // early exits for usage/IO errors
		}
		leaves := phiLeavesWithPred(arg)
		has0, has1, okOne := false, false, true
		for _, lv := range leaves {
			v, isInt := ir.ConstInt(lv.val)
			if !isInt {
				// loop-carried phi referring to itself
				continue
			}
			if v == 0 {
				has0 = true
				// the only zero is the initial value: not assigned inside the document loop
				for _, l := range ir.Loops(mainFn) {
					if lv.pred != nil && l.BodyBlocks()[lv.pred] {
						okOne = false
					}
				}
			}
			if v == 1 {
				has1 = true
				// this edge: under err != nil where err is the validation result
				gs := c2.exprGuardsOf(mainFn, lv.pred.Instrs[len(lv.pred.Instrs)-1])
				found := false
				for _, g := range gs {
					if strings.Contains(g, "Validate") && strings.HasSuffix(g, "!= nil") {
						found = true
					}
				}
				if !found {
					// the edge itself may be the branch
					for _, g := range c2.edgeGuardsExpr(mainFn, lv.pred, lv.phi.Block()) {
						if strings.Contains(g, "Validate") && strings.HasSuffix(g, "!= nil") {
							found = true
						}
					}
				}
				if !found {
					okOne = false
				}
			}
			if v != 0 && v != 1 {
				okOne = false
			}
		}
		if has0 && has1 && okOne {
			okFinal = true
		}
	}
	r.Check("C19.2", "validate-exit", okFinal, u.Pos(mainFn.Pos()), "cmd/validate exits with a code that starts at 0 and becomes 1 exactly when schema validation of a document returned an error")
	// the validation calls
	nVal := 0
	for _, call := range ir.Calls(mainFn) {
		if u.CalleeIs(call, "schema", "ValidateData") || u.CalleeIs(call, "schema", "ValidateFile") {
			nVal++
		}
	}
	r.Check("C19.2", "validate-calls", nVal == 2, u.Pos(mainFn.Pos()), fmt.Sprintf("documents are validated with schema.ValidateData (stdin) and schema.ValidateFile (files): %d call sites", nVal))
}

// edgeGuardsExpr is edgeGuards with exprCond descriptions.
func (c *Ctx) edgeGuardsExpr(fn *ssa.Function, from, to *ssa.BasicBlock) []string {
	term := from.Instrs[len(from.Instrs)-1]
	out := c.exprGuardsOf(fn, term)
	if iff, ok := term.(*ssa.If); ok && from.Succs[0] != from.Succs[1] {
		for k := 0; k < 2; k++ {
			if from.Succs[k] == to {
				out = append(out, c.exprCond(iff, k, ir.Loops(fn)))
			}
		}
	}
	return out
}
