package rules

import (
	"fmt"
	"go/constant"
	"go/token"
	"go/types"
	"sort"
	"strings"

	"golang.org/x/tools/go/ssa"

	"cdiverif/internal/ir"
)

// C20 — reconfiguring a cache equals creating a new one, with bounded resources.

func init() {
	register(&Property{
		ID: "C20",
		Explanation: "Structural conditions decided on go/ssa for configure/newCache/Configure, the watch helper and the default-cache functions: " +
			"(C20.1) stop-before-setup: fsnotify.NewWatcher is called only in (*watch).setup; in configure every path to setup or start passes (*watch).stop, which closes a non-nil watcher - so a reconfiguration never holds two watchers; " +
			"(C20.2) one goroutine per start: the only go statement of pkg/cdi is in (*watch).start, which is called only from configure, after setup, under the auto-refresh flag; " +
			"(C20.3) the goroutine ends when its watcher is closed: the event loop has a return on the not-ok edge of a receive from the watcher's Events or Errors channel, and no receive without comma-ok from them; a nil watcher makes it return at once; " +
			"(C20.4) a nil watcher (creation failed, e.g. descriptor shortage) makes update report true, so refreshIfRequired rescans on every query; " +
			"(C20.5) configure is total: every field of Cache that options cannot set is (re)assigned on every path through configure (dirErrors directly; specs, devices, errors by refresh), options are applied first, newCache is allocate + defaults + configure and Configure is lock + configure; " +
			"(C20.6) the package-level Configure applies options exactly once: through newCache when it created the default cache, through (*Cache).Configure otherwise. " +
			"Not decided: behavioural equivalence over histories of option changes, actual descriptor/goroutine counts, behaviour of fsnotify.Close.",
		Assumptions: []string{"fsnotify.Watcher.Close closes both the Events and Errors channels and releases its descriptors"},
		Run:         runC20,
	})
}

func runC20(c *Ctx) {
	r := c.R
	r.Rule("C20.1", "stop-before-setup: one watcher at a time", 3)
	r.Rule("C20.2", "one-goroutine: the only go statement is in start, called once from configure after setup", 3)
	r.Rule("C20.3", "closed-channel-exit: the watcher goroutine returns when its channels are closed", 2)
	r.Rule("C20.4", "nil-watcher-forces-refresh", 1)
	r.Rule("C20.5", "configure-total: options first, every other field reassigned; NewCache and Configure both go through configure", 6)
	r.Rule("C20.6", "default-cache: options applied exactly once", 2)
	r.Rule("C20.7", "shortage-rescan: a scan that ran out of file descriptors is repeated by the next query", 3)
	c20Shortage(c)

	cdiFns := c.U.RepoFuncs("cdi")
	// ---- C20.1
	nNew := 0
	for _, fn := range cdiFns {
		for _, call := range ir.Calls(fn) {
			if f := call.Common().StaticCallee(); f != nil && f.String() == "github.com/fsnotify/fsnotify.NewWatcher" {
				nNew++
				r.Check("C20.1", "newwatcher-site:"+c.U.RelName(fn), c.U.RelName(fn) == "(*watch).setup", c.pos(call), "fsnotify.NewWatcher is called in "+c.U.RelName(fn)+" (only (*watch).setup may create watchers)")
			}
		}
	}
	if nNew == 0 {
		r.Undecided("C20.1", "newwatcher", "", "no call of fsnotify.NewWatcher found in pkg/cdi")
	}
	cfg := c.fn("C20.1", "cdi", "(*Cache).configure")
	if cfg == nil {
		return
	}
	stops := c.callsTo(cfg, false, "cdi", "(*watch).stop")
	setups := c.callsTo(cfg, false, "cdi", "(*watch).setup")
	// (*watch).start, if it exists, is expanded into configure before analysis: the spawn site is
	// the go statement itself
	var starts []ssa.CallInstruction
	ir.Instrs(cfg, func(in ssa.Instruction) {
		if g, ok := in.(*ssa.Go); ok {
			starts = append(starts, g)
		}
	})
	isStop := func(in ssa.Instruction) bool {
		for _, s := range stops {
			if s.(ssa.Instruction) == in {
				return true
			}
		}
		return false
	}
	for i, s := range append(append([]ssa.CallInstruction{}, setups...), starts...) {
		r.Check("C20.1", fmt.Sprintf("stop-first:%d", i), ir.MustPassBefore(cfg, s.(ssa.Instruction), isStop), c.pos(s), "every path to "+c.calleeName(s)+" passes watch.stop")
	}
	if len(setups) == 0 {
		r.Violation("C20.1", "setup-call", c.U.Pos(cfg.Pos()), "configure never sets up a watcher")
	}
	// the previous watcher and its goroutine go away whatever the new options say: switching
	// auto-refresh OFF must stop them too
	okAlways := len(stops) > 0
	for _, ret := range ir.NormalReturns(cfg) {
		if !ir.MustPassBefore(cfg, ret, isStop) {
			okAlways = false
		}
	}
	r.Check("C20.1", "stop-on-every-reconfiguration", okAlways, c.U.Pos(cfg.Pos()), "every path through configure passes watch.stop (also the one that leaves auto-refresh switched off): no watcher, descriptor or goroutine of the previous configuration survives")
	// a directory list given as an option always replaces the old one, also when it is empty
	if ws := c.U.Func("cdi", "WithSpecDirs"); ws != nil && len(ws.AnonFuncs) == 1 {
		opt := ws.AnonFuncs[0]
		isSet := func(in ssa.Instruction) bool {
			st, ok := in.(*ssa.Store)
			if !ok {
				return false
			}
			fa, ok := st.Addr.(*ssa.FieldAddr)
			return ok && len(opt.Params) > 0 && fa.X == ssa.Value(opt.Params[0]) && ir.StructOf(fa.X.Type()).Field(fa.Field).Name() == "specDirs"
		}
		okSet := true
		for _, ret := range ir.NormalReturns(opt) {
			if !ir.MustPassBefore(opt, ret, isSet) {
				okSet = false
			}
		}
		r.Check("C20.5", "specdirs-always-replaced", okSet, c.U.Pos(opt.Pos()), "the WithSpecDirs option assigns c.specDirs on every path (an empty list empties it): a reconfigured cache has the directories of its last options, like a new one")
	}
	// all of them act on c.watch
	for _, s := range append(append(append([]ssa.CallInstruction{}, stops...), setups...), starts...) {
		d := normExpr(cfg, []string{c.exprDesc(s.Common().Args[0])})[0]
		r.Check("C20.1", "same-watch:"+c.calleeName(s), d == "$0.watch", c.pos(s), "the watch object stopped, set up and started is c.watch (found "+d+")")
	}
	if st := c.fn("C20.1", "cdi", "(*watch).stop"); st != nil {
		okClose := false
		for _, call := range ir.Calls(st) {
			if f := call.Common().StaticCallee(); f != nil && f.String() == "(*github.com/fsnotify/fsnotify.Watcher).Close" {
				d := normExpr(st, []string{c.exprDesc(call.Common().Args[0])})[0]
				gs := normExpr(st, c.exprGuardsOf(st, call.(ssa.Instruction)))
				if d == "$0.watcher" && sameSet(gs, []string{"$0.watcher != nil"}) {
					okClose = true
				}
			}
		}
		r.Check("C20.1", "stop-closes", okClose, c.U.Pos(st.Pos()), "stop closes the current watcher whenever there is one")
	}
	// setup args: the configured directories and the fresh dirErrors
	for _, s := range setups {
		a := s.Common().Args
		ok := len(a) == 3 && normExpr(cfg, []string{c.exprDesc(a[1])})[0] == "$0.specDirs" && normExpr(cfg, []string{c.exprDesc(a[2])})[0] == "$0.dirErrors"
		r.Check("C20.1", "setup-args", ok, c.pos(s), "setup watches exactly the configured directories (c.specDirs) and reports into c.dirErrors")
	}

	// ---- C20.2
	nGo := 0
	for _, fn := range cdiFns {
		ir.Instrs(fn, func(in ssa.Instruction) {
			if g, ok := in.(*ssa.Go); ok {
				nGo++
				okSite := fn == cfg
				okTarget := false
				for _, f := range c.U.Callees(g) {
					if c.U.RelName(f) == "(*watch).watch" {
						okTarget = true
					}
				}
				r.Check("C20.2", "go-site:"+c.U.RelName(fn), okSite && okTarget, c.pos(in), "go statement in "+c.U.RelName(fn)+" (only configure - through start - may spawn, and only the watch loop)")
				if okSite {
					// the goroutine gets the watcher that exists at start time: w.watcher
					d := normExpr(fn, []string{c.exprDesc(g.Call.Args[1])})[0]
					r.Check("C20.2", "go-watcher", d == "$0.watch.watcher", c.pos(in), "the goroutine is bound to the watcher current at start (found "+d+"): after stop() closes it, it ends")
				}
			}
		})
	}
	r.Check("C20.2", "go-count", nGo == 1, "", fmt.Sprintf("%d go statements in pkg/cdi (one expected)", nGo))
	{
		r.Check("C20.2", "start-sites", len(starts) == 1, c.U.Pos(cfg.Pos()), fmt.Sprintf("%d go statement(s) in configure (exactly one)", len(starts)))
		for _, s := range starts {
			gs := normExpr(cfg, c.exprGuardsOf(cfg, s.(ssa.Instruction)))
			var auto bool
			var extra []string
			for _, g := range gs {
				switch {
				case g == "$0.autoRefresh":
					auto = true
				case strings.HasPrefix(g, "loopdone("):
				default:
					extra = append(extra, g)
				}
			}
			afterSetup := len(setups) == 1 && ir.MustPassBefore(cfg, s.(ssa.Instruction), func(in ssa.Instruction) bool { return in == setups[0].(ssa.Instruction) })
			r.Check("C20.2", "start-guard", auto && len(extra) == 0 && afterSetup, c.pos(s), fmt.Sprintf("the goroutine is started exactly when auto-refresh is on, after setup (conditions %v)", gs))
			// mutex and refresh of this cache
			a := s.Common().Args
			okArgs := len(a) == 5 && normExpr(cfg, []string{c.exprDesc(a[2])})[0] == "$0.Mutex" && normExpr(cfg, []string{c.exprDesc(a[4])})[0] == "$0.dirErrors"
			bound := false
			if len(a) == 5 {
				if mc, ok := a[3].(*ssa.MakeClosure); ok && len(mc.Bindings) == 1 && mc.Bindings[0] == ssa.Value(cfg.Params[0]) {
					for _, f := range c.U.FuncValues(a[3]) {
						if c.U.RelName(f) == "(*Cache).refresh" {
							bound = true
						}
					}
				}
			}
			r.Check("C20.2", "start-args", okArgs && bound, c.pos(s), "the goroutine gets this cache's mutex, refresh method and dirErrors")
		}
		// setup guard equals start guard
		for _, s := range setups {
			gs := normExpr(cfg, c.exprGuardsOf(cfg, s.(ssa.Instruction)))
			auto := false
			for _, g := range gs {
				if g == "$0.autoRefresh" {
					auto = true
				}
			}
			r.Check("C20.2", "setup-guard", auto, c.pos(s), "a watcher is created only when auto-refresh is on")
		}
	}

	// ---- C20.3
	if ws := analyseWatch(c, "C20.3"); ws != nil {
		fn := ws.fn
		exits := 0
		ir.Instrs(fn, func(in ssa.Instruction) {
			iff, ok := in.(*ssa.If)
			if !ok {
				return
			}
			ex, ok := iff.Cond.(*ssa.Extract)
			if !ok || ex.Tuple != ssa.Value(ws.sel) || ex.Index != 1 {
				return
			}
			notOK := ir.Edge{From: iff.Block(), Succ: 1}
			// which channel: the select state this branch belongs to
			loops := !ir.CanReach(fn, ir.PathQuery{FromEdge: &notOK, ToAny: func(x ssa.Instruction) bool { return x.Block() == ws.header && x == ws.header.Instrs[0] }})
			returns := ir.CanReach(fn, ir.PathQuery{FromEdge: &notOK})
			if loops && returns {
				exits++
			}
		})
		watchExitsOnlyWhenClosed(c, ws, "C20.3", "exit-only-when-closed")
		r.Check("C20.3", "closed-channel-exit", exits >= 1, c.U.Pos(fn.Pos()), fmt.Sprintf("%d of the select's receive branches return when the channel is closed (at least one is needed for the goroutine to end after Close)", exits))
		// channels come from the watcher parameter
		okCh := len(ws.sel.States) >= 1
		for _, st := range ws.sel.States {
			d := normExpr(fn, []string{c.exprDesc(st.Chan)})[0]
			if d != "$1.Events" && d != "$1.Errors" {
				okCh = false
			}
		}
		r.Check("C20.3", "select-channels", okCh, c.pos(ws.sel), "the select waits on the Events/Errors channels of the watcher handed to the goroutine")
		plain := 0
		ir.Instrs(fn, func(in ssa.Instruction) {
			if u, ok := in.(*ssa.UnOp); ok && u.Op.String() == "<-" && !u.CommaOk {
				plain++
			}
		})
		r.Check("C20.3", "no-plain-receive", plain == 0, c.U.Pos(fn.Pos()), "no receive without comma-ok in the watcher loop (it would spin on a closed channel)")
		// nil watcher: immediate return
		okNil := false
		for _, er := range c.exprReturns(fn) {
			if sameSet(er.guards, []string{"$1 == nil"}) {
				okNil = true
			}
		}
		r.Check("C20.3", "nil-watcher-returns", okNil, c.U.Pos(fn.Pos()), "started without a watcher the goroutine returns at once")
	}

	// ---- C20.4
	if up := c.fn("C20.4", "cdi", "(*watch).update"); up != nil {
		ok := false
		for _, er := range c.exprReturns(up) {
			if er.results[0] == "true" && sameSet(er.guards, []string{"$0.watcher == nil"}) {
				ok = true
			}
		}
		r.Check("C20.4", "nil-watcher-true", ok, c.U.Pos(up.Pos()), "update returns true when there is no watcher: every query rescans until a watcher can be created")
	}

	if su := c.fn("C20.4", "cdi", "(*watch).setup"); su != nil {
		// every path through setup (re)assigns w.watcher from NewWatcher's result: after a
		// failed creation it is nil, never the previous (closed) watcher
		var stores []ssa.Instruction
		ir.Instrs(su, func(in ssa.Instruction) {
			st, ok := in.(*ssa.Store)
			if !ok {
				return
			}
			if normExpr(su, []string{c.exprDesc(st.Addr)})[0] != "$0.watcher" {
				return
			}
			v := normExpr(su, []string{c.exprDesc(st.Val)})[0]
			if v == "github.com/fsnotify/fsnotify.NewWatcher()#0" || v == "nil" {
				stores = append(stores, in)
			}
		})
		ok := len(stores) > 0
		for _, ret := range ir.NormalReturns(su) {
			if !ir.MustPassBefore(su, ret, func(in ssa.Instruction) bool {
				for _, s := range stores {
					if s == in {
						return true
					}
				}
				return false
			}) {
				ok = false
			}
		}
		r.Check("C20.4", "setup-resets-watcher", ok, c.U.Pos(su.Pos()), "on every path through setup w.watcher becomes NewWatcher's result (nil when creation failed): a stale closed watcher would make update() stop forcing refreshes")
	}

	// ---- C20.5
	cacheT := c.U.NamedType("cdi", "Cache")
	st := ir.StructOf(cacheT)
	optionSet := map[string]bool{}
	for _, fn := range cdiFns {
		// option closures: func(*Cache) literals returned by exported With* functions
		if fn.Parent() == nil || fn.Parent().Object() == nil || !strings.HasPrefix(fn.Parent().Name(), "With") {
			continue
		}
		for _, w := range c.U.EffectsOf(fn).Writes {
			if w.Path.Kind() == ir.RootParam && len(w.Path.Sels) >= 1 && w.Path.Sels[0].F != nil && c.structFieldOwner(w.Path.Sels[0].F, "cdi") == "Cache" {
				optionSet[w.Path.Sels[0].F.Name()] = true
			}
		}
	}
	var optFields []string
	for k := range optionSet {
		optFields = append(optFields, k)
	}
	sort.Strings(optFields)
	r.Analysed["C20.fields_set_by_options"] = optFields
	if len(optFields) == 0 {
		r.Undecided("C20.5", "options", "", "no option closure writing a Cache field found")
	}
	// fields assigned on every path through configure (directly or in callees)
	assignedAt := map[string][]ssa.Instruction{}
	for _, w := range c.U.EffectsOf(cfg).Writes {
		if rootedAt(w.Path, cfg.Params[0]) && len(w.Path.Sels) == 1 && w.Path.Sels[0].F != nil && w.Kind == "store" && w.Site.Parent() == cfg {
			assignedAt[w.Path.Sels[0].F.Name()] = append(assignedAt[w.Path.Sels[0].F.Name()], w.Site)
		}
	}
	for i := 0; i < st.NumFields(); i++ {
		f := st.Field(i).Name()
		if f == "Mutex" || optionSet[f] {
			continue
		}
		key := "reassigned:" + f
		if f == "watch" {
			// the helper object persists; its own fields are re-derived by stop/setup
			r.OK("C20.5", key, c.U.Pos(cfg.Pos()), "c.watch is the persistent helper; its watcher/tracked fields are re-derived by stop and setup (C20.1)")
			continue
		}
		sites := assignedAt[f]
		always := false
		for _, ret := range ir.NormalReturns(cfg) {
			always = ir.MustPassBefore(cfg, ret, func(in ssa.Instruction) bool {
				for _, s := range sites {
					if s == in {
						// a call site assigns on every path only if the callee does
						if call, ok := in.(ssa.CallInstruction); ok {
							return c.calleeAlwaysAssigns(call, f)
						}
						return true
					}
				}
				return false
			})
		}
		r.Check("C20.5", key, always, c.U.Pos(cfg.Pos()), "field "+f+" of Cache is assigned anew on every path through configure: nothing of the previous configuration survives in it")
	}
	// options applied first
	var optCall ssa.CallInstruction
	for _, call := range ir.Calls(cfg) {
		cc := call.Common()
		if !cc.IsInvoke() && cc.StaticCallee() == nil && ir.BuiltinName(call) == "" && len(cc.Args) == 1 && cc.Args[0] == ssa.Value(cfg.Params[0]) {
			optCall = call
		}
	}
	if optCall == nil {
		r.Violation("C20.5", "options-applied", c.U.Pos(cfg.Pos()), "configure does not apply the options to the cache")
	} else {
		l := ir.LoopOf(cfg, ir.Loops(cfg), optCall.(ssa.Instruction).Block())
		okLoop := l != nil && l.Complete && normExpr(cfg, []string{c.exprDesc(l.Over)})[0] == "$1"
		first := true
		for _, s := range append(append(append([]ssa.CallInstruction{}, stops...), setups...), c.callsTo(cfg, false, "cdi", "(*Cache).refresh")...) {
			if l != nil && !ir.OnlyViaEdge(cfg, s.(ssa.Instruction), l.Exit) {
				first = false
			}
		}
		r.Check("C20.5", "options-applied", okLoop && first, c.pos(optCall), "every option is applied, in order, before the watch is rebuilt and the cache refreshed")
	}
	// the refresh at the end
	refs := c.callsTo(cfg, false, "cdi", "(*Cache).refresh")
	okRef := len(refs) == 1
	if okRef {
		for _, ret := range ir.NormalReturns(cfg) {
			if !ir.MustPassBefore(cfg, ret, func(in ssa.Instruction) bool { return in == refs[0].(ssa.Instruction) }) {
				okRef = false
			}
		}
		// after setup so that nothing created between scan and watch is missed
		for _, s := range setups {
			if ir.CanReach(cfg, ir.PathQuery{From: refs[0].(ssa.Instruction), To: s.(ssa.Instruction)}) {
				okRef = false
			}
		}
	}
	r.Check("C20.5", "refresh-last", okRef, c.U.Pos(cfg.Pos()), "configure always ends with a refresh, after the watches were (re)established")
	// NewCache / Configure
	if nc := c.fn("C20.5", "cdi", "newCache"); nc != nil {
		calls := c.callsTo(nc, false, "cdi", "(*Cache).configure")
		ok := len(calls) == 1
		if ok {
			a := calls[0].Common().Args
			ok = c.valueDesc(a[0]) == "local:complit" && a[1] == ssa.Value(nc.Params[0])
			for _, ret := range ir.NormalReturns(nc) {
				if !ir.MustPassBefore(nc, ret, func(in ssa.Instruction) bool { return in == calls[0].(ssa.Instruction) }) {
					ok = false
				}
			}
		}
		r.Check("C20.5", "newCache", ok, c.U.Pos(nc.Pos()), "newCache = allocate, defaults, configure(options)")
	}
	if cf := c.fn("C20.5", "cdi", "(*Cache).Configure"); cf != nil {
		calls := c.callsTo(cf, false, "cdi", "(*Cache).configure")
		ok := len(calls) == 1
		if ok {
			a := calls[0].Common().Args
			ok = a[0] == ssa.Value(cf.Params[0]) && a[1] == ssa.Value(cf.Params[1])
			gs := normExpr(cf, c.exprGuardsOf(cf, calls[0].(ssa.Instruction)))
			ok = ok && sameSet(gs, []string{"nonempty($1)"})
		}
		r.Check("C20.5", "Configure", ok, c.U.Pos(cf.Pos()), "Configure = configure(options) on the same cache whenever options are given")
	}

	// ---- C20.6
	// (getOrCreateDefaultCache, if it exists, is expanded into its callers before analysis:
	// the rule reads the same whether that wrapper exists or its body is written out)
	onceDo := func(fn *ssa.Function) (ssa.CallInstruction, *ssa.Function) {
		for _, call := range ir.Calls(fn) {
			if f := call.Common().StaticCallee(); f != nil && f.String() == "(*sync.Once).Do" {
				for _, body := range c.U.FuncValues(call.Common().Args[1]) {
					return call, body
				}
			}
		}
		return nil, nil
	}
	var onceVars []string
	if dc := c.fn("C20.6", "cdi", "Configure"); dc != nil {
		cfs := c.callsTo(dc, false, "cdi", "(*Cache).Configure")
		ok := len(cfs) == 1
		detail := ""
		if ok {
			ok = normExpr(dc, []string{c.exprDesc(cfs[0].Common().Args[1])})[0] == "$0"
			gs := normExpr(dc, c.exprGuardsOf(dc, cfs[0].(ssa.Instruction)))
			recv := normExpr(dc, []string{c.exprDesc(cfs[0].Common().Args[0])})[0]
			detail = fmt.Sprintf(" (conditions %v, receiver %s)", gs, recv)
			// the flag: a local bool that is false unless the creating closure sets it
			for i, g := range gs {
				if g == "!false|true" {
					gs[i] = "!var:created"
				}
			}
			ok = ok && sameSet(gs, []string{"!var:created", "nonempty($0)"}) && recv == "defaultCache"
		}
		r.Check("C20.6", "default-Configure", ok, c.U.Pos(dc.Pos()), "cdi.Configure hands the options to the cache's creation, or - only if the cache already existed - to its Configure"+detail)
		call, body := onceDo(dc)
		okOnce := false
		if call != nil && body != nil {
			onceVars = append(onceVars, c.exprDesc(call.Common().Args[0]))
			var newc, created bool
			for _, cl := range c.callsTo(body, false, "cdi", "newCache") {
				if strings.Contains(c.exprDesc(cl.Common().Args[0]), "options") {
					newc = true
				}
			}
			ir.Instrs(body, func(in ssa.Instruction) {
				if st, ok := in.(*ssa.Store); ok {
					if b, isB := ir.ConstBool(st.Val); isB && b && strings.Contains(c.exprDesc(st.Addr), "created") {
						created = true
					}
					if _, isCall := st.Val.(*ssa.Call); isCall && c.exprDesc(st.Addr) != "&defaultCache" && c.exprDesc(st.Addr) != "defaultCache" {
						newc = false
					}
				}
			})
			okOnce = newc && created
		}
		r.Check("C20.6", "create-once", okOnce, c.U.Pos(dc.Pos()), "the default cache is created once (sync.Once) with the options of that first call, which is reported as 'created'")
	}
	if gd := c.fn("C20.6", "cdi", "GetDefaultCache"); gd != nil {
		call, body := onceDo(gd)
		ok := call != nil && body != nil && len(c.callsTo(body, false, "cdi", "newCache")) == 1
		if ok {
			onceVars = append(onceVars, c.exprDesc(call.Common().Args[0]))
		}
		same := len(onceVars) == 2 && onceVars[0] == onceVars[1]
		r.Check("C20.6", "get-creates-once", ok && same, c.U.Pos(gd.Pos()), fmt.Sprintf("GetDefaultCache creates the default cache under the same sync.Once as Configure (%v)", onceVars))
	}
}

// calleeAlwaysAssigns: the callee stores field f of its receiver on every
// path to its returns.
func (c *Ctx) calleeAlwaysAssigns(call ssa.CallInstruction, field string) bool {
	callee := c.U.StaticCallee(call)
	if callee == nil || len(callee.Params) == 0 {
		return false
	}
	var sites []ssa.Instruction
	ir.Instrs(callee, func(in ssa.Instruction) {
		st, ok := in.(*ssa.Store)
		if !ok {
			return
		}
		fa, ok := st.Addr.(*ssa.FieldAddr)
		if ok && fa.X == ssa.Value(callee.Params[0]) && ir.StructOf(fa.X.Type()).Field(fa.Field).Name() == field {
			sites = append(sites, in)
		}
	})
	if c13ClearedInPlace(c, callee, field) {
		return true // emptied completely before refilling: equivalent to a fresh map
	}
	if len(sites) == 0 {
		return false
	}
	for _, ret := range ir.NormalReturns(callee) {
		if !ir.MustPassBefore(callee, ret, func(in ssa.Instruction) bool {
			for _, s := range sites {
				if s == in {
					return true
				}
			}
			return false
		}) {
			return false
		}
	}
	return true
}

// c20Shortage: C20.7. A cache (re)configured while descriptors are exhausted may get its
// watcher and still fail to read its directories; the watcher then has nothing to report
// and only the cache itself knows that its contents are not those of the directories.
// Decided structurally: (1) refresh assigns c.rescan, on every path to its return, a flag
// that is set exactly where the scan callback sees an error that is EMFILE or ENFILE;
// (2) refreshIfRequired asks the flag and goes on to refresh when it is set (the exact
// conditions are C11.4's). That an unreadable directory produces such an error in the first
// place is C13.1 unreadable-directory-reported.
func c20Shortage(c *Ctx) {
	r := c.R
	rf := c.fn("C20.7", "cdi", "(*Cache).refresh")
	rir := c.fn("C20.7", "cdi", "(*Cache).refreshIfRequired")
	if rf == nil || rir == nil {
		return
	}
	// (1) the assignment
	var stores []*ssa.Store
	ir.Instrs(rf, func(in ssa.Instruction) {
		if st, ok := in.(*ssa.Store); ok {
			if fa, ok := st.Addr.(*ssa.FieldAddr); ok && fa.X == ssa.Value(rf.Params[0]) && ir.StructOf(fa.X.Type()).Field(fa.Field).Name() == "rescan" {
				stores = append(stores, st)
			}
		}
	})
	// the flag: a local variable of refresh (possibly captured by the scan callback), or a
	// field of the object that carries one scan's state
	var flag *ssa.Alloc
	var flagField *ssa.FieldAddr
	okStore := len(stores) == 1
	if okStore {
		if ld, ok := stores[0].Val.(*ssa.UnOp); ok && ld.Op == token.MUL {
			flag, _ = ld.X.(*ssa.Alloc)
			flagField, _ = ld.X.(*ssa.FieldAddr)
		}
		for _, ret := range ir.NormalReturns(rf) {
			if !ir.MustPassBefore(rf, ret, func(in ssa.Instruction) bool { return in == ssa.Instruction(stores[0]) }) {
				okStore = false
			}
		}
	}
	r.Check("C20.7", "rescan-assigned", okStore && (flag != nil || flagField != nil), c.U.Pos(rf.Pos()), "every scan leaves in c.rescan whether it ran out of descriptors (one assignment of the scan's own flag, on every path)")
	// where the flag becomes true
	nTrue, okGuards, other := 0, true, false
	seen := map[string]bool{}
	check := func(fn *ssa.Function, st *ssa.Store) {
		b, isConst := ir.ConstBool(st.Val)
		if !isConst {
			other = true
			return
		}
		if !b {
			return
		}
		nTrue++
		// the block of the store is entered only through true edges of errors.Is(err, EMFILE/ENFILE)
		var es []ir.Edge
		for _, iff := range ir.Ifs(fn) {
			call, isCall := iff.Cond.(*ssa.Call)
			if !isCall || call.Call.StaticCallee() == nil || call.Call.StaticCallee().String() != "errors.Is" || len(call.Call.Args) != 2 {
				continue
			}
			mi, isMI := call.Call.Args[1].(*ssa.MakeInterface)
			if !isMI {
				continue
			}
			k, isConst := mi.X.(*ssa.Const)
			if !isConst || k.Value == nil {
				continue
			}
			for _, errno := range []string{"EMFILE", "ENFILE"} {
				if sp := c.U.Prog.ImportedPackage("syscall"); sp != nil {
					if obj, ok := sp.Pkg.Scope().Lookup(errno).(*types.Const); ok && constant.Compare(obj.Val(), token.EQL, k.Value) {
						seen[errno] = true
						es = append(es, ir.Edge{From: iff.Block(), Succ: 0})
					}
				}
			}
		}
		if len(es) == 0 || !ir.OnlyViaEdges(fn, st, es) {
			okGuards = false
		}
	}
	switch {
	case flag != nil && flag.Referrers() != nil:
		for _, ref := range *flag.Referrers() {
			switch x := ref.(type) {
			case *ssa.Store:
				if x.Addr == ssa.Value(flag) {
					check(rf, x)
				}
			case *ssa.MakeClosure:
				cl := x.Fn.(*ssa.Function)
				for i, bv := range x.Bindings {
					if bv != ssa.Value(flag) || i >= len(cl.FreeVars) || cl.FreeVars[i].Referrers() == nil {
						continue
					}
					for _, fr := range *cl.FreeVars[i].Referrers() {
						if st, ok := fr.(*ssa.Store); ok && st.Addr == ssa.Value(cl.FreeVars[i]) {
							check(cl, st)
						}
					}
				}
			}
		}
	case flagField != nil:
		// every store to that field of that struct type, anywhere in the package
		st0 := ir.StructOf(flagField.X.Type())
		for _, fn := range c.U.RepoFuncs("cdi") {
			fn := fn
			ir.Instrs(fn, func(in ssa.Instruction) {
				st, ok := in.(*ssa.Store)
				if !ok {
					return
				}
				fa, ok := st.Addr.(*ssa.FieldAddr)
				if ok && fa.Field == flagField.Field && st0 != nil && types.Identical(ir.StructOf(fa.X.Type()), st0) {
					check(fn, st)
				}
			})
		}
	}
	if flag != nil || flagField != nil {
		r.Check("C20.7", "flag-set-on-shortage", nTrue >= 1 && okGuards && !other && seen["EMFILE"] && seen["ENFILE"], c.U.Pos(rf.Pos()),
			fmt.Sprintf("the flag becomes true exactly where the scan reports an error that is EMFILE or ENFILE (%d setting site(s), errno tests seen: %v)", nTrue, keysOf(seen)))
	}
	// (2) the question
	asked := false
	refs := c.callsTo(rir, false, "cdi", "(*Cache).refresh")
	for _, iff := range ir.Ifs(rir) {
		if normExpr(rir, []string{c.exprDesc(iff.Cond)})[0] != "$0.rescan" {
			continue
		}
		e := ir.Edge{From: iff.Block(), Succ: 0}
		for _, ref := range refs {
			if ir.CanReach(rir, ir.PathQuery{FromEdge: &e, To: ref.(ssa.Instruction)}) {
				asked = true
			}
		}
	}
	r.Check("C20.7", "rescan-asked", asked, c.U.Pos(rir.Pos()), "refreshIfRequired scans again when the last scan ran out of descriptors: a cache set up during the shortage answers from the directories once it is over, although its watcher has nothing to report")
}

func keysOf(m map[string]bool) []string {
	var out []string
	for k := range m {
		out = append(out, k)
	}
	sort.Strings(out)
	return out
}

// watchExitsOnlyWhenClosed: once the watcher goroutine is in its select loop, the only way
// out is a receive that found its channel closed (stop() closed the watcher). An error
// delivered on the Errors channel, an odd event, a failed refresh must not end it: the cache
// would keep auto-refresh switched on with nobody listening.
func watchExitsOnlyWhenClosed(c *Ctx, ws *watchShape, rule, key string) {
	fn := ws.fn
	var closed []ir.Edge
	for _, iff := range ir.Ifs(fn) {
		if ex, ok := iff.Cond.(*ssa.Extract); ok && ex.Tuple == ssa.Value(ws.sel) && ex.Index == 1 {
			closed = append(closed, ir.Edge{From: iff.Block(), Succ: 1})
		}
	}
	bad := ""
	n := 0
	for _, ret := range ir.NormalReturns(fn) {
		if !ir.Dominates(ws.sel.Block(), ret.Block()) {
			continue
		}
		n++
		if len(closed) == 0 || !ir.OnlyViaEdges(fn, ret, closed) {
			bad += " " + c.pos(ret)
		}
	}
	c.R.Check(rule, key, bad == "", c.U.Pos(fn.Pos()), fmt.Sprintf("every return of the watcher goroutine inside its select loop (%d) is reached only after a receive reported its channel closed (returns reachable otherwise:%s)", n, bad))
}
