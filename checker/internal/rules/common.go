package rules

import (
	"fmt"
	"go/types"
	"sort"
	"strings"

	"golang.org/x/tools/go/ssa"

	"cdiverif/internal/ir"
)

// fieldDeclaredIn reports whether field f is declared by a struct type of the
// given repository package (alias).
func fieldDeclaredIn(f *types.Var, pkgAlias string) bool {
	return f != nil && f.Pkg() != nil && f.Pkg().Path() == ir.PkgAlias[pkgAlias]
}

// structFieldOwner returns the name of the named struct type of package
// pkgAlias that declares field f ("" if none).
func (c *Ctx) structFieldOwner(f *types.Var, pkgAlias string) string {
	p := c.U.Pkgs[ir.PkgAlias[pkgAlias]]
	if p == nil || p.Types == nil || f == nil {
		return ""
	}
	sc := p.Types.Scope()
	for _, name := range sc.Names() {
		tn, ok := sc.Lookup(name).(*types.TypeName)
		if !ok {
			continue
		}
		st, ok := tn.Type().Underlying().(*types.Struct)
		if !ok {
			continue
		}
		for i := 0; i < st.NumFields(); i++ {
			if st.Field(i) == f {
				return tn.Name()
			}
		}
	}
	return ""
}

// touchesSpecMemory: the path leads into memory of a loaded CDI Spec: it
// selects a field of a specs-go type, or a field of the cdi.Spec / cdi.Device
// wrappers.
func (c *Ctx) touchesSpecMemory(p ir.Path) (bool, string) {
	for _, s := range p.Sels {
		if s.F == nil {
			continue
		}
		if fieldDeclaredIn(s.F, "specs") {
			return true, "specs-go field " + s.F.Name()
		}
		if o := c.structFieldOwner(s.F, "cdi"); o == "Spec" || o == "Device" {
			return true, "cdi." + o + "." + s.F.Name()
		}
	}
	return false, ""
}

// paramIndex returns the index of p among its function's parameters.
func paramIndex(p *ssa.Parameter) int {
	for i, q := range p.Parent().Params {
		if q == p {
			return i
		}
	}
	return -1
}

// paramNamed finds a parameter by name.
func paramNamed(fn *ssa.Function, name string) *ssa.Parameter {
	for _, p := range fn.Params {
		if p.Name() == name {
			return p
		}
	}
	return nil
}

// paramOfType finds the first parameter whose type (through a pointer) is the
// named type pkgPath.name.
func paramOfType(fn *ssa.Function, pkgPath, name string) *ssa.Parameter {
	for _, p := range fn.Params {
		if ir.TypeIs(p.Type(), pkgPath, name) {
			return p
		}
	}
	return nil
}

const ociSpecsPkg = "github.com/opencontainers/runtime-spec/specs-go"
const ocigenPkg = "github.com/opencontainers/runtime-tools/generate"

// rootedAt reports whether path p starts at parameter par.
func rootedAt(p ir.Path, par *ssa.Parameter) bool {
	return p.Root == ssa.Value(par)
}

// errflow checks the error discipline of one call site: the error result is
// (a) returned directly (tail call), or (b) tested against nil and every
// feasible path from the non-nil edge ends in a return whose error result is
// not nil. allowContinue: a `continue`/fallthrough after recording is not
// accepted here; callers with such idioms use their own rule.
// It returns "" when the discipline holds, else a description.
func (c *Ctx) errflow(fn *ssa.Function, call ssa.CallInstruction) string {
	sig := call.Common().Signature()
	ei := ir.ErrorResultIndex(sig)
	if ei < 0 {
		return "callee has no error result"
	}
	ev := ir.CallResult(call, ei)
	if ev == nil {
		return "error result is dropped"
	}
	fei := ir.ErrorResultIndex(fn.Signature)
	if fei < 0 {
		return "enclosing function has no error result"
	}
	// values that carry the error: ev itself and local cells it is stored to
	refs := ev.Referrers()
	if refs == nil || len(*refs) == 0 {
		return "error result is never used"
	}
	used := false
	var problems []string
	// (a) returned directly
	for _, r := range *refs {
		if ret, ok := r.(*ssa.Return); ok && fei < len(ret.Results) && ret.Results[fei] == ev {
			used = true
		}
		if st, ok := r.(*ssa.Store); ok && st.Val == ev {
			// spilled result or local variable: look at tests of loads of that cell
			if a, ok := st.Addr.(*ssa.Alloc); ok {
				if msg, ok2 := c.errflowCell(fn, a, st, fei); ok2 {
					used = true
					if msg != "" {
						problems = append(problems, msg)
					}
				}
			}
		}
		if phi, ok := r.(*ssa.Phi); ok {
			// flows into a phi that is returned (err = f(); if err != nil {wrap}; return err)
			if phi.Referrers() != nil {
				for _, rr := range *phi.Referrers() {
					if ret, ok := rr.(*ssa.Return); ok && fei < len(ret.Results) && ret.Results[fei] == ssa.Value(phi) {
						used = true
					}
				}
			}
		}
	}
	// (b) tested
	for _, iff := range ir.Ifs(fn) {
		tv, nilSucc, ok := ir.NilTest(iff)
		if !ok || tv != ev {
			continue
		}
		used = true
		nonNil := ir.Edge{From: iff.Block(), Succ: 1 - nilSucc}
		complete := ir.EnumPaths(fn, &nonNil, false, func(p ir.BlockPath, end ssa.Instruction) {
			ret, ok := end.(*ssa.Return)
			if !ok || !ir.FeasiblePath(p) {
				return
			}
			rv := ir.ResolveOnPath(ir.ReturnResult(ret, fei), p)
			if ir.DefiniteNil(rv) == ir.IsNil {
				problems = append(problems, fmt.Sprintf("a path from the error branch returns a nil error at %s", c.pos(ret)))
			}
		})
		if !complete {
			problems = append(problems, "too many paths to enumerate")
		}
	}
	if !used {
		return "error result is neither tested against nil nor returned"
	}
	if len(problems) > 0 {
		sort.Strings(problems)
		return problems[0]
	}
	return ""
}

// errflowCell handles `*cell = f(); ...; if *cell != nil {...}` (variables
// that live in memory because a closure captures them or results are named).
func (c *Ctx) errflowCell(fn *ssa.Function, cell *ssa.Alloc, st *ssa.Store, fei int) (string, bool) {
	handled := false
	msg := ""
	for _, iff := range ir.Ifs(fn) {
		tv, nilSucc, ok := ir.NilTest(iff)
		if !ok {
			continue
		}
		ld, isLoad := tv.(*ssa.UnOp)
		if !isLoad || ld.X != ssa.Value(cell) {
			continue
		}
		// the test must see this store: reachable from the store without another store to the cell
		if !ir.CanReach(fn, ir.PathQuery{From: st, To: iff, Stop: func(in ssa.Instruction) bool {
			s2, ok := in.(*ssa.Store)
			return ok && s2.Addr == ssa.Value(cell) && s2 != st
		}}) && st.Block() != iff.Block() {
			continue
		}
		handled = true
		nonNil := ir.Edge{From: iff.Block(), Succ: 1 - nilSucc}
		ir.EnumPaths(fn, &nonNil, false, func(p ir.BlockPath, end ssa.Instruction) {
			ret, ok := end.(*ssa.Return)
			if !ok || !ir.FeasiblePath(p) {
				return
			}
			rv := ir.ResolveOnPath(ir.ReturnResult(ret, fei), p)
			if ir.DefiniteNil(rv) == ir.IsNil {
				msg = fmt.Sprintf("a path from the error branch returns a nil error at %s", c.pos(ret))
			}
		})
	}
	// returned through the cell directly (spilled results)
	for _, ret := range ir.NormalReturns(fn) {
		if fei < len(ret.Results) {
			if ld, ok := ret.Results[fei].(*ssa.UnOp); ok && ld.X == ssa.Value(cell) {
				if ir.ReturnResult(ret, fei) == st.Val {
					handled = true
				}
			}
		}
	}
	return msg, handled
}

// constStringsComparedWith collects the string constants that value v (by
// SameValue) is compared with (==, !=) in fn, with the If instructions.
type strCompare struct {
	If    *ssa.If
	Const string
	// EqSucc is the successor index taken when v == Const.
	EqSucc int
}

func (c *Ctx) stringCompares(fn *ssa.Function, match func(v ssa.Value) bool) []strCompare {
	var out []strCompare
	for _, iff := range ir.Ifs(fn) {
		op, x, y, ok := ir.Comparison(iff)
		if !ok {
			continue
		}
		var cs string
		var other ssa.Value
		if s, ok := ir.ConstString(y); ok {
			cs, other = s, x
		} else if s, ok := ir.ConstString(x); ok {
			cs, other = s, y
		} else {
			continue
		}
		if !match(other) {
			continue
		}
		switch op.String() {
		case "==":
			out = append(out, strCompare{iff, cs, 0})
		case "!=":
			out = append(out, strCompare{iff, cs, 1})
		}
	}
	return out
}

// hasPathSuffix reports whether some path of v ends with the given field
// names (element selectors are written "*").
func (c *Ctx) hasPathSuffix(v ssa.Value, suffix ...string) bool {
	for _, p := range c.U.PathsOf(v) {
		if pathHasSuffix(p, suffix...) {
			return true
		}
	}
	return false
}

func pathHasSuffix(p ir.Path, suffix ...string) bool {
	if len(p.Sels) < len(suffix) {
		return false
	}
	off := len(p.Sels) - len(suffix)
	for i, want := range suffix {
		s := p.Sels[off+i]
		if want == "*" {
			if s.F != nil {
				return false
			}
			continue
		}
		if s.F == nil || s.F.Name() != want {
			return false
		}
	}
	return true
}

// selNames renders the selectors of a path as a dotted string.
func selNames(p ir.Path) string {
	var parts []string
	for _, s := range p.Sels {
		if s.F == nil {
			parts = append(parts, "*")
		} else {
			parts = append(parts, s.F.Name())
		}
	}
	return strings.Join(parts, ".")
}

// jsonName extracts the JSON member name of a struct field from its tag.
func jsonName(st *types.Struct, i int) (name string, omitempty bool) {
	return tagName(st.Tag(i), "json", st.Field(i).Name())
}

func tagName(tag, key, def string) (string, bool) {
	// minimal struct tag parser (reflect.StructTag.Get semantics)
	for tag != "" {
		i := 0
		for i < len(tag) && tag[i] == ' ' {
			i++
		}
		tag = tag[i:]
		if tag == "" {
			break
		}
		i = 0
		for i < len(tag) && tag[i] > ' ' && tag[i] != ':' && tag[i] != '"' {
			i++
		}
		if i == 0 || i+1 >= len(tag) || tag[i] != ':' || tag[i+1] != '"' {
			break
		}
		name := tag[:i]
		tag = tag[i+1:]
		i = 1
		for i < len(tag) && tag[i] != '"' {
			if tag[i] == '\\' {
				i++
			}
			i++
		}
		if i >= len(tag) {
			break
		}
		val := tag[1:i]
		tag = tag[i+1:]
		if name == key {
			parts := strings.Split(val, ",")
			n := parts[0]
			if n == "" {
				n = def
			}
			om := false
			for _, o := range parts[1:] {
				if o == "omitempty" {
					om = true
				}
			}
			return n, om
		}
	}
	return def, false
}

// documentUntouched: the functions between decoding a Spec document and its
// validation do not write into the decoded document (what is validated, and what
// the version gate sees, is what the file said). Writes into objects allocated
// by the function itself (the cdi.Spec wrapper newSpec builds) are not meant.
func (c *Ctx) documentUntouched(rule string) {
	r := c.R
	for _, name := range []string{"ReadSpec", "ParseSpec", "newSpec", "(*Spec).validate", "validateSpec", "newDevice", "(*Device).validate"} {
		fn := c.U.Func("cdi", name)
		if fn == nil {
			continue
		}
		var bad []string
		for _, w := range c.U.EffectsOf(fn).Writes {
			if _, local := w.Path.Root.(*ssa.Alloc); local && len(w.Path.Sels) <= 1 {
				continue // a field of a wrapper allocated here
			}
			if touches, what := c.touchesSpecMemory(w.Path); touches {
				// the wrapper's own fields (cdi.Spec.path, .vendor, ...) of a fresh wrapper are fine
				if _, local := w.Path.Root.(*ssa.Alloc); local && !strings.HasPrefix(what, "specs-go") {
					continue
				}
				if strings.HasPrefix(what, "specs-go") {
					bad = append(bad, fmt.Sprintf("%s (%s) at %s", w.Path.String(), w.Kind, c.pos(w.Deep)))
				}
			}
		}
		r.Check(rule, "document-untouched:"+name, len(bad) == 0, c.U.Pos(fn.Pos()), name+" does not modify the decoded Spec document before/while it is validated"+ifMsg(strings.Join(bad, "; ")))
	}
}

// noRebuildAfterLookup: an operation answers from ONE state of the index: once it has
// looked a device up, nothing it calls may rebuild the index (refresh replaces every *Spec
// and *Device object; what was resolved before would be mixed with what is resolved after).
func (c *Ctx) noRebuildAfterLookup(rule string, fn *ssa.Function) {
	r := c.R
	if fn == nil {
		return
	}
	// functions that (transitively) assign the index fields of the Cache
	rebuilds := map[*ssa.Function]bool{}
	fns := c.U.RepoFuncs("cdi")
	for _, f := range fns {
		ir.Instrs(f, func(in ssa.Instruction) {
			if st, ok := in.(*ssa.Store); ok {
				if fa, ok := st.Addr.(*ssa.FieldAddr); ok && ir.TypeIs(fa.X.Type(), "cdi", "Cache") {
					switch ir.StructOf(fa.X.Type()).Field(fa.Field).Name() {
					case "devices", "specs":
						rebuilds[f] = true
					}
				}
			}
		})
	}
	for changed := true; changed; {
		changed = false
		for _, f := range fns {
			if rebuilds[f] {
				continue
			}
			for _, call := range ir.Calls(f) {
				for _, g := range c.U.Callees(call) {
					if rebuilds[g] {
						rebuilds[f] = true
						changed = true
					}
				}
			}
		}
	}
	var lookups []ssa.Instruction
	ir.Instrs(fn, func(in ssa.Instruction) {
		if lk, ok := in.(*ssa.Lookup); ok && strings.HasSuffix(c.valueDesc(lk.X), "c.devices") {
			lookups = append(lookups, in)
		}
	})
	n := 0
	for _, call := range ir.Calls(fn) {
		rb := false
		for _, g := range c.U.Callees(call) {
			if rebuilds[g] {
				rb = true
			}
		}
		if !rb {
			continue
		}
		n++
		after := false
		for _, lk := range lookups {
			if ir.CanReach(fn, ir.PathQuery{From: lk, To: call.(ssa.Instruction)}) {
				after = true
			}
		}
		r.Check(rule, "no-rebuild-after-lookup:"+c.calleeName(call), !after && len(lookups) > 0, c.pos(call), c.U.RelName(fn)+" calls "+c.calleeName(call)+", which can rebuild the index, only before its first device lookup: one request is answered from one state of the index")
	}
	if n == 0 && len(lookups) > 0 {
		r.OK(rule, "no-rebuild-after-lookup", c.U.Pos(fn.Pos()), c.U.RelName(fn)+" calls nothing that rebuilds the index")
	}
}
