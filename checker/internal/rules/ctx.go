// Package rules holds the per-property rule sets. Every rule inspects the
// loaded program (never source text or line numbers) and records obligations.
package rules

import (
	"fmt"
	"sort"
	"strings"

	"golang.org/x/tools/go/ssa"

	"cdiverif/internal/ir"
	"cdiverif/internal/report"
)

// Ctx is what a property's rule set gets to work with.
type Ctx struct {
	U    *ir.Universe // the main universe: all library packages + cmd/cdi
	Root string       // repository root
	Tier string
	R    *report.Report
	// LoadOther loads another build configuration / module on demand.
	LoadOther func(dir, goos string, patterns ...string) (*ir.Universe, error)

	descDepth int
	loopMemo  map[*ssa.Function][]*ir.Loop
	phiStack  map[*ssa.Phi]bool
}

// Property describes one registered property rule set.
type Property struct {
	ID          string
	Explanation string
	Assumptions []string
	Run         func(c *Ctx)
	// OtherGOOS: build configurations to re-run Run under in the thorough tier.
	OtherGOOS []string
}

var registry = map[string]*Property{}

func register(p *Property) { registry[p.ID] = p }

// Lookup returns the rule set for a property id.
func Lookup(id string) *Property { return registry[id] }

// IDs lists registered property ids.
func IDs() []string {
	var out []string
	for k := range registry {
		out = append(out, k)
	}
	sort.Strings(out)
	return out
}

// fn looks up a repository function; a missing anchor is an undecided
// obligation of the given rule.
func (c *Ctx) fn(rule, pkg, name string) *ssa.Function {
	f := c.U.Func(pkg, name)
	if f == nil {
		c.R.Undecided(rule, "anchor:"+pkg+"."+name, "", fmt.Sprintf("anchor function %s.%s not found in the loaded program", pkg, name))
	}
	return f
}

// pos renders an instruction position.
func (c *Ctx) pos(in ssa.Instruction) string { return c.U.InstrPos(in) }

// callsTo lists the calls in fn (and optionally its closures) whose callee is
// pkg.name.
func (c *Ctx) callsTo(fn *ssa.Function, withClosures bool, pkg, name string) []ssa.CallInstruction {
	var out []ssa.CallInstruction
	fns := []*ssa.Function{fn}
	if withClosures {
		fns = ir.WithClosures(fn)
	}
	for _, f := range fns {
		for _, call := range ir.Calls(f) {
			if c.U.CalleeIs(call, pkg, name) {
				out = append(out, call)
			}
		}
	}
	return out
}

// calleeName gives a printable name of a call's callee.
func (c *Ctx) calleeName(call ssa.CallInstruction) string {
	if b := ir.BuiltinName(call); b != "" {
		return "builtin " + b
	}
	if f := c.U.StaticCallee(call); f != nil {
		return c.U.ShortName(f)
	}
	cc := call.Common()
	if cc.IsInvoke() {
		return "interface method " + cc.Method.Name()
	}
	fs := c.U.FuncValues(cc.Value)
	if len(fs) > 0 {
		var names []string
		for _, f := range fs {
			names = append(names, c.U.ShortName(f))
		}
		sort.Strings(names)
		return "one of {" + strings.Join(names, ", ") + "}"
	}
	return "dynamic call"
}

func pathsString(ps []ir.Path) string {
	return "{" + strings.Join(ir.PathStrings(ps), ", ") + "}"
}
