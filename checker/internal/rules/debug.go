package rules

import (
	"fmt"

	"golang.org/x/tools/go/ssa"

	"cdiverif/internal/ir"
	"cdiverif/internal/report"
)

// DumpSites prints, for every call and store of fn, its guards and the
// writes attributed to it (debug aid).
func DumpSites(u *ir.Universe, fn *ssa.Function) {
	c := &Ctx{U: u, R: report.New("dbg", "quick", 0)}
	for _, f := range ir.WithClosures(fn) {
		fmt.Println("==", u.ShortName(f))
		eff := u.EffectsOf(f)
		ir.Instrs(f, func(in ssa.Instruction) {
			_, isCall := in.(ssa.CallInstruction)
			_, isStore := in.(*ssa.Store)
			_, isRet := in.(*ssa.Return)
			if !isCall && !isStore && !isRet {
				return
			}
			fmt.Printf("%s  %s\n   guards: %v\n", u.InstrPos(in), in.String(), c.guardsOf(f, in))
			seen := map[string]bool{}
			for _, w := range eff.Writes {
				if w.Site == in && !seen[w.Path.String()] && w.Path.Kind() != ir.RootAlloc {
					seen[w.Path.String()] = true
					fmt.Printf("   writes %s (%s)\n", w.Path, w.Kind)
				}
			}
		})
	}
}

// DumpExprGuards prints exprGuardsOf for every return of fn (debug aid).
func DumpExprGuards(u *ir.Universe, fn *ssa.Function) {
	c := &Ctx{U: u, R: report.New("dbg", "quick", 0)}
	for _, ret := range ir.NormalReturns(fn) {
		var rs []string
		for i := range ret.Results {
			rs = append(rs, c.exprDesc(ir.ReturnResult(ret, i)))
		}
		fmt.Printf("%s return %v\n   guards: %q\n", u.InstrPos(ret), rs, c.exprGuardsOf(fn, ret))
	}
	for _, l := range ir.Loops(fn) {
		if l.Elem != nil {
			fmt.Printf("loop over %s elem %s complete=%v\n", c.exprDesc(l.Over), c.exprDesc(l.Elem), l.Complete)
		}
	}
}
