package rules

import (
	"fmt"
	"go/token"
	"go/types"
	"sort"
	"strings"

	"golang.org/x/tools/go/ssa"

	"cdiverif/internal/ir"
)

// exprDesc prints an SSA value as a source-like expression over parameters,
// constants and calls (calls are not looked through). Used where exact index
// and slice expressions matter (parser, annotations).
func (c *Ctx) exprDesc(v ssa.Value) string {
	return c.exprDesc1(v, 0)
}

func (c *Ctx) loopsOf(fn *ssa.Function) []*ir.Loop {
	if c.loopMemo == nil {
		c.loopMemo = map[*ssa.Function][]*ir.Loop{}
	}
	if l, ok := c.loopMemo[fn]; ok {
		return l
	}
	l := ir.Loops(fn)
	c.loopMemo[fn] = l
	return l
}

func (c *Ctx) exprDesc1(v ssa.Value, depth int) string {
	if depth > 14 {
		return "…"
	}
	d := depth + 1
	// loop induction variables print as idx(collection)
	if in, ok := v.(ssa.Instruction); ok && in.Parent() != nil {
		for _, l := range c.loopsOf(in.Parent()) {
			if l.Index == v && l.Over != nil {
				return "idx(" + c.exprDesc1(l.Over, d) + ")"
			}
		}
	}
	if phi, ok := v.(*ssa.Phi); ok {
		if c.phiStack == nil {
			c.phiStack = map[*ssa.Phi]bool{}
		}
		if c.phiStack[phi] {
			return "↺"
		}
		c.phiStack[phi] = true
		defer delete(c.phiStack, phi)
	}
	switch x := v.(type) {
	case *ssa.Const:
		if s, ok := ir.ConstString(x); ok {
			return fmt.Sprintf("%q", s)
		}
		if i, ok := ir.ConstInt(x); ok {
			return fmt.Sprintf("%d", i)
		}
		if b, ok := ir.ConstBool(x); ok {
			return fmt.Sprintf("%v", b)
		}
		if ir.IsNilConst(x) {
			return "nil"
		}
		return x.String()
	case *ssa.Parameter:
		return "$" + x.Name()
	case *ssa.FreeVar:
		return "$" + x.Name()
	case *ssa.Global:
		return x.Name()
	case *ssa.Call:
		if b := ir.BuiltinName(x); b != "" {
			var args []string
			for _, a := range x.Call.Args {
				args = append(args, c.exprDesc1(a, d))
			}
			return b + "(" + strings.Join(args, ",") + ")"
		}
		name := "call"
		if f := c.U.StaticCallee(x); f != nil {
			name = c.U.RelName(f)
			if !c.U.IsRepoFunc(f) {
				name = f.String()
			}
		} else if x.Call.IsInvoke() {
			name = c.exprDesc1(x.Call.Value, d) + "." + x.Call.Method.Name()
		}
		var args []string
		for _, a := range x.Call.Args {
			args = append(args, c.exprDesc1(a, d))
		}
		return name + "(" + strings.Join(args, ",") + ")"
	case *ssa.Extract:
		switch t := x.Tuple.(type) {
		case *ssa.Call:
			return c.exprDesc1(t, d) + fmt.Sprintf("#%d", x.Index)
		case *ssa.Next:
			if rg, ok := t.Iter.(*ssa.Range); ok {
				switch x.Index {
				case 1:
					return "key(" + c.exprDesc1(rg.X, d) + ")"
				case 2:
					return "elem(" + c.exprDesc1(rg.X, d) + ")"
				}
			}
		case *ssa.Lookup:
			return c.exprDesc1(t.X, d) + "[" + c.exprDesc1(t.Index, d) + "]" + fmt.Sprintf("#%d", x.Index)
		case *ssa.TypeAssert:
			return c.exprDesc1(t.X, d) + ".(" + t.AssertedType.String() + ")" + fmt.Sprintf("#%d", x.Index)
		}
		return "extract"
	case *ssa.UnOp:
		switch x.Op {
		case token.MUL:
			// load: variable or field
			if a, ok := c.U.CellOf(x.X).(*ssa.Alloc); ok {
				vals := c.U.StoredValues(a)
				if len(vals) == 1 {
					return c.exprDesc1(vals[0], d)
				}
				var ds []string
				for _, sv := range vals {
					ds = append(ds, c.exprDesc1(sv, d))
				}
				sort.Strings(ds)
				if len(ds) > 0 {
					return strings.Join(ds, "|")
				}
				return "var:" + a.Comment
			}
			return c.exprDesc1(x.X, d)
		case token.NOT:
			return "!" + c.exprDesc1(x.X, d)
		case token.SUB:
			return "-" + c.exprDesc1(x.X, d)
		case token.ARROW:
			return "<-" + c.exprDesc1(x.X, d)
		}
		return x.Op.String() + c.exprDesc1(x.X, d)
	case *ssa.FieldAddr:
		st := ir.StructOf(x.X.Type())
		// a struct value spilled to a local (a by-value parameter after helper expansion, a
		// range element copy): the field of the value that was stored
		if a, ok := x.X.(*ssa.Alloc); ok && a.Referrers() != nil {
			var whole []ssa.Value
			only := true
			for _, ref := range *a.Referrers() {
				switch y := ref.(type) {
				case *ssa.Store:
					if y.Addr == ssa.Value(a) {
						whole = append(whole, y.Val)
					} else {
						only = false
					}
				case *ssa.FieldAddr:
					if y.Referrers() != nil {
						for _, r2 := range *y.Referrers() {
							if s2, isStore := r2.(*ssa.Store); isStore && s2.Addr == ssa.Value(y) {
								only = false
							}
						}
					}
				case *ssa.UnOp, *ssa.DebugRef:
				default:
					only = false
				}
			}
			if only && len(whole) == 1 {
				return c.exprDesc1(whole[0], d) + "." + st.Field(x.Field).Name()
			}
		}
		return c.exprDesc1(x.X, d) + "." + st.Field(x.Field).Name()
	case *ssa.Field:
		st := ir.StructOf(x.X.Type())
		return c.exprDesc1(x.X, d) + "." + st.Field(x.Field).Name()
	case *ssa.IndexAddr:
		if c.isLoopIndexOf(x.Index, x.X) {
			return "elem(" + c.exprDesc1(x.X, d) + ")"
		}
		return c.exprDesc1(x.X, d) + "[" + c.exprDesc1(x.Index, d) + "]"
	case *ssa.Index:
		if c.isLoopIndexOf(x.Index, x.X) {
			return "elem(" + c.exprDesc1(x.X, d) + ")"
		}
		return c.exprDesc1(x.X, d) + "[" + c.exprDesc1(x.Index, d) + "]"
	case *ssa.Lookup:
		return c.exprDesc1(x.X, d) + "[" + c.exprDesc1(x.Index, d) + "]"
	case *ssa.Slice:
		if a, ok := x.X.(*ssa.Alloc); ok && a.Comment == "varargs" && x.Low == nil && x.High == nil {
			// variadic argument list: print the elements in order
			type el struct {
				i int64
				s string
			}
			var els []el
			if a.Referrers() != nil {
				for _, ref := range *a.Referrers() {
					ia, ok := ref.(*ssa.IndexAddr)
					if !ok || ia.Referrers() == nil {
						continue
					}
					idx, _ := ir.ConstInt(ia.Index)
					for _, r2 := range *ia.Referrers() {
						if st, ok := r2.(*ssa.Store); ok && st.Addr == ssa.Value(ia) {
							els = append(els, el{idx, c.exprDesc1(st.Val, d)})
						}
					}
				}
			}
			sort.Slice(els, func(i, j int) bool { return els[i].i < els[j].i })
			var parts []string
			for _, e := range els {
				parts = append(parts, e.s)
			}
			return "[" + strings.Join(parts, ",") + "]"
		}
		lo, hi := "", ""
		if x.Low != nil {
			lo = c.exprDesc1(x.Low, d)
		}
		if x.High != nil {
			hi = c.exprDesc1(x.High, d)
		}
		return c.exprDesc1(x.X, d) + "[" + lo + ":" + hi + "]"
	case *ssa.BinOp:
		return "(" + c.exprDesc1(x.X, d) + " " + x.Op.String() + " " + c.exprDesc1(x.Y, d) + ")"
	case *ssa.Convert:
		return typeShort(x.Type()) + "(" + c.exprDesc1(x.X, d) + ")"
	case *ssa.ChangeType:
		return c.exprDesc1(x.X, d)
	case *ssa.MakeInterface:
		return c.exprDesc1(x.X, d)
	case *ssa.ChangeInterface:
		return c.exprDesc1(x.X, d)
	case *ssa.TypeAssert:
		return c.exprDesc1(x.X, d) + ".(" + x.AssertedType.String() + ")"
	case *ssa.Phi:
		var ds []string
		for _, e := range phiLeaves(x) {
			ds = append(ds, c.exprDesc1(e, d))
		}
		sort.Strings(ds)
		return "phi(" + strings.Join(ds, "|") + ")"
	case *ssa.Alloc:
		if x.Comment != "" {
			return "&" + x.Comment
		}
		return "&local"
	case *ssa.MakeMap:
		return "make(map)"
	case *ssa.MakeSlice:
		return "make(slice," + c.exprDesc1(x.Len, d) + ")"
	case *ssa.MakeClosure:
		return "closure:" + x.Fn.Name()
	case *ssa.Function:
		return "func:" + x.Name()
	case *ssa.Range:
		return "range(" + c.exprDesc1(x.X, d) + ")"
	case *ssa.Next:
		return "next"
	}
	return fmt.Sprintf("%T", v)
}

func typeShort(t types.Type) string {
	s := t.String()
	if i := strings.LastIndex(s, "/"); i >= 0 {
		s = s[i+1:]
	}
	if s == "int32" {
		return "rune"
	}
	if s == "uint8" {
		return "byte"
	}
	return s
}

// exprCond decodes an If condition with exprDesc operands.
func (c *Ctx) exprCond(iff *ssa.If, succ int, loops []*ir.Loop) string {
	for _, l := range loops {
		if l.Header == iff.Block() {
			if succ == l.Body.Succ {
				return "loop(" + c.exprDesc(l.Over) + ")"
			}
			return "loopdone(" + c.exprDesc(l.Over) + ")"
		}
	}
	neg := func(s string) string {
		if succ == 0 {
			return s
		}
		if strings.HasPrefix(s, "!") {
			return s[1:]
		}
		return "!" + s
	}
	if b, ok := iff.Cond.(*ssa.BinOp); ok {
		op := b.Op
		x, y := b.X, b.Y
		negOp := map[token.Token]token.Token{token.EQL: token.NEQ, token.NEQ: token.EQL, token.LSS: token.GEQ,
			token.GEQ: token.LSS, token.GTR: token.LEQ, token.LEQ: token.GTR}
		if _, cmp := negOp[op]; cmp {
			if succ == 1 {
				op = negOp[op]
			}
			if _, isConst := x.(*ssa.Const); isConst {
				x, y = y, x
				switch op {
				case token.LSS:
					op = token.GTR
				case token.GTR:
					op = token.LSS
				case token.LEQ:
					op = token.GEQ
				case token.GEQ:
					op = token.LEQ
				}
			}
			return c.exprDesc(x) + " " + op.String() + " " + c.exprDesc(y)
		}
	}
	return neg(c.exprDesc(iff.Cond))
}

// exprGuardsOf is guardsOf with exprCond descriptions.
func (c *Ctx) exprGuardsOf(fn *ssa.Function, at ssa.Instruction) []string {
	loops := ir.Loops(fn)
	var out []string
	for _, iff := range ir.Ifs(fn) {
		b := iff.Block()
		if b.Succs[0] == b.Succs[1] {
			continue
		}
		for k := 0; k < 2; k++ {
			if ir.OnlyViaEdge(fn, at, ir.Edge{From: b, Succ: k}) && ir.CanReach(fn, ir.PathQuery{To: at}) {
				out = append(out, c.exprCond(iff, k, loops))
			}
		}
	}
	sort.Strings(out)
	return out
}

// ---------------------------------------------------------------------------
// Rune sets: abstract evaluation of character-class code. A set of int32
// values is a sorted list of disjoint closed intervals.

type runeSet [][2]int64

const (
	runeMin = -1 << 31
	runeMax = 1<<31 - 1
)

func fullRunes() runeSet { return runeSet{{runeMin, runeMax}} }

func (a runeSet) intersect(b runeSet) runeSet {
	var out runeSet
	for _, x := range a {
		for _, y := range b {
			lo, hi := x[0], x[1]
			if y[0] > lo {
				lo = y[0]
			}
			if y[1] < hi {
				hi = y[1]
			}
			if lo <= hi {
				out = append(out, [2]int64{lo, hi})
			}
		}
	}
	return out.norm()
}

func (a runeSet) union(b runeSet) runeSet {
	return append(append(runeSet{}, a...), b...).norm()
}

func (a runeSet) complement() runeSet {
	a = a.norm()
	var out runeSet
	cur := int64(runeMin)
	for _, x := range a {
		if x[0] > cur {
			out = append(out, [2]int64{cur, x[0] - 1})
		}
		cur = x[1] + 1
	}
	if cur <= runeMax {
		out = append(out, [2]int64{cur, runeMax})
	}
	return out
}

func (a runeSet) norm() runeSet {
	if len(a) == 0 {
		return nil
	}
	s := append(runeSet{}, a...)
	sort.Slice(s, func(i, j int) bool { return s[i][0] < s[j][0] })
	out := runeSet{s[0]}
	for _, x := range s[1:] {
		last := &out[len(out)-1]
		if x[0] <= last[1]+1 {
			if x[1] > last[1] {
				last[1] = x[1]
			}
		} else {
			out = append(out, x)
		}
	}
	return out
}

func (a runeSet) equal(b runeSet) bool {
	a, b = a.norm(), b.norm()
	if len(a) != len(b) {
		return false
	}
	for i := range a {
		if a[i] != b[i] {
			return false
		}
	}
	return true
}

func (a runeSet) String() string {
	var parts []string
	for _, x := range a.norm() {
		show := func(v int64) string {
			if v >= 33 && v < 127 {
				return fmt.Sprintf("'%c'", rune(v))
			}
			return fmt.Sprintf("%d", v)
		}
		if x[0] == x[1] {
			parts = append(parts, show(x[0]))
		} else {
			parts = append(parts, show(x[0])+"-"+show(x[1]))
		}
	}
	return "{" + strings.Join(parts, ",") + "}"
}

func runesOf(spec string) runeSet {
	// spec like "A-Z,a-z,0-9,_,-,."
	var out runeSet
	for _, p := range strings.Split(spec, ",") {
		if p == "" {
			continue
		}
		rs := []rune(p)
		if len(rs) == 3 && rs[1] == '-' {
			out = append(out, [2]int64{int64(rs[0]), int64(rs[2])})
		} else {
			out = append(out, [2]int64{int64(rs[0]), int64(rs[0])})
		}
	}
	return out.norm()
}

// constraintOn: the set of values of x for which the condition takes the
// given successor, when the condition is a comparison of x with a constant or
// a call of a character-class function of the repository on x (whose accepted
// set is computed recursively). ok=false when the condition does not
// constrain x in a way this evaluation understands.
func (c *Ctx) constraintOn(x ssa.Value, cond ssa.Value, taken bool, p ir.BlockPath, depth int) (runeSet, bool) {
	cond = ir.ResolveOnPath(cond, p)
	if b, ok := ir.ConstBool(cond); ok {
		if b == taken {
			return fullRunes(), true
		}
		return nil, true
	}
	switch y := cond.(type) {
	case *ssa.BinOp:
		var k int64
		var op token.Token
		if sameRune(y.X, x) {
			kk, ok := ir.ConstInt(y.Y)
			if !ok {
				return nil, false
			}
			k, op = kk, y.Op
		} else if sameRune(y.Y, x) {
			kk, ok := ir.ConstInt(y.X)
			if !ok {
				return nil, false
			}
			k = kk
			op = map[token.Token]token.Token{token.LSS: token.GTR, token.GTR: token.LSS, token.LEQ: token.GEQ, token.GEQ: token.LEQ, token.EQL: token.EQL, token.NEQ: token.NEQ}[y.Op]
		} else {
			return nil, false
		}
		var s runeSet
		switch op {
		case token.EQL:
			s = runeSet{{k, k}}
		case token.NEQ:
			s = runeSet{{k, k}}.complement()
		case token.LSS:
			s = runeSet{{runeMin, k - 1}}
		case token.LEQ:
			s = runeSet{{runeMin, k}}
		case token.GTR:
			s = runeSet{{k + 1, runeMax}}
		case token.GEQ:
			s = runeSet{{k, runeMax}}
		default:
			return nil, false
		}
		if !taken {
			s = s.complement()
		}
		return s, true
	case *ssa.Call:
		f := c.U.StaticCallee(y)
		// strings.ContainsRune(<constant>, x): membership in the characters of the constant
		if f != nil && f.String() == "strings.ContainsRune" && len(y.Call.Args) == 2 && sameRune(y.Call.Args[1], x) {
			if cs, ok := ir.ConstString(ir.ResolveOnPath(y.Call.Args[0], p)); ok {
				var s runeSet
				for _, r := range cs {
					s = append(s, [2]int64{int64(r), int64(r)})
				}
				s = s.norm()
				if !taken {
					s = s.complement()
				}
				return s, true
			}
			return nil, false
		}
		if f == nil || !c.U.IsRepoFunc(f) || len(y.Call.Args) != 1 || !sameRune(y.Call.Args[0], x) || depth > 4 {
			return nil, false
		}
		s, ok := c.acceptedRunes(f, depth+1)
		if !ok {
			return nil, false
		}
		if !taken {
			s = s.complement()
		}
		return s, true
	case *ssa.UnOp:
		if y.Op == token.NOT {
			return c.constraintOn(x, y.X, !taken, p, depth)
		}
	}
	return nil, false
}

func sameRune(a, b ssa.Value) bool {
	strip := func(v ssa.Value) ssa.Value {
		for i := 0; i < 4; i++ {
			switch y := v.(type) {
			case *ssa.Convert:
				v = y.X
			case *ssa.ChangeType:
				v = y.X
			default:
				return v
			}
		}
		return v
	}
	return strip(a) == strip(b)
}

// acceptedRunes: for a repository function func(rune) bool made of
// comparisons with constants and calls of other such functions, the set of
// arguments for which it returns true (path enumeration with interval
// constraints; exact for such code).
func (c *Ctx) acceptedRunes(fn *ssa.Function, depth int) (runeSet, bool) {
	if len(fn.Params) != 1 {
		return nil, false
	}
	x := fn.Params[0]
	var acc runeSet
	ok := true
	complete := ir.EnumPaths(fn, nil, false, func(p ir.BlockPath, end ssa.Instruction) {
		set := fullRunes()
		for i := 0; i+1 < len(p); i++ {
			b := p[i]
			iff, isIf := b.Instrs[len(b.Instrs)-1].(*ssa.If)
			if !isIf || b.Succs[0] == b.Succs[1] {
				continue
			}
			taken := p[i+1] == b.Succs[0]
			s, understood := c.constraintOn(x, iff.Cond, taken, p[:i+1], depth)
			if !understood {
				ok = false
				return
			}
			set = set.intersect(s)
		}
		if len(set) == 0 {
			return
		}
		ret := end.(*ssa.Return)
		rv := ir.ResolveOnPath(ret.Results[0], p)
		if b, isConst := ir.ConstBool(rv); isConst {
			if b {
				acc = acc.union(set)
			}
			return
		}
		// returned condition value: a comparison or call evaluated at the end
		s, understood := c.constraintOn(x, rv, true, p, depth)
		if !understood {
			ok = false
			return
		}
		acc = acc.union(set.intersect(s))
	})
	return acc.norm(), ok && complete
}

// isLoopIndexOf: idx is the induction variable of a complete loop over coll.
func (c *Ctx) isLoopIndexOf(idx, coll ssa.Value) bool {
	in, ok := idx.(ssa.Instruction)
	if !ok || in.Parent() == nil {
		return false
	}
	for _, l := range c.loopsOf(in.Parent()) {
		if l.Index == idx && l.Complete && (l.Over == coll || c.exprDesc(l.Over) == c.exprDesc(coll)) {
			return true
		}
	}
	return false
}
