package rules

import (
	"fmt"
	"go/token"
	"sort"
	"strings"

	"golang.org/x/tools/go/ssa"

	"cdiverif/internal/ir"
)

// guard is one decoded branch condition that an instruction depends on.
type guard struct {
	// Desc is a canonical description, e.g. "nonnil(param:e.ContainerEdits.IntelRdt)",
	// "nonempty(param:e.ContainerEdits.Env)", "param:x.f in {b,c}", "local:dev.UID == nil",
	// "param:v > 0", "loop(param:e.ContainerEdits.Mounts)", "ok(call:fillMissingInfo)".
	Desc string
	If   *ssa.If
}

// valueDesc renders the access paths of a value canonically.
func (c *Ctx) valueDesc(v ssa.Value) string {
	if s, ok := ir.ConstString(v); ok {
		return fmt.Sprintf("%q", s)
	}
	if i, ok := ir.ConstInt(v); ok {
		return fmt.Sprintf("%d", i)
	}
	if call, ok := v.(*ssa.Call); ok {
		if b := ir.BuiltinName(call); b == "len" || b == "cap" {
			return b + "(" + c.valueDesc(call.Call.Args[0]) + ")"
		}
		// calls into code that is not looked through: name the callee and arguments
		if f := call.Call.StaticCallee(); f != nil && !c.U.Transparent(f) && c.descDepth < 3 {
			c.descDepth++
			var args []string
			for _, a := range call.Call.Args {
				args = append(args, c.valueDesc(a))
			}
			c.descDepth--
			return f.String() + "(" + strings.Join(args, ",") + ")"
		}
	}
	ps := ir.PathStrings(c.U.PathsOf(v))
	if len(ps) == 0 {
		return "?"
	}
	// drop the pseudo-identity of struct locals when a better path exists
	return strings.Join(ps, "|")
}

// condDesc decodes the condition of an If for the given successor.
func (c *Ctx) condDesc(iff *ssa.If, succ int, loops []*ir.Loop) string {
	for _, l := range loops {
		if l.Header == iff.Block() {
			if succ == l.Body.Succ {
				return "loop(" + c.valueDesc(l.Over) + ")"
			}
			return "loopdone(" + c.valueDesc(l.Over) + ")"
		}
	}
	if v, nilSucc, ok := ir.NilTest(iff); ok {
		d := c.valueDesc(v)
		if call, isCall := v.(*ssa.Call); isCall && ir.IsErrorType(v.Type()) {
			d = "err:" + c.calleeName(call)
		} else if ex, isEx := v.(*ssa.Extract); isEx && ir.IsErrorType(v.Type()) {
			if call, ok := ex.Tuple.(*ssa.Call); ok {
				d = "err:" + c.calleeName(call)
			}
		}
		if succ == nilSucc {
			return "nil(" + d + ")"
		}
		return "nonnil(" + d + ")"
	}
	if v, emptySucc, ok := ir.EmptyTest(iff); ok {
		if succ == emptySucc {
			return "empty(" + c.valueDesc(v) + ")"
		}
		return "nonempty(" + c.valueDesc(v) + ")"
	}
	if op, x, y, ok := ir.Comparison(iff); ok {
		neg := map[token.Token]token.Token{token.EQL: token.NEQ, token.NEQ: token.EQL, token.LSS: token.GEQ,
			token.GEQ: token.LSS, token.GTR: token.LEQ, token.LEQ: token.GTR}
		if succ == 1 {
			op = neg[op]
		}
		// constants on the right
		if _, isConst := x.(*ssa.Const); isConst {
			x, y = y, x
			switch op {
			case token.LSS:
				op = token.GTR
			case token.GTR:
				op = token.LSS
			case token.LEQ:
				op = token.GEQ
			case token.GEQ:
				op = token.LEQ
			}
		}
		// comparisons with the empty string are emptiness tests
		if sv, ok := ir.ConstString(y); ok && sv == "" {
			if op == token.EQL {
				return "empty(" + c.valueDesc(x) + ")"
			}
			if op == token.NEQ {
				return "nonempty(" + c.valueDesc(x) + ")"
			}
		}
		// normalise unsigned/positive idioms: x >= 1  ==  x > 0 ; x != 0 stays
		if i, ok := ir.ConstInt(y); ok {
			if op == token.GEQ && i == 1 {
				return c.valueDesc(x) + " > 0"
			}
			if op == token.LSS && i == 1 {
				return c.valueDesc(x) + " <= 0"
			}
		}
		return c.valueDesc(x) + " " + op.String() + " " + c.valueDesc(y)
	}
	if ex, ok := iff.Cond.(*ssa.Extract); ok && ex.Index == 1 {
		switch t := ex.Tuple.(type) {
		case *ssa.Lookup:
			// a literal table of constant strings that is only consulted: membership is a
			// condition on the key (the same as a chain of comparisons or a switch)
			if mm, isMake := t.X.(*ssa.MakeMap); isMake {
				if ks, ok := c.constTableKeys(mm); ok {
					kd := c.valueDesc(t.Index)
					if succ == 0 {
						return kd + " in {" + strings.Join(ks, ",") + "}"
					}
					var parts []string
					for _, k := range ks {
						parts = append(parts, kd+" != "+k)
					}
					return strings.Join(parts, "\x1f")
				}
			}
			if succ == 0 {
				return "present(" + c.valueDesc(t.X) + "[" + c.valueDesc(t.Index) + "])"
			}
			return "absent(" + c.valueDesc(t.X) + "[" + c.valueDesc(t.Index) + "])"
		case *ssa.TypeAssert:
			if succ == 0 {
				return "istype(" + c.valueDesc(t.X) + "," + t.AssertedType.String() + ")"
			}
			return "nottype(" + c.valueDesc(t.X) + "," + t.AssertedType.String() + ")"
		case *ssa.UnOp:
			if succ == 0 {
				return "received(" + c.valueDesc(t.X) + ")"
			}
			return "closed(" + c.valueDesc(t.X) + ")"
		}
	}
	if call, ok := iff.Cond.(*ssa.Call); ok {
		n := c.calleeName(call)
		var args []string
		if call.Call.IsInvoke() {
			n = call.Call.Method.Name()
			args = append(args, c.valueDesc(call.Call.Value))
		}
		for _, a := range call.Call.Args {
			args = append(args, c.valueDesc(a))
		}
		d := n + "(" + strings.Join(args, ",") + ")"
		// fs.FileInfo: IsDir() is documented as the abbreviation of Mode().IsDir()
		if f := call.Call.StaticCallee(); f != nil && f.Name() == "IsDir" && len(call.Call.Args) == 1 && strings.Contains(f.String(), "io/fs.FileMode") {
			if inner, ok := call.Call.Args[0].(*ssa.Call); ok && inner.Call.IsInvoke() && inner.Call.Method.Name() == "Mode" {
				d = "IsDir(" + c.valueDesc(inner.Call.Value) + ")"
			}
		}
		if succ == 0 {
			return d
		}
		return "!" + d
	}
	if succ == 0 {
		return "cond:" + c.valueDesc(iff.Cond)
	}
	return "!cond:" + c.valueDesc(iff.Cond)
}

// constTableKeys: mm is a map literal whose keys are constant strings and which
// is never updated after its construction nor handed out; returns the quoted,
// sorted keys.
func (c *Ctx) constTableKeys(mm *ssa.MakeMap) ([]string, bool) {
	keys := c.U.MapLiteralKeys(mm)
	if len(keys) == 0 || mm.Referrers() == nil {
		return nil, false
	}
	nUpd := 0
	for _, r := range *mm.Referrers() {
		switch r.(type) {
		case *ssa.MapUpdate:
			nUpd++
		case *ssa.Lookup, *ssa.DebugRef:
		default:
			return nil, false
		}
	}
	if nUpd != len(keys) {
		return nil, false
	}
	var out []string
	for _, k := range keys {
		s, ok := ir.ConstString(k)
		if !ok {
			return nil, false
		}
		out = append(out, fmt.Sprintf("%q", s))
	}
	sort.Strings(out)
	return out, true
}

// negDesc returns the decoded condition of the opposite branch.
func negDesc(d string) string {
	for _, pair := range [][2]string{{"nonempty(", "empty("}, {"nonnil(", "nil("}, {"present(", "absent("}, {"loop(", "loopdone("}} {
		if strings.HasPrefix(d, pair[0]) {
			return pair[1] + strings.TrimPrefix(d, pair[0])
		}
		if strings.HasPrefix(d, pair[1]) {
			return pair[0] + strings.TrimPrefix(d, pair[1])
		}
	}
	if strings.HasPrefix(d, "!") {
		return d[1:]
	}
	// comparisons are decoded per edge: the other edge of `x == y` reads `x != y`
	for _, pair := range [][2]string{{" == ", " != "}, {" != ", " == "}} {
		if strings.Count(d, pair[0]) == 1 && !strings.Contains(d, pair[1]) && !strings.Contains(d, "(") {
			return strings.Replace(d, pair[0], pair[1], 1)
		}
	}
	return "!" + d
}

// contradictedEdges returns a Cut function for path queries that start at
// `from`: a branch edge is cut when its decoded condition is the opposite of a
// condition that holds at `from` (being inside the body of a loop over X counts
// as X being non-empty). The conditions name values by access path, so this is
// only used where the function does not modify those values (Spec edits).
func (c *Ctx) contradictedEdges(fn *ssa.Function, from ssa.Instruction) func(ir.Edge) bool {
	facts := map[string]bool{}
	for _, g := range c.guardsOf(fn, from) {
		facts[g] = true
		if strings.HasPrefix(g, "loop(") {
			facts["nonempty("+strings.TrimPrefix(g, "loop(")] = true
		}
	}
	loops := ir.Loops(fn)
	memo := map[ir.Edge]bool{}
	return func(e ir.Edge) bool {
		if v, ok := memo[e]; ok {
			return v
		}
		res := false
		if iff, ok := e.From.Instrs[len(e.From.Instrs)-1].(*ssa.If); ok && e.From.Succs[0] != e.From.Succs[1] {
			d := c.condDesc(iff, e.Succ, loops)
			if !strings.HasPrefix(d, "loop") && facts[negDesc(d)] {
				res = true
			}
		}
		memo[e] = res
		return res
	}
}

// guardsOf lists the branch conditions instruction `at` depends on: every If
// of the function one of whose edges lies on all paths from the entry to
// `at`, plus disjunctions of equality tests of one value against constants
// (x == "b" || x == "c") whose edges together lie on all paths.
func (c *Ctx) guardsOf(fn *ssa.Function, at ssa.Instruction) []string {
	loops := ir.Loops(fn)
	var out []string
	handled := map[*ssa.If]bool{}
	ifs := ir.Ifs(fn)
	for _, iff := range ifs {
		b := iff.Block()
		if b.Succs[0] == b.Succs[1] {
			continue
		}
		for k := 0; k < 2; k++ {
			if ir.OnlyViaEdge(fn, at, ir.Edge{From: b, Succ: k}) && ir.CanReach(fn, ir.PathQuery{To: at}) {
				out = append(out, strings.Split(c.condDesc(iff, k, loops), "\x1f")...)
				handled[iff] = true
			}
		}
	}
	// disjunctions of const comparisons on one value
	type grp struct {
		edges  []ir.Edge
		consts []string
		val    string
	}
	groups := map[string]*grp{}
	for _, iff := range ifs {
		if handled[iff] {
			continue
		}
		op, x, y, ok := ir.Comparison(iff)
		if !ok || (op != token.EQL && op != token.NEQ) {
			continue
		}
		var cs string
		var other ssa.Value
		if s, ok := ir.ConstString(y); ok {
			cs, other = fmt.Sprintf("%q", s), x
		} else if s, ok := ir.ConstString(x); ok {
			cs, other = fmt.Sprintf("%q", s), y
		} else {
			continue
		}
		d := c.valueDesc(other)
		g := groups[d]
		if g == nil {
			g = &grp{val: d}
			groups[d] = g
		}
		succ := 0
		if op == token.NEQ {
			succ = 1
		}
		g.edges = append(g.edges, ir.Edge{From: iff.Block(), Succ: succ})
		g.consts = append(g.consts, cs)
	}
	for _, g := range groups {
		if len(g.edges) < 2 {
			continue
		}
		// minimal subset is not needed: use those edges from which `at` is reachable
		var es []ir.Edge
		var cs []string
		for i, e := range g.edges {
			e := e
			if ir.CanReach(fn, ir.PathQuery{FromEdge: &e, To: at}) {
				es = append(es, e)
				cs = append(cs, g.consts[i])
			}
		}
		if len(es) >= 2 && ir.OnlyViaEdges(fn, at, es) {
			sort.Strings(cs)
			out = append(out, g.val+" in {"+strings.Join(cs, ",")+"}")
		}
	}
	sort.Strings(out)
	return out
}

// minus removes the elements of b from a.
func minus(a []string, b ...string) []string {
	drop := map[string]bool{}
	for _, x := range b {
		drop[x] = true
	}
	var out []string
	for _, x := range a {
		if !drop[x] {
			out = append(out, x)
		}
	}
	return out
}

func sameSet(a, b []string) bool {
	if len(a) != len(b) {
		return false
	}
	x := append([]string{}, a...)
	y := append([]string{}, b...)
	sort.Strings(x)
	sort.Strings(y)
	for i := range x {
		if x[i] != y[i] {
			return false
		}
	}
	return true
}

// siteWrites returns the selector strings of the writes attributed to `site`
// in fn's effect summary that are rooted at parameter par.
func (c *Ctx) siteWrites(fn *ssa.Function, site ssa.Instruction, par *ssa.Parameter) []string {
	set := map[string]bool{}
	for _, w := range c.U.EffectsOf(fn).Writes {
		if w.Site == site && rootedAt(w.Path, par) {
			set[selNames(w.Path)] = true
		}
	}
	var out []string
	for k := range set {
		out = append(out, k)
	}
	sort.Strings(out)
	return out
}

// edgeGuards: the conditions under which control flows from block `from`
// directly to block `to`: the guards of from's terminator plus, when that
// terminator is a two-way branch, the condition selecting `to`.
func (c *Ctx) edgeGuards(fn *ssa.Function, from, to *ssa.BasicBlock) []string {
	term := from.Instrs[len(from.Instrs)-1]
	out := c.guardsOf(fn, term)
	if iff, ok := term.(*ssa.If); ok && from.Succs[0] != from.Succs[1] {
		for k := 0; k < 2; k++ {
			if from.Succs[k] == to {
				out = append(out, c.condDesc(iff, k, ir.Loops(fn)))
			}
		}
	}
	sort.Strings(out)
	return out
}
