package rules

import (
	_ "embed"
	"encoding/json"
	"strings"

	"cdiverif/internal/ir"
)

// known_funcs.txt: the top-level functions of the repository at the time the
// rules were written (regenerate with `cdiverif -dump knownfuncs`). A function
// that is not listed is a helper introduced later; calls to it are expanded in
// place before the rules run (ir/inline.go).
//
//go:embed known_funcs.txt
var knownFuncsText string

// KnownFuncs returns the set of known function keys.
func KnownFuncs() map[string]bool {
	m := map[string]bool{}
	for _, l := range strings.Split(knownFuncsText, "\n") {
		l = strings.TrimSpace(l)
		if l != "" && !strings.HasPrefix(l, "#") {
			key, _, _ := strings.Cut(l, "\t")
			m[key] = true
		}
	}
	return m
}

// KnownSigs returns the recorded signature of every known top-level function.
func KnownSigs() map[string]string {
	m := map[string]string{}
	for _, l := range strings.Split(knownFuncsText, "\n") {
		l = strings.TrimSpace(l)
		if l != "" && !strings.HasPrefix(l, "#") {
			if key, sig, ok := strings.Cut(l, "\t"); ok {
				m[key] = sig
			}
		}
	}
	return m
}

// known_symbols.json: types (with fields), functions and methods (with signatures and
// parameter names), package-level variables and closures of the repository at the time
// the rules were written (regenerate with `cdiverif -dump knownsymbols`); used by the
// rename normalisation (ir/renames.go).
//
//go:embed known_symbols.json
var knownSymbolsText string

// KnownSymbols returns the recorded symbol table.
func KnownSymbols() *ir.KnownSymbols {
	ks := &ir.KnownSymbols{}
	if err := json.Unmarshal([]byte(knownSymbolsText), ks); err != nil || len(ks.Pkgs) == 0 {
		return nil
	}
	return ks
}
