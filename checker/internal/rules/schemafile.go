package rules

import (
	"encoding/json"
	"fmt"
	"go/ast"
	"os"
	"path/filepath"
	"regexp"
	"sort"
	"strings"

	"cdiverif/internal/ir"
)

// The shipped JSON schema files are part of the source: they are parsed as
// data (never executed) and checked structurally.

type schemaFiles struct {
	dir      string
	docs     map[string]interface{} // file name -> parsed document
	pattern  string                 // //go:embed pattern of the schema package
	builtin  string                 // file named by builtinSchemaFile
	problems []string
}

// loadSchemaFiles reads schema/*.json and the embed pattern / builtin file
// name from the schema package's source.
func loadSchemaFiles(c *Ctx, rule string) *schemaFiles {
	sf := &schemaFiles{dir: filepath.Join(c.Root, "schema"), docs: map[string]interface{}{}}
	p := c.U.Pkgs[ir.PkgAlias["schema"]]
	if p == nil {
		c.R.Undecided(rule, "anchor:schema-package", "", "schema package not loaded")
		return nil
	}
	for _, f := range p.Syntax {
		for _, cg := range f.Comments {
			for _, cm := range cg.List {
				if strings.HasPrefix(cm.Text, "//go:embed ") {
					sf.pattern = strings.TrimSpace(strings.TrimPrefix(cm.Text, "//go:embed "))
				}
			}
		}
		ast.Inspect(f, func(n ast.Node) bool {
			vs, ok := n.(*ast.ValueSpec)
			if !ok {
				return true
			}
			for i, name := range vs.Names {
				if name.Name == "builtinSchemaFile" && i < len(vs.Values) {
					if bl, ok := vs.Values[i].(*ast.BasicLit); ok {
						sf.builtin = strings.Trim(bl.Value, `"`)
					}
				}
			}
			return true
		})
	}
	if sf.pattern == "" || sf.builtin == "" {
		c.R.Undecided(rule, "anchor:embed", "", fmt.Sprintf("embed pattern (%q) or builtinSchemaFile (%q) not found in the schema package", sf.pattern, sf.builtin))
		return nil
	}
	matches, _ := filepath.Glob(filepath.Join(sf.dir, sf.pattern))
	for _, m := range matches {
		data, err := os.ReadFile(m)
		if err != nil {
			sf.problems = append(sf.problems, "cannot read "+m+": "+err.Error())
			continue
		}
		var doc interface{}
		if err := json.Unmarshal(data, &doc); err != nil {
			sf.problems = append(sf.problems, filepath.Base(m)+" is not valid JSON: "+err.Error())
			continue
		}
		sf.docs[filepath.Base(m)] = doc
	}
	return sf
}

// builtinFile returns the embedded file name the builtin schema URI names.
func (sf *schemaFiles) builtinFile() string {
	return strings.TrimPrefix(strings.TrimPrefix(sf.builtin, "file://"), "/")
}

// resolve follows a $ref from inside file `from`. It returns the target
// node, the file it lives in and an error text.
func (sf *schemaFiles) resolve(from, ref string) (interface{}, string, string) {
	file, ptr := from, ref
	if i := strings.Index(ref, "#"); i >= 0 {
		if i > 0 {
			file = ref[:i]
		}
		ptr = ref[i+1:]
	} else {
		file, ptr = ref, ""
	}
	file = strings.TrimPrefix(file, "file:///")
	doc, ok := sf.docs[file]
	if !ok {
		return nil, file, fmt.Sprintf("$ref %q: file %q is not among the embedded schema files", ref, file)
	}
	cur := doc
	if ptr != "" {
		if !strings.HasPrefix(ptr, "/") {
			return nil, file, fmt.Sprintf("$ref %q: JSON pointer %q does not start with '/'", ref, ptr)
		}
		for _, tok := range strings.Split(ptr[1:], "/") {
			tok = strings.ReplaceAll(strings.ReplaceAll(tok, "~1", "/"), "~0", "~")
			m, ok := cur.(map[string]interface{})
			if !ok {
				return nil, file, fmt.Sprintf("$ref %q: %q is not an object", ref, tok)
			}
			cur, ok = m[tok]
			if !ok {
				return nil, file, fmt.Sprintf("$ref %q: no member %q", ref, tok)
			}
		}
	}
	return cur, file, ""
}

var draft07Types = map[string]bool{"object": true, "array": true, "string": true, "integer": true, "number": true, "boolean": true, "null": true}

// knownKeywords: draft-07 keywords with the JSON kind their value must have.
var knownKeywords = map[string]string{
	"$schema": "string", "$id": "string", "$ref": "string", "$comment": "string", "description": "string", "title": "string",
	"type": "string|array", "properties": "object", "patternProperties": "object", "additionalProperties": "bool|object",
	"required": "array", "items": "object|array", "definitions": "object", "minimum": "number", "maximum": "number",
	"exclusiveMinimum": "number", "exclusiveMaximum": "number", "minLength": "number", "maxLength": "number", "pattern": "string",
	"enum": "array", "const": "any", "minItems": "number", "maxItems": "number", "uniqueItems": "bool", "default": "any", "examples": "array",
	"allOf": "array", "anyOf": "array", "oneOf": "array", "not": "object", "if": "object", "then": "object", "else": "object",
	"format": "string", "minProperties": "number", "maxProperties": "number", "propertyNames": "object", "dependencies": "object",
	"contains": "object", "additionalItems": "bool|object", "multipleOf": "number",
}

func jsonKind(v interface{}) string {
	switch v.(type) {
	case map[string]interface{}:
		return "object"
	case []interface{}:
		return "array"
	case string:
		return "string"
	case float64:
		return "number"
	case bool:
		return "bool"
	case nil:
		return "null"
	}
	return "?"
}

type schemaIssue struct {
	where, text string
	note        bool
}

// lint walks a schema node and reports ill-typed keywords, unresolvable
// references and (as notes) unknown keywords.
func (sf *schemaFiles) lint(file string, node interface{}, where string, out *[]schemaIssue, refs *int) {
	m, ok := node.(map[string]interface{})
	if !ok {
		if _, isBool := node.(bool); isBool {
			return
		}
		*out = append(*out, schemaIssue{where, "schema node is a " + jsonKind(node) + ", expected an object or boolean", false})
		return
	}
	var keys []string
	for k := range m {
		keys = append(keys, k)
	}
	sort.Strings(keys)
	for _, k := range keys {
		v := m[k]
		want, known := knownKeywords[k]
		if !known {
			*out = append(*out, schemaIssue{where + "/" + k, fmt.Sprintf("unknown keyword %q is ignored by draft-07 validators: whatever it was meant to constrain is unconstrained", k), true})
			continue
		}
		kind := jsonKind(v)
		if want != "any" && !strings.Contains("|"+want+"|", "|"+kind+"|") {
			*out = append(*out, schemaIssue{where + "/" + k, fmt.Sprintf("keyword %q has a %s value, draft-07 requires %s", k, kind, want), false})
			continue
		}
		switch k {
		case "$ref":
			*refs++
			if _, _, err := sf.resolve(file, v.(string)); err != "" {
				*out = append(*out, schemaIssue{where + "/$ref", err, false})
			}
		case "type":
			var ts []interface{}
			if s, ok := v.(string); ok {
				ts = []interface{}{s}
			} else {
				ts = v.([]interface{})
			}
			for _, t := range ts {
				s, _ := t.(string)
				if !draft07Types[s] {
					*out = append(*out, schemaIssue{where + "/type", fmt.Sprintf("unknown type %v", t), false})
				}
			}
		case "properties", "definitions", "patternProperties":
			sub := v.(map[string]interface{})
			var sk []string
			for n := range sub {
				sk = append(sk, n)
			}
			sort.Strings(sk)
			for _, n := range sk {
				if k == "patternProperties" {
					if _, err := regexp.Compile(n); err != nil {
						*out = append(*out, schemaIssue{where + "/" + k + "/" + n, "pattern does not compile: " + err.Error(), false})
					}
				}
				sf.lint(file, sub[n], where+"/"+k+"/"+n, out, refs)
			}
		case "items", "additionalProperties", "not", "if", "then", "else", "contains", "propertyNames", "additionalItems":
			if arr, ok := v.([]interface{}); ok {
				for i, e := range arr {
					sf.lint(file, e, fmt.Sprintf("%s/%s/%d", where, k, i), out, refs)
				}
			} else if _, isBool := v.(bool); !isBool {
				sf.lint(file, v, where+"/"+k, out, refs)
			}
		case "allOf", "anyOf", "oneOf":
			for i, e := range v.([]interface{}) {
				sf.lint(file, e, fmt.Sprintf("%s/%s/%d", where, k, i), out, refs)
			}
		case "required":
			for _, e := range v.([]interface{}) {
				if _, ok := e.(string); !ok {
					*out = append(*out, schemaIssue{where + "/required", "required member names must be strings", false})
				}
			}
		case "pattern":
			if _, err := regexp.Compile(v.(string)); err != nil {
				*out = append(*out, schemaIssue{where + "/pattern", "pattern does not compile: " + err.Error(), false})
			}
		}
	}
}

// deref resolves $ref chains of a node; returns the node and its file.
func (sf *schemaFiles) deref(file string, node interface{}) (map[string]interface{}, string, string) {
	for i := 0; i < 16; i++ {
		m, ok := node.(map[string]interface{})
		if !ok {
			return nil, file, "schema node is not an object"
		}
		ref, has := m["$ref"].(string)
		if !has {
			return m, file, ""
		}
		// draft-07: siblings of $ref are ignored
		n, f, err := sf.resolve(file, ref)
		if err != "" {
			return nil, file, err
		}
		node, file = n, f
	}
	return nil, file, "$ref chain too long"
}
