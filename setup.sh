#!/bin/bash
# Builds the checker from the sources in /verif/checker, offline
# (golang.org/x/tools v0.29.0 and its dependencies come from the module cache).
cd "$(dirname "$0")/checker" || exit 1
export GOFLAGS=-mod=mod GOPROXY=off GOSUMDB=off GOTOOLCHAIN=local GOWORK=off
mkdir -p bin
go build -o bin/cdiverif ./cmd/cdiverif
