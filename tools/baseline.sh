#!/bin/bash
# Runs the repository's own test suites (all five Go modules) offline, no build tags.
# Used as MANIFEST.hooks.baseline_off_cmd (there are no hooks; the guard is never set).
export GOFLAGS=-mod=mod GOPROXY=off GOSUMDB=off GOTOOLCHAIN=local GOWORK=off
REPO=${REPO:-/repo}
rc=0
for m in . cmd/cdi cmd/validate schema specs-go; do
  (cd "$REPO/$m" && go build ./... && go test -vet=off -count=1 -timeout 25m "$@" ./...) || rc=1
done
exit $rc
