#!/bin/bash
# usage: confirm_seed.sh <agent worktree | directory holding patch.diff> <seed id>
# Confirms, in a fresh scratch copy of /repo's HEAD (not the agent's worktree), that the
# change in <worktree>/.seed/patch.diff compiles, passes the whole existing suite, and that
# the demonstration fails with it and passes without it. On success the change is stored
# as /verif/seeded/<seed id>/ (patch.diff, demonstration, README.md of the author).
set -u
WT=$1; ID=$2
SEED=$WT/.seed
[ -s "$WT/patch.diff" ] && SEED=$WT
export GOFLAGS=-mod=mod GOPROXY=off GOSUMDB=off GOTOOLCHAIN=local GOWORK=off
[ -s "$SEED/patch.diff" ] || { echo "CONFIRM $ID: no patch.diff"; exit 2; }
TMP=$(mktemp -d /tmp/confirm-XXXXXX)
trap 'rm -rf "$TMP"' EXIT
git -C /repo archive HEAD | tar -x -C "$TMP"
cd "$TMP" || exit 2
# place demonstration files by their package clause
DEMOS=()
RUNS=()
for f in "$SEED"/*_test.go "$SEED"/*.go; do
  [ -f "$f" ] || continue
  pkg=$(grep -m1 '^package ' "$f" | awk '{print $2}')
  case "$pkg" in
    cdi|cdi_test) d=pkg/cdi ;;
    parser|parser_test) d=pkg/parser ;;
    schema|schema_test) d=schema ;;
    specs|specs_test) d=specs-go ;;
    cmd|cmd_test) d=cmd/cdi/cmd ;;
    validation|validation_test) d=internal/validation ;;
    k8s|k8s_test) d=internal/validation/k8s ;;
    main|main_test) if grep -q "cmd/validate/[a-z_0-9]*_test.go" "$SEED/README.md" 2>/dev/null; then d=cmd/validate; else d=cmd/cdi; fi ;;
    *) d="" ;;
  esac
  [ -n "$d" ] || { echo "CONFIRM $ID: cannot place $(basename "$f") (package $pkg)"; continue; }
  case "$f" in *_test.go) ;; *) continue ;; esac
  cp "$f" "$d/"
  DEMOS+=("$d/$(basename "$f")")
  tests=$(grep -ho '^func Test[A-Za-z0-9_]*' "$f" | sed 's/func //' | paste -sd'|')
  mod=.; rel=./$d
  case "$d" in schema) mod=schema; rel=. ;; specs-go) mod=specs-go; rel=. ;; cmd/cdi/cmd) mod=cmd/cdi; rel=./cmd ;; cmd/cdi) mod=cmd/cdi; rel=. ;; cmd/validate) mod=cmd/validate; rel=. ;; esac
  RUNS+=("$mod|$rel|$tests")
done
[ ${#RUNS[@]} -gt 0 ] || { echo "CONFIRM $ID: no *_test.go demonstration found (manual confirmation needed)"; exit 3; }
rundemo() {
  local rc=0
  for r in "${RUNS[@]}"; do
    IFS='|' read -r mod rel tests <<< "$r"
    (cd "$mod" && go test -vet=off -count=1 -run "^($tests)\$" "$rel" > "$TMP/demo.out" 2>&1) || rc=1
  done
  return $rc
}
echo "== $ID: demonstration WITHOUT the change"
if rundemo; then echo "   passes"; else echo "CONFIRM $ID: demonstration fails without the change"; tail -15 "$TMP/demo.out"; exit 4; fi
echo "== $ID: applying patch"
git apply "$SEED/patch.diff" 2>"$TMP/apply.err" || patch -p1 -s < "$SEED/patch.diff" || { echo "CONFIRM $ID: patch does not apply"; cat "$TMP/apply.err"; exit 5; }
echo "== $ID: demonstration WITH the change"
if rundemo; then echo "CONFIRM $ID: demonstration still passes with the change"; exit 6; else echo "   fails (as it should):"; grep -m3 -E -- '--- FAIL|FAIL|panic' "$TMP/demo.out" | sed 's/^/      /'; fi
echo "== $ID: existing suite WITH the change (demonstration removed)"
for d in "${DEMOS[@]}"; do rm -f "$d"; done
rc=0
for m in . cmd/cdi cmd/validate schema specs-go; do
  (cd $m && go build ./... && go test -vet=off -count=1 ./... > "$TMP/suite.out" 2>&1) || { rc=1; echo "   FAILED in $m"; tail -20 "$TMP/suite.out"; }
done
[ $rc = 0 ] || { echo "CONFIRM $ID: existing suite fails with the change"; exit 7; }
echo "   passes"
mkdir -p /verif/seeded/$ID
cp "$SEED/patch.diff" /verif/seeded/$ID/
for f in "$SEED"/*_test.go "$SEED"/*.go "$SEED"/README.md; do [ -f "$f" ] && cp "$f" /verif/seeded/$ID/; done
echo "CONFIRMED $ID -> /verif/seeded/$ID"
