#!/usr/bin/env python3
"""usage: keep_seed.py <dir with patch.diff> <seed id> <property> <needs-to-manifest text>
Confirms the change with tools/confirm_seed.sh and, if confirmed, writes seeded/<id>/meta.json."""
import json, os, subprocess, sys
VERIF = os.path.dirname(os.path.dirname(os.path.abspath(__file__)))
src, sid, prop, needs = sys.argv[1:5]
head = subprocess.run(["git", "-C", "/repo", "rev-parse", "--short", "HEAD"], capture_output=True, text=True).stdout.strip()
p = subprocess.run([os.path.join(VERIF, "tools", "confirm_seed.sh"), src, sid], capture_output=True, text=True)
print("\n".join(p.stdout.splitlines()[-6:]))
if p.returncode != 0 or "CONFIRMED" not in p.stdout:
    print("NOT KEPT", sid, "rc", p.returncode)
    sys.exit(1)
d = os.path.join(VERIF, "seeded", sid)
files = sorted(f for f in os.listdir(d) if f != "meta.json")
meta = {
    "property": prop,
    "needs_to_manifest": needs,
    "written_by": "fresh sub-agent given only the property text and its own scratch worktree of /repo (nothing from /verif); " + os.environ.get("SEED_ROUND", "round 2 (two changes per property, the two most obvious ideas skipped)"),
    "confirmed_by": "tools/confirm_seed.sh in a fresh scratch copy of /repo HEAD (%s): demonstration passes without the change; with the change it fails; the unedited suites of all five modules pass with the change" % head,
    "files": files,
}
json.dump(meta, open(os.path.join(d, "meta.json"), "w"), indent=1)
open(os.path.join(d, "meta.json"), "a").write("\n")
