#!/usr/bin/env python3
"""Generates /verif/MANIFEST.json from the table below (kept in one place so
that the manifest is always valid and in step with the implemented rules)."""
import json, os

VERIF = os.path.dirname(os.path.dirname(os.path.abspath(__file__)))

TRUST = ("Trusted base: the Go type checker and go/ssa (x/tools v0.29.0) as a faithful model of the source; "
         "dependencies (fsnotify, yaml, gojsonschema, runtime-tools, kernel, file system) behave as documented. ")

# id -> (technique, level text, level_note, design_ref)
CLAIMED = {
    "C09": (
        "struct-tag agreement over the type graph + codec dispatch (decoded guards, expressions) + encoder/decoder language-compatibility table; interval-set abstract evaluation of the YAML reader's own code-point range check (dependency source) and of the repository's JSON sanitiser loop",
        "THIN claim: decides three necessary conditions only - json/yaml member names and omitempty agree on all 37 fields reachable from Spec with stable leaf kinds; write() picks yaml.v3 for .yaml and encoding/json otherwise for the same value while one decoder reads every file; "
        "and for each extension the reader's decoder accepts the writer's output language (for .json this holds only because the output passes through escapeJSONForYAML, whose rune loop is evaluated over interval sets to show that no code point the reader refuses or folds - the refused set is itself evaluated from goyaml.v2's range check: U+007F-U+009F, U+FFFE, U+FFFF among what encoding/json leaves raw - is copied unescaped, that \\u%04x is applied only up to U+FFFF, and that no path returns the input itself). "
        "The core of the property (every string through two third-party YAML libraries) is not decidable statically.",
        TRUST + "yaml.v3 -> go-yaml v2 compatibility for the leaf kinds is assumed, not checked. Does NOT decide the round trip over the string space.",
        "DESIGN.md §4 C09"),
    "C17": (
        "structural lint of the shipped schema files as data ($ref resolution against the //go:embed pattern, draft-07 keyword typing) + reachability funnel + decoded success conditions + definite-assignment of the decoded document on go/ssa",
        "Decides that the shipped schema compiles (no dangling $ref, well-typed keywords, builtin file embedded) - otherwise BuiltinSchema silently validates nothing -, that every entry point decides through one validate() which accepts exactly nil/none schemas and Valid() results, "
        "that JSON and YAML input reach the same schema call and both are decoded for the annotation content check, and that files of every extension go through the same path.",
        TRUST + "gojsonschema's draft-07 conformance is assumed; verdicts per document are not computed.",
        "DESIGN.md §4 C17"),
    "C18": (
        "structural induction over the specs-go type graph: encoding/json image (tags, omitempty, nil/null, integer ranges) versus the resolved schema node, keyword by keyword; unknown constraining keywords fail closed",
        "Decides for all 37 fields that whatever encoding/json can emit for a library-valid Spec is admitted by the schema node it is validated against: member present/absent vs required, null vs type, Go integer ranges vs minimum/maximum, "
        "element and map-value types, closed objects. Obligations discharged by library validation are named (no null devices list, no null list entries); the Hook.timeout range is the property's own carve-out. Also that read and write consult one validator hook and the CLI installs the schema.",
        TRUST + "String contents are unconstrained by the schema; the YAML file image is C09's (thin) concern.",
        "DESIGN.md §4 C18"),
    "C19": (
        "value-origin analysis of the flag variable and of every *cdi.Cache source/sink in the command packages + control-dependence (decoded guards) of os.Exit and of the print statements; cmd/validate loaded as its own module",
        "Decides that the --spec-dirs variable reaches cdi.Configure of the default cache in the cobra.OnInitialize function, that every cache the subcommands query is that cache (any other queried source is reported), "
        "that 'cdi validate' exits 1 exactly under 'cache reports errors', that cmd/validate's exit code becomes 1 exactly on a validation error of some document and is never reset, that 'inject' prints the spec it injected into only on success, and that each lister uses its library query.",
        TRUST + "cobra/pflag behaviour assumed. Does not decide output formatting nor what the library computes.",
        "DESIGN.md §4 C19"),
    "C11": (
        "constant evaluation of the event mask against the fsnotify package's operation bits (constant GOOS branches pruned) + CFG edge-dominance for the name filter + must-pass-through ordering in the event loop + refresh-before-read in the query methods",
        "Decides necessary structural conditions of self-convergence for all paths: the mask covers Create/Write/Remove/Rename on the analysed GOOS; names are filtered only for pure Write/Create events with the Spec extension table; "
        "every accepted event reaches Lock, update, refresh, Unlock in that order; a removed tracked directory is reported; queries read the index after refreshIfRequired, which consults update in auto-refresh mode; "
        "update retries untracked directories, marks successes, reports a change after a successful Add, and un-tracks removed directories. This is the thin, structural part of the property.",
        TRUST + "Does NOT decide liveness, pacing, event coalescing/overflow, what fsnotify/inotify deliver for a given history, nor equality with a freshly built cache - these quantify over schedules and histories no static argument here can bound.",
        "DESIGN.md §4 C11"),
    "C20": (
        "must-pass-through and who-may-call rules on configure/start/setup/stop, field-coverage (effects) of configure, select/receive forms of the watcher loop, decoded condition sets of the default-cache functions",
        "Decides for all paths: one watcher at a time (NewWatcher only in setup, stop before setup/start, stop closes a non-nil watcher); one goroutine per start, started only from configure after setup under the auto-refresh flag and bound to the then-current watcher, this cache's mutex and refresh; "
        "the goroutine returns on a closed channel and on a nil watcher; a nil watcher forces a rescan per query; configure applies all options first, then reassigns every field options cannot set (dirErrors directly, index and errors via refresh) and always ends with a refresh; NewCache and Configure both funnel into configure; "
        "the default cache gets its options exactly once; a scan that met EMFILE/ENFILE leaves c.rescan set (assigned on every path of refresh from a flag set exactly under those errno tests) and refreshIfRequired scans again when it is set (C20.7, after defect D17).",
        TRUST + "fsnotify.Close closing both channels and releasing descriptors is assumed. Does not decide behavioural equivalence over option histories nor actual descriptor/goroutine counts.",
        "DESIGN.md §4 C20"),
    "C10": (
        "must-pass-through ordering on the CFG + path-sensitive error-test tracking + source-like argument expressions + who-may-call inventory of file-system calls, per GOOS build configuration",
        "Decides the publication protocol for all paths: separator-free temp pattern with a non-Spec extension after the random part; temp file in the target's directory; rename within that directory to the target's base name; "
        "rename only after an error-checked write and a close; only the temp file ever removed; the file-system-mutating call sites of pkg/cdi are exactly the confirmed ones (no in-place writer can appear unnoticed); "
        "one atomic rename primitive per platform with the right descriptors/flags. These are the necessary structural conditions of 'no reader ever sees a partial Spec file'.",
        TRUST + "Atomicity of rename(2) and CreateTemp's naming are assumed. Does not decide durability (no fsync), kernel/file-system semantics, or the inotify stream.",
        "DESIGN.md §4 C10"),
    "C15": (
        "decoded condition sets and source-like expressions of the annotation helpers on go/ssa; rune-set evaluation; constant agreement tables; bounds engine",
        "Decides for all paths that UpdateAnnotations writes the map exactly once, only after key and value were validated and the key found unused, with the tested key and the built value, and hands the untouched map back on every failure; "
        "that ParseAnnotations skips foreign keys before collecting, fails with empty results on an unqualified device and keeps element order; that prefix, separator and length limit agree between writer, parser and the Kubernetes limit; "
        "that the key's character classes are exactly alnum / alnum_-. / alnum.",
        TRUST + "Does not decide the full Kubernetes key grammar over all strings nor ordering between different keys (map iteration).",
        "DESIGN.md §4 C15"),
    "C16": (
        "source-like expression extraction and comparison of sibling path computations; decoded condition sets; call inventories",
        "Decides that generated names are vendor-class[_id] with every '/' of the id replaced, that WriteSpec and RemoveSpec address the same path expression (Join(last directory, name) with the same default-extension rule, matched by newSpec's own normalisation), "
        "that the last configured directory is used (error when none), that exactly 'does not exist' is tolerated on removal, that exactly one file is removed and publication goes through write(overwrite).",
        TRUST + "filepath.Join confinement for single-component names assumed. Does not decide directory snapshots or precedence after refresh (C01).",
        "DESIGN.md §4 C16"),
    "C08": (
        "may-panic / may-hang obligation inventory over the library's own code: bounds (compiler prove pass + residue rules), nil-dereference of decoder-produced pointers before validation (access paths + guard sets), type assertions, explicit panics/exits, nil map stores, nil calls through globals/maps, arithmetic, loop forms and recursion",
        "Decides for every function of the library packages that each construct able to panic or to loop forever on input-derived data is guarded: every index/slice in range, every decoded pointer nil-tested before use in pre-validation code, "
        "no unchecked type assertion, no explicit panic/exit, nil-guarded map stores and dynamic calls, only element/counted loops over finite collections (plus the blocking event loop), no recursion.",
        TRUST + "Dependencies (yaml, gojsonschema, fsnotify, OCI generator) are assumed not to panic on what the library passes them; resource exhaustion is out of scope.",
        "DESIGN.md §4 C08"),
    "C07": (
        "bounds obligations discharged by the Go compiler's prove pass (-d=ssa/check_bce) plus named residue rules; decoded return/condition tables over SSA expressions; exact rune-set evaluation of character classes by path enumeration with interval constraints",
        "Decides the structure that determines the accepted language of qualified names: composition/splitting separators and first-occurrence splitting, non-empty halves, the error contract of ParseQualifiedName/IsQualifiedName, "
        "the exact sets of runes accepted by IsLetter/IsDigit/IsAlphaNumeric and by the middle-section loops (computed, not sampled), the positional structure (first, single, middle, last), and that no index or slice expression of the parser can be out of range for any input.",
        TRUST + "strings.SplitN semantics assumed. The round-trip equation itself is implied by the decided structure for well-formed parts, not separately evaluated over strings.",
        "DESIGN.md §4 C07"),
    "C06": (
        "feature table read from 'Added in vX.Y.Z' field comments + type-structure placement enumeration + access-path reads of each version predicate (element flow through append/range) + loop-variable escape analysis per module Go version",
        "Decides that every version-gated field is read by the predicate of its version at every placement the type structure allows (spec level and every device), in complete loops without early verdicts; "
        "that no pointer to a per-loop variable outlives its iteration in go<1.22 modules; that feature-less versions never require themselves; that requiredVersion takes the maximum over all predicates and "
        "ValidateVersion admits exactly known versions not lower than it; that the table covers SPEC.md's released versions.",
        TRUST + "semver.Compare is trusted. Does not decide arbitrary version strings nor semver ordering.",
        "DESIGN.md §4 C06"),
    "C05": (
        "success-condition tables: decoded guard sets of every validator's success and failure returns (CFG edge dominance) + argument origins (access paths) + error-flow (path enumeration) + type-switch coverage",
        "Decides the admission predicate structurally for all paths: each validator (Spec, Device, ContainerEdits, Hook, DeviceNode, Mount, IntelRdt, env, annotations) can return success exactly under the documented conditions, "
        "is called with the right field of the right object, for every list element, with its error tested and propagated on every path; decoding is strict; null list entries are rejected before use; the annotation validator's type switch covers every call site's static type; "
        "isEmpty covers every field; the device type table is as specified. A dropped, loosened, mis-wired or skipped check changes a guard set, an argument origin or an error flow and is reported.",
        TRUST + "Does not decide the languages accepted by the name and qualified-name validators (C07 covers the repo's own), YAML strictness inside the decoder, the version gate (C06).",
        "DESIGN.md §4 C05"),
    "C01": (
        "CFG guard-set decoding + access-path origins + abstract evaluation of the conflict closure over the three order types of the compared priorities (path enumeration)",
        "Decides the skeleton of scan -> index for all paths: extension table at every filter site, walk filter (non-directory, Spec extension, sub-directories skipped), priority = directory index flowing unchanged into Spec.priority, "
        "conflict resolution correct for each order type (> replaces and forgets a recorded conflict, = records for both files and keeps, < changes nothing), store exactly when absent or 'replace', conflicts removed after the scan, "
        "only valid Specs indexed, index fields replaced wholesale, listers read their own index after refreshIfRequired. Necessary conditions of the precedence rule; not equality with the specified index function over all directory populations.",
        TRUST + "filepath.Walk order and SkipDir semantics are assumed. Does not decide which files are valid (C05) nor histories of directory changes.",
        "DESIGN.md §4 C01"),
    "C13": (
        "return-shape classification + guard-set decoding + error-flow rules over the scan machinery on go/ssa",
        "Decides for all paths that a per-path failure cannot end the scan of later directories (walk callback returns only nil/SkipDir/scan-function verdict; SkipDir only for what Walk itself regards as a directory; non-ENOENT stat failures, walk errors and a scanned directory that cannot be read are handed to the scan function), "
        "that scanSpecDirs stops early only on a non-nil non-ErrStopScan result, that refresh's callback always returns nil after recording the failure under the file's path, ReadSpec fails with (nil, error), "
        "error and index maps are made anew per refresh (or emptied before refilling), and Refresh/refresh/refreshIfRequired return the join of the current per-file error lists.",
        TRUST + "Does not decide fault semantics of the file system or filepath.Walk internals, nor which inputs fail to load.",
        "DESIGN.md §4 C13"),
    "C03": (
        "per-instruction write footprints (interprocedural effect analysis through the OCI generator's source) + decoded guard sets from CFG edge dominance + access-path argument origins + field-map tables",
        "Decides the translation table behind Apply for all paths: which OCI sections each instruction can write, under exactly which decoded conditions, fed from which edit fields; the four toOCI field maps; "
        "hook stage dispatch against validHookNames and oci.Hooks' JSON names; uid/gid defaults; cgroup rule (b/c, rwm default); remove-before-add and stable strict depth sort for mounts; GID != 0; RDT replacement; "
        "and that the union of footprints stays inside the documented sections (nothing else changes). Structural necessary conditions for every OCI spec and edit list; not the behavioural postcondition.",
        TRUST + "The OCI generator is trusted to behave as its source (only its write effects are read). Does not decide env replace-by-name, RemoveMount's first-match semantics, lstat results.",
        "DESIGN.md §4 C03"),
    "C02": (
        "CFG path queries + access-path origin analysis of InjectDevices and Append on go/ssa",
        "Decides, for all paths of InjectDevices and Append, the structural skeleton of 'ordered composition': complete in-order request loop, verbatim lookup, "
        "device edits appended on every resolving path, Spec-level edits only under a first-time test keyed by Spec identity on a per-call set and before the device's edits, "
        "Append arguments originate only from the looked-up device or its Spec, one Apply after the loop with its error propagated, Append = field-wise receiver-first concatenation "
        "covering every field. Necessary conditions of the property for every request; not the behavioural equality with a combined edit list.",
        TRUST + "Does not decide: that Apply of the concatenation equals sequential application (C03 / OCI generator); cache contents (C01).",
        "DESIGN.md §4 C02"),
    "C04": (
        "path-sensitive CFG enumeration with phi resolution + interprocedural write-effect analysis",
        "Decides for every feasible control-flow path of InjectDevices (two loop iterations, nil-branches pruned by resolving values along the path) that a lookup miss and an "
        "instruction able to write the OCI spec never occur together, that the nil-spec guard precedes all uses and returns (names, error), and that misses are collected verbatim, "
        "in request order, into the list returned with the error.",
        TRUST + "Write sites come from an over-approximating effect analysis through Apply and the OCI generator's source. Does not decide partial application when Apply fails midway.",
        "DESIGN.md §4 C04"),
    "C14": (
        "interprocedural write-effect analysis over access paths (field-based origins, callee heap stores refined), global read/write inventory",
        "Decides for the injection entry points that no write can reach memory of a loaded Spec (fields of specs-go types or of the cdi.Spec/Device wrappers) or any package-level state, "
        "that the edit accumulator is allocated per call, and that missing host information is looked up in the same call - for every path and every callee, including the OCI generator's source.",
        TRUST + "Does not decide: aliasing created into the OCI spec (toOCI shares slices/pointers by reference); behaviour under host node changes.",
        "DESIGN.md §4 C14"),
    "C12": (
        "static must-hold lockset analysis on go/ssa + interprocedural lock-requirement summaries + write-effect analysis over access paths",
        "Decides the locking structure of pkg/cdi for every entry point and call path (not for sampled schedules): every access to Cache/watch fields, "
        "to containers mutated in place and to the validator global is covered by the guarding lock; no lock is re-acquired while held; every Lock is "
        "released on all paths; lock order is acyclic; memory handed out by getters is never written in place after publication. This is a necessary "
        "structural condition for race freedom and snapshot consistency, decided for all paths; it is not a proof of the behavioural property "
        "(no happens-before model of dependencies, no observation of query results).",
        TRUST + "Lock classes are per owning type (instance-insensitive). Does not decide: races inside dependencies or on caller-owned objects; "
        "deadlock freedom of fsnotify.Close under the cache lock; that a query result is a consistent snapshot (only that index maps are swapped whole).",
        "DESIGN.md §4 C12"),
}

PENDING_REASON = "rules for this property are designed in DESIGN.md but not implemented yet in this commit; nothing is claimed until they are"

ALL = ["C%02d" % i for i in range(1, 21)]


def main():
    checks = []
    for pid in ALL:
        if pid not in CLAIMED:
            continue
        tech, text, note, ref = CLAIMED[pid]
        checks.append({
            "property_id": pid,
            "quick_cmd": "./check %s quick" % pid,
            "thorough_cmd": "./check %s thorough" % pid,
            "evidence_file": "/verif/evidence/%s.json" % pid,
            "replay_cmd_template": "./check %s quick   # re-analyses /repo; {path} lists rule, construct and position of each violated obligation" % pid,
            "engine": "cdiverif",
            "level_claimed": {"category": "other", "text": text, "design_ref": ref},
            "level_note": note,
            "technique": tech,
        })
    na = [{"property_id": pid, "reason": PENDING_REASON} for pid in ALL if pid not in CLAIMED]
    man = {
        "version": 1,
        "setup_cmd": "./setup.sh",
        "hooks": {
            "guard": "verif",
            "enable": "none: the checks are static and need no hooks or instrumentation in /repo; no source change is guarded by the tag",
            "baseline_off_cmd": "/verif/tools/baseline.sh",
            "source_commits": [],
            "add_only": True,
        },
        "engines": [{
            "name": "cdiverif",
            "path": "/verif/checker",
            "serves_properties": sorted(CLAIMED.keys()),
            "kind_free_text": "repository-specific static analyser (Go, golang.org/x/tools v0.29.0: go/packages + go/ssa): CFG path queries, "
                              "access-path origin and write-effect analysis, must-hold locksets, table/field agreement rules; before the rules run the program is normalised on go/ssa "
                              "(unknown helpers and closures expanded into their callers, jump threading, rename overlay, forwarding of read-only captured variables) so that behaviour-preserving refactorings leave the rules' view unchanged. "
                              "Loads /repo's working tree on every run; executes nothing from it.",
        }],
        "checks": checks,
        "notes": "All claims are at level 'other': each check decides structural necessary conditions of its property for all paths/call sites of the loaded program, "
                 "not the quantified behaviour. Violations are keyed by rule+construct; KNOWN_FINDINGS.txt lists repaired (fixed:) and open defects. "
                 "thorough = quick + additional GOOS build configurations + replay of the mutant and benign corpora and of the independently written seeded changes for that property (self-test of the rules, recorded in the evidence). "
                 "Corpora: mutants/ (one-instance breaks incl. the reverts of all 17 fix: commits), benign/, seeded/ (180 property-breaking changes by sub-agents), refactors/ (201 behaviour-preserving refactorings by sub-agents; the 9 that still raise an alarm are documented as limits in DESIGN.md section 5).",
        "not_applicable": na,
    }
    with open(os.path.join(VERIF, "MANIFEST.json"), "w") as fh:
        json.dump(man, fh, indent=1)
        fh.write("\n")
    print("MANIFEST.json: %d checks, %d not_applicable" % (len(checks), len(na)))


if __name__ == "__main__":
    main()
