#!/usr/bin/env python3
"""Source of the hand-written part of the mutant corpus (mutants/*.json) and of
the benign corpus (benign/*.json). Each entry is an exact old->new edit on the
current /repo tree. Run after editing; it verifies that every edit applies."""
import json, os, sys

VERIF = os.path.dirname(os.path.dirname(os.path.abspath(__file__)))
REPO = os.environ.get("REPO", "/repo")

M = []  # (name, property, [(file, old, new)], note)
B = []  # (name, [props to check], [(file, old, new)], why benign)


def m(name, prop, edits, note=""):
    M.append((name, prop, edits, note))


def b(name, check, edits, why):
    B.append((name, check, edits, why))


CACHE = "pkg/cdi/cache.go"
EDITS = "pkg/cdi/container-edits.go"
SPEC = "pkg/cdi/spec.go"
DIRS = "pkg/cdi/spec-dirs.go"
ANNOT = "pkg/cdi/annotations.go"
PARSER = "pkg/parser/parser.go"
VERSION = "specs-go/version.go"
SCHEMA = "schema/schema.go"

# ---------------------------------------------------------------- C12
m("C12-revert-D7-specdir", "C12", [(CACHE,
  "func (c *Cache) highestPrioritySpecDir() (string, int) {\n\tc.Lock()\n\tdefer c.Unlock()\n\n",
  "func (c *Cache) highestPrioritySpecDir() (string, int) {\n")], "revert of fix D7 (first half)")
m("C12-revert-D7-direrrors", "C12", [(CACHE,
  "func (c *Cache) GetSpecDirErrors() map[string]error {\n\tc.Lock()\n\tdefer c.Unlock()\n\n\tif c.dirErrors == nil {\n\t\treturn nil\n\t}\n\n",
  "func (c *Cache) GetSpecDirErrors() map[string]error {\n\tif c.dirErrors == nil {\n\t\treturn nil\n\t}\n\n\tc.Lock()\n\tdefer c.Unlock()\n\n")], "revert of fix D7 (second half)")
m("C12-relock-getdevice", "C12", [(CACHE,
  "\t\td := c.devices[device]\n\t\tif d == nil {\n\t\t\tunresolved",
  "\t\td := c.GetDevice(device)\n\t\tif d == nil {\n\t\t\tunresolved")], "InjectDevices calls a locking getter under the lock: self-deadlock")
m("C12-watch-unlock-early", "C12", [(CACHE,
  "\t\t\t_ = refresh()\n\t\t\tm.Unlock()\n",
  "\t\t\tm.Unlock()\n\t\t\t_ = refresh()\n")], "watcher refreshes after releasing the lock")
m("C12-newcache-nolock", "C12", [(CACHE,
  "\tWithSpecDirs(DefaultSpecDirs...)(c)\n\tc.Lock()\n\tdefer c.Unlock()\n\n\tc.configure(options...)",
  "\tWithSpecDirs(DefaultSpecDirs...)(c)\n\n\tc.configure(options...)")], "newCache configures (starts the watcher goroutine, then refreshes) without the lock")
m("C12-append-published", "C12", [(CACHE,
  "\tc.specs = specs\n",
  "\tif c.specs == nil {\n\t\tc.specs = specs\n\t} else {\n\t\tfor v := range c.specs {\n\t\t\tc.specs[v] = c.specs[v][:0]\n\t\t}\n\t\tfor v, l := range specs {\n\t\t\tc.specs[v] = append(c.specs[v], l...)\n\t\t}\n\t}\n")], "refresh reuses the backing arrays of slices handed out by GetVendorSpecs")
m("C12-missing-unlock-path", "C12", [(CACHE,
  "\t\t\tm.Lock()\n",
  "\t\t\tm.Lock()\n\t\t\tif event.Name == \"\" {\n\t\t\t\tcontinue\n\t\t\t}\n")], "a path leaves the critical section without Unlock")
m("C12-geterrors-unlocked-direrrors", "C12", [(CACHE,
  "\tfor path, errs := range c.errors {\n\t\terrors[path] = errs\n\t}\n\tfor path, err := range c.dirErrors {\n\t\terrors[path] = []error{err}\n\t}\n\n\treturn errors",
  "\tfor path, errs := range c.errors {\n\t\terrors[path] = errs\n\t}\n\tdirErrors := c.dirErrors\n\tc.Unlock()\n\tfor path, err := range dirErrors {\n\t\terrors[path] = []error{err}\n\t}\n\tc.Lock()\n\n\treturn errors")], "dirErrors (mutated in place by the watcher) ranged over outside the lock")

# ---------------------------------------------------------------- C14
m("C14-revert-D9", "C14", [(EDITS,
  "\t\tnode := *d\n\t\tdn := DeviceNode{&node}\n",
  "\t\tnode := d\n\t\tdn := DeviceNode{node}\n")], "revert of fix D9: host info filled into the cached node")
m("C14-memoize-hostinfo", "C14", [("pkg/cdi/container-edits_unix.go",
  "\tdeviceType, major, minor, err := deviceInfoFromPath(d.HostPath)\n\tif err != nil {",
  "\tdeviceType, major, minor, err := cachedDeviceInfo(d.HostPath)\n\tif err != nil {"),
  ("pkg/cdi/container-edits_unix.go",
  "// fillMissingInfo fills in missing mandatory attributes from the host device.",
  "type hostInfo struct {\n\tt string\n\tmaj, min int64\n}\n\nvar hostInfoCache = map[string]hostInfo{}\n\nfunc cachedDeviceInfo(path string) (string, int64, int64, error) {\n\tif hi, ok := hostInfoCache[path]; ok {\n\t\treturn hi.t, hi.maj, hi.min, nil\n\t}\n\tt, maj, min, err := deviceInfoFromPath(path)\n\tif err == nil {\n\t\thostInfoCache[path] = hostInfo{t, maj, min}\n\t}\n\treturn t, maj, min, err\n}\n\n// fillMissingInfo fills in missing mandatory attributes from the host device.")],
  "host device info remembered in a package-level map")
m("C14-default-perms-inplace", "C14", [(EDITS,
  "\t\t\taccess := node.Permissions\n\t\t\tif access == \"\" {\n\t\t\t\taccess = \"rwm\"\n\t\t\t}",
  "\t\t\tif d.Permissions == \"\" {\n\t\t\t\td.Permissions = \"rwm\"\n\t\t\t}\n\t\t\taccess := d.Permissions")], "default permissions written into the cached node")
m("C14-sort-env-inplace", "C14", [(EDITS,
  "\tif len(e.Env) > 0 {\n\t\tspecgen.AddMultipleProcessEnv(e.Env)",
  "\tif len(e.Env) > 0 {\n\t\tsort.Strings(e.Env)\n\t\tspecgen.AddMultipleProcessEnv(e.Env)")], "cached env list sorted in place")
m("C14-append-alias-first", "C14", [(EDITS,
  "\tif e.ContainerEdits == nil {\n\t\te.ContainerEdits = &cdi.ContainerEdits{}\n\t}\n",
  "\tif e.ContainerEdits == nil {\n\t\te.ContainerEdits = o.ContainerEdits\n\t\treturn e\n\t}\n")], "Append adopts the first (cached) edits object as the accumulator; later Appends write into the cached Spec")

# ---------------------------------------------------------------- C04
m("C04-return-devices", "C04", [(CACHE,
  "\t\treturn unresolved, fmt.Errorf(\"unresolvable CDI devices %s\",",
  "\t\treturn devices, fmt.Errorf(\"unresolvable CDI devices %s\",")], "all requested names returned instead of the misses")
m("C04-spec-edits-eager", "C04", [(CACHE,
  "\t\t\tspecs[d.GetSpec()] = struct{}{}\n\t\t\tedits.Append(d.GetSpec().edits())",
  "\t\t\tspecs[d.GetSpec()] = struct{}{}\n\t\t\tif err := d.GetSpec().ApplyEdits(ociSpec); err != nil {\n\t\t\t\treturn nil, err\n\t\t\t}")], "Spec-level edits applied immediately, before later misses are known")
m("C04-nilguard-returns-nil", "C04", [(CACHE,
  "\t\treturn devices, fmt.Errorf(\"can't inject devices, nil OCI Spec\")",
  "\t\treturn nil, fmt.Errorf(\"can't inject devices, nil OCI Spec\")")], "nil OCI spec: requested names not returned")
m("C04-decide-all-unresolved", "C04", [(CACHE,
  "\tif unresolved != nil {\n\t\treturn unresolved, fmt.Errorf(",
  "\tif len(unresolved) == len(devices) && unresolved != nil {\n\t\treturn unresolved, fmt.Errorf(")], "only fails when every device is unresolvable: partial injection otherwise")
m("C04-dedupe-misses", "C04", [(CACHE,
  "\t\t\tunresolved = append(unresolved, device)\n\t\t\tcontinue",
  "\t\t\tif len(unresolved) == 0 || unresolved[len(unresolved)-1] != device {\n\t\t\t\tunresolved = append(unresolved, device)\n\t\t\t}\n\t\t\tcontinue")], "a repeated unresolvable name is reported once only, and if only repeats are missing nothing is reported")
m("C04-skip-first", "C04", [(CACHE,
  "\tfor _, device := range devices {\n\t\td := c.devices[device]",
  "\tfor i := len(devices) - 1; i >= 0; i-- {\n\t\tdevice := devices[i]\n\t\td := c.devices[device]")], "request walked backwards: misses (and edits) in reverse order")
b("benign-C04-len-test", ["C04", "C02", "C14"], [(CACHE,
  "\tif unresolved != nil {\n\t\treturn unresolved, fmt.Errorf(",
  "\tif len(unresolved) > 0 {\n\t\treturn unresolved, fmt.Errorf(")], "len(unresolved) > 0 is equivalent to unresolved != nil for a list built by append")
b("benign-C04-guard-after-lock", ["C04", "C12"], [(CACHE,
  "\tif ociSpec == nil {\n\t\treturn devices, fmt.Errorf(\"can't inject devices, nil OCI Spec\")\n\t}\n\n\tc.Lock()\n\tdefer c.Unlock()\n\n\t_, _ = c.refreshIfRequired(false) // we record but ignore errors\n\n\tedits := &ContainerEdits{}",
  "\tc.Lock()\n\tdefer c.Unlock()\n\n\tif ociSpec == nil {\n\t\treturn devices, fmt.Errorf(\"can't inject devices, nil OCI Spec\")\n\t}\n\n\t_, _ = c.refreshIfRequired(false) // we record but ignore errors\n\n\tedits := &ContainerEdits{}")], "nil guard moved below the lock: same results")
b("benign-C04-commaok-lookup", ["C04", "C02", "C14", "C12"], [(CACHE,
  "\t\td := c.devices[device]\n\t\tif d == nil {",
  "\t\td, found := c.devices[device]\n\t\tif !found {")], "comma-ok form of the same lookup")

# ---------------------------------------------------------------- benign variants for the rules added after the seeded round
b("benign-C20-setup-local-watcher", ["C20", "C11", "C12"], [(CACHE,
  "\tw.watcher, err = fsnotify.NewWatcher()\n\tif err != nil {\n",
  "\twatcher, err := fsnotify.NewWatcher()\n\tw.watcher = watcher\n\tif err != nil {\n")], "watcher created into a local first, stored unconditionally")
b("benign-C20-setup-explicit-nil", ["C20", "C11", "C12"], [(CACHE,
  "\tw.watcher, err = fsnotify.NewWatcher()\n\tif err != nil {\n",
  "\tw.watcher = nil\n\twatcher, err := fsnotify.NewWatcher()\n\tif err == nil {\n\t\tw.watcher = watcher\n\t}\n\tif err != nil {\n")], "watcher reset to nil first, stored on success only")
b("benign-C19-errs-local", ["C19"], [("cmd/cdi/cmd/root.go",
  "\t\tif len(cdi.GetDefaultCache().GetErrors()) > 0 {\n",
  "\t\tcache := cdi.GetDefaultCache()\n\t\tif errs := cache.GetErrors(); len(errs) != 0 {\n")], "cache and its errors held in locals, != 0 instead of > 0")
b("benign-C13-mode-isdir", ["C13", "C01"], [(DIRS,
  "\t\t\tif info.IsDir() {\n",
  "\t\t\tif info.Mode().IsDir() {\n")], "directory test through the mode bits")
b("benign-C02-new-edits", ["C02", "C14"], [(EDITS,
  "\t\te.ContainerEdits = &cdi.ContainerEdits{}\n",
  "\t\te.ContainerEdits = new(cdi.ContainerEdits)\n")], "new() instead of a composite literal")
b("benign-C09-sanitizer-switch", ["C09", "C07", "C08"], [(SPEC,
  "\t\tif (r >= 0x7f && r <= 0x9f) || r == 0xfffe || r == 0xffff {\n\t\t\tout = append(out, fmt.Sprintf(`\\u%04x`, r)...)\n\t\t} else {\n\t\t\tout = utf8.AppendRune(out, r)\n\t\t}\n",
  "\t\tswitch {\n\t\tcase r >= 0x7f && r <= 0x9f, r >= 0xfffe && r <= 0xffff:\n\t\t\tout = append(out, fmt.Sprintf(`\\u%04x`, r)...)\n\t\tdefault:\n\t\t\tout = utf8.AppendRune(out, r)\n\t\t}\n")], "switch form of the same escaping")
m("C09-sanitizer-wider", "C09", [(SPEC,
  "\t\tif (r >= 0x7f && r <= 0x9f) || r == 0xfffe || r == 0xffff {",
  "\t\tif r >= 0x7f {")], "escapes every non-ASCII rune and DEL with \\u%04x: for runes above U+FFFF that prints five hex digits, which reads back as a different string")
b("benign-C04-empty-name-first", ["C04", "C02", "C14"], [(CACHE,
  "\t\td := c.devices[device]\n\t\tif d == nil {",
  "\t\tif device == \"\" {\n\t\t\tunresolved = append(unresolved, device)\n\t\t\tcontinue\n\t\t}\n\t\td := c.devices[device]\n\t\tif d == nil {")], "empty names classified as unresolved before the lookup: same result (no device has an empty name)")

# ---------------------------------------------------------------- reverts of D14-D16
SCHEMAGO = "schema/schema.go"
m("C17-revert-D14", "C17", [(SCHEMAGO,
  "\t\tdata, err = yaml.YAMLToJSON(data)\n\t\tif err != nil {\n\t\t\treturn fmt.Errorf(\"failed to YAML unmarshal data for validation: %w\", err)\n\t\t}\n\t}\n",
  "\t\terr = yaml.Unmarshal(data, &any)\n\t\tif err != nil {\n\t\t\treturn fmt.Errorf(\"failed to YAML unmarshal data for validation: %w\", err)\n\t\t}\n\t\tdata, err = json.Marshal(any)\n\t\tif err != nil {\n\t\t\treturn fmt.Errorf(\"failed to JSON remarshal data for validation: %w\", err)\n\t\t}\n\t}\n")], "revert of fix D14: YAML numbers rounded to float64 before the schema sees them")
m("C17-revert-D15", "C17", [(SCHEMAGO,
  "\tif any == nil || s == nil || s.schema == nil {", "\tif any == nil || s == nil {")], "revert of fix D15: the none schema rejects documents through the content checks")
m("C11-revert-D16", "C11", [(CACHE,
  "\t\t\tif event.Op&(fsnotify.Remove|fsnotify.Rename) != 0 && w.tracked[event.Name] {",
  "\t\t\tif event.Op == fsnotify.Remove && w.tracked[event.Name] {")], "revert of fix D16: a tracked directory renamed away stays marked as watched")
m("C11-gone-only-rename", "C11", [(CACHE,
  "\t\t\tif event.Op&(fsnotify.Remove|fsnotify.Rename) != 0 && w.tracked[event.Name] {",
  "\t\t\tif event.Op&fsnotify.Rename != 0 && w.tracked[event.Name] {")], "a removed directory is no longer re-watched")

# ---------------------------------------------------------------- C02
m("C02-set-in-loop", "C02", [(CACHE,
  "\tspecs := map[*Spec]struct{}{}\n\n\tfor _, device := range devices {\n",
  "\tfor _, device := range devices {\n\t\tspecs := map[*Spec]struct{}{}\n")], "the once-per-Spec set is recreated in every iteration")
m("C02-rdt-unconditional", "C02", [(EDITS,
  "\tif o.IntelRdt != nil {\n\t\te.IntelRdt = o.IntelRdt\n\t}\n",
  "\te.IntelRdt = o.IntelRdt\n")], "a later edit without RDT clears the RDT setting of an earlier one")
m("C02-device-edits-from-spec", "C02", [("pkg/cdi/device.go",
  "\treturn &ContainerEdits{&d.ContainerEdits}",
  "\treturn &ContainerEdits{&d.spec.ContainerEdits}")], "Device.edits() hands out the Spec-level edits")
m("C02-break-after-first", "C02", [(CACHE,
  "\t\tedits.Append(d.edits())\n\t}\n",
  "\t\tedits.Append(d.edits())\n\t\tif len(edits.DeviceNodes) > 16 {\n\t\t\tbreak\n\t\t}\n\t}\n")], "the request loop stops early once many device nodes were collected")
m("C02-env-self-append", "C02", [(EDITS,
  "\te.Env = append(e.Env, o.Env...)",
  "\te.Env = append(o.Env, e.Env...)")], "env of later edits placed before earlier ones (also writes into the cached slice)")
b("benign-C02-key-by-path", ["C02", "C04", "C14"], [(CACHE,
  "\tspecs := map[*Spec]struct{}{}\n",
  "\tspecs := map[string]struct{}{}\n"), (CACHE,
  "\t\tif _, ok := specs[d.GetSpec()]; !ok {\n\t\t\tspecs[d.GetSpec()] = struct{}{}",
  "\t\tif _, ok := specs[d.GetSpec().GetPath()]; !ok {\n\t\t\tspecs[d.GetSpec().GetPath()] = struct{}{}")], "set keyed by the Spec's file path instead of its pointer: same partition")
b("benign-C02-local-spec-var", ["C02", "C04", "C14"], [(CACHE,
  "\t\tif _, ok := specs[d.GetSpec()]; !ok {\n\t\t\tspecs[d.GetSpec()] = struct{}{}\n\t\t\tedits.Append(d.GetSpec().edits())\n\t\t}",
  "\t\tspec := d.GetSpec()\n\t\tif _, seen := specs[spec]; !seen {\n\t\t\tspecs[spec] = struct{}{}\n\t\t\tedits.Append(spec.edits())\n\t\t}")], "Spec held in a local variable")

# ---------------------------------------------------------------- C03
OCI = "pkg/cdi/oci.go"
UNIX = "pkg/cdi/container-edits_unix.go"
m("C03-hook-wrong-list", "C03", [(EDITS,
  "\t\t\tspec.Hooks.CreateRuntime = append(spec.Hooks.CreateRuntime, ociHook)",
  "\t\t\tspec.Hooks.CreateContainer = append(spec.Hooks.CreateContainer, ociHook)")], "createRuntime hooks land in the createContainer list")
m("C03-rdt-needs-linux", "C03", [(EDITS,
  "\tif e.IntelRdt != nil {\n\t\t// The specgen",
  "\tif e.IntelRdt != nil && spec.Linux != nil {\n\t\t// The specgen")], "RDT edit silently dropped when the OCI spec has no linux section yet")
m("C03-sort-before-add", "C03", [(EDITS,
  "\t\tfor _, m := range e.Mounts {\n\t\t\tspecgen.RemoveMount(m.ContainerPath)\n\t\t\tspecgen.AddMount((&Mount{m}).toOCI())\n\t\t}\n\t\tsortMounts(&specgen)",
  "\t\tsortMounts(&specgen)\n\t\tfor _, m := range e.Mounts {\n\t\t\tspecgen.RemoveMount(m.ContainerPath)\n\t\t\tspecgen.AddMount((&Mount{m}).toOCI())\n\t\t}")], "mounts sorted before the new ones are added")
m("C03-less-nonstrict", "C03", [(EDITS,
  "\treturn m.parts(i) < m.parts(j)",
  "\treturn m.parts(i) <= m.parts(j)")], "non-strict Less: equal-depth mounts are reordered")
m("C03-parts-noclean", "C03", [(EDITS,
  "strings.Count(filepath.Clean(m[i].Destination), string(os.PathSeparator))",
  "strings.Count(filepath.ToSlash(m[i].Destination), string(os.PathSeparator))")], "depth counted on the uncleaned destination (trailing or doubled slashes)")
m("C03-gid-from-uid", "C03", [(EDITS,
  "\t\t\tif gid := spec.Process.User.GID; gid > 0 {",
  "\t\t\tif gid := spec.Process.User.UID; gid > 0 {")], "gid default taken from the process uid")
m("C03-add-before-fillcheck", "C03", [(EDITS,
  "\t\terr := dn.fillMissingInfo()\n\t\tif err != nil {\n\t\t\treturn err\n\t\t}\n\t\tdev := dn.toOCI()",
  "\t\terr := dn.fillMissingInfo()\n\t\tdev := dn.toOCI()\n\t\tspecgen.AddDevice(dev)\n\t\tif err != nil {\n\t\t\treturn err\n\t\t}")], "node added before the fill-in error is looked at")
m("C03-fill-swap-majmin", "C03", [(UNIX,
  "\t\td.Major = major\n\t\td.Minor = minor",
  "\t\td.Major = minor\n\t\td.Minor = major")], "host major/minor crossed when filled in")
m("C03-fill-type-always", "C03", [(UNIX,
  "\tif d.Type == \"\" {\n\t\td.Type = deviceType\n\t} else {",
  "\tif d.Type == \"\" || d.Type == \"u\" {\n\t\td.Type = deviceType\n\t} else {")], "a declared type 'u' is overwritten by the host type")
m("C03-cgroup-deny", "C03", [(EDITS,
  "specgen.AddLinuxResourcesDevice(true, dev.Type,",
  "specgen.AddLinuxResourcesDevice(dev.Type == \"c\", dev.Type,")], "block devices get a deny rule")
m("C03-stat-chr-as-b", "C03", [(UNIX,
  "\tcase unix.S_IFBLK:\n\t\tdevType = blockDevice\n\tcase unix.S_IFCHR:\n\t\tdevType = charDevice",
  "\tcase unix.S_IFCHR:\n\t\tdevType = blockDevice\n\tcase unix.S_IFBLK:\n\t\tdevType = charDevice")], "block/char crossed in the host stat table")
m("C03-touch-hostname", "C03", [(EDITS,
  "\tif e.IntelRdt != nil {\n\t\t// The specgen",
  "\tif spec.Hostname == \"\" && len(e.DeviceNodes) > 0 {\n\t\tspecgen.SetHostname(\"cdi\")\n\t}\n\tif e.IntelRdt != nil {\n\t\t// The specgen")], "Apply changes an unrelated part of the OCI spec")
m("C03-hook-env-dropped", "C03", [(OCI,
  "\t\tPath:    h.Path,\n\t\tArgs:    h.Args,\n\t\tEnv:     h.Env,",
  "\t\tPath:    h.Path,\n\t\tArgs:    h.Args,")], "hook env not carried over")
m("C03-remove-mount-hostpath", "C03", [(EDITS,
  "\t\t\tspecgen.RemoveMount(m.ContainerPath)",
  "\t\t\tspecgen.RemoveMount(m.HostPath)")], "the mount to replace is looked up by host path")
b("benign-C03-no-removedevice", ["C03", "C14"], [(EDITS,
  "\t\tspecgen.RemoveDevice(dev.Path)\n", "")], "AddDevice itself replaces a node with the same path")
b("benign-C03-env-unguarded", ["C03", "C14"], [(EDITS,
  "\tif len(e.Env) > 0 {\n\t\tspecgen.AddMultipleProcessEnv(e.Env)\n\t}",
  "\tspecgen.AddMultipleProcessEnv(e.Env)")], "adding an empty env list is a no-op")
b("benign-C03-access-else", ["C03", "C14"], [(EDITS,
  "\t\t\taccess := node.Permissions\n\t\t\tif access == \"\" {\n\t\t\t\taccess = \"rwm\"\n\t\t\t}",
  "\t\t\taccess := \"rwm\"\n\t\t\tif node.Permissions != \"\" {\n\t\t\t\taccess = node.Permissions\n\t\t\t}")], "same default written the other way round")
b("benign-C03-index-loop", ["C03", "C14"], [(EDITS,
  "\t\tfor _, m := range e.Mounts {\n\t\t\tspecgen.RemoveMount(m.ContainerPath)",
  "\t\tfor i := 0; i < len(e.Mounts); i++ {\n\t\t\tm := e.Mounts[i]\n\t\t\tspecgen.RemoveMount(m.ContainerPath)")], "counted loop instead of range")
b("benign-C03-switch-reordered", ["C03", "C14"], [(EDITS,
  "\t\tcase PrestartHook:\n\t\t\tspecgen.AddPreStartHook(ociHook)\n\t\tcase PoststartHook:\n\t\t\tspecgen.AddPostStartHook(ociHook)\n",
  "\t\tcase PoststartHook:\n\t\t\tspecgen.AddPostStartHook(ociHook)\n\t\tcase PrestartHook:\n\t\t\tspecgen.AddPreStartHook(ociHook)\n")], "switch cases in another order")
b("benign-C03-slicestable", ["C03"], [(EDITS,
  "\tsort.Stable(orderedMounts(mounts))",
  "\tsort.SliceStable(mounts, func(i, j int) bool { return orderedMounts(mounts).Less(i, j) })")], "another stable sort with the same order")

# ---------------------------------------------------------------- C01
m("C01-dirs-reversed", "C01", [(DIRS,
  "\tfor priority, dir := range dirs {\n",
  "\tfor priority := len(dirs) - 1; priority >= 0; priority-- {\n\t\tdir := dirs[priority]\n")], "directories scanned highest priority first: equal handling differs for conflicts recorded earlier")
m("C01-skip-root", "C01", [(DIRS,
  "\t\t\t\tif path == dir {\n\t\t\t\t\tif err != nil {",
  "\t\t\t\tif path == dir || filepath.Dir(path) == dir {\n\t\t\t\t\tif err != nil {")], "first-level sub-directories are descended into")
m("C01-spec-before-errcheck", "C01", [(CACHE,
  "\t\tpath = filepath.Clean(path)\n\t\tif err != nil {\n",
  "\t\tpath = filepath.Clean(path)\n\t\tif spec != nil {\n\t\t\tspecs[spec.GetVendor()] = append(specs[spec.GetVendor()], spec)\n\t\t}\n\t\tif err != nil {\n"), (CACHE,
  "\t\tvendor := spec.GetVendor()\n\t\tspecs[vendor] = append(specs[vendor], spec)\n", "")], "Spec listed before the load error is looked at")
m("C01-conflict-one-path", "C01", [(CACHE,
  "\t\t\t\tname, devPath, oldPath), devPath, oldPath)",
  "\t\t\t\tname, devPath, oldPath), devPath)")], "a conflict is reported for one of the two files only")
m("C01-store-always", "C01", [(CACHE,
  "\t\t\tother, ok := devices[qualified]\n\t\t\tif ok {\n\t\t\t\tif resolveConflict(qualified, dev, other) {\n\t\t\t\t\tcontinue\n\t\t\t\t}\n\t\t\t}\n\t\t\tdevices[qualified] = dev",
  "\t\t\tother, ok := devices[qualified]\n\t\t\tdevices[qualified] = dev\n\t\t\tif ok {\n\t\t\t\tif resolveConflict(qualified, dev, other) {\n\t\t\t\t\tcontinue\n\t\t\t\t}\n\t\t\t}")], "the last file scanned always wins")
m("C01-conflict-delete-conditional", "C01", [(CACHE,
  "\tfor conflict := range conflicts {\n\t\tdelete(devices, conflict)\n\t}",
  "\tfor conflict := range conflicts {\n\t\tif len(conflicts) > 1 {\n\t\t\tdelete(devices, conflict)\n\t\t}\n\t}")], "a single conflicting name stays resolvable")
m("C01-write-yml", "C01", [(CACHE,
  "\tpath = filepath.Join(specDir, name)\n\tif ext := filepath.Ext(path); ext != \".json\" && ext != \".yaml\" {\n\t\tpath += defaultSpecExt\n\t}\n\n\tspec, err = newSpec(raw, path, prio)",
  "\tpath = filepath.Join(specDir, name)\n\tif ext := filepath.Ext(path); ext != \".json\" && ext != \".yaml\" && ext != \".yml\" {\n\t\tpath += defaultSpecExt\n\t}\n\n\tspec, err = newSpec(raw, path, prio)")], "WriteSpec treats .yml as a Spec extension")
m("C01-lt-replaces", "C01", [(CACHE,
  "\t\tcase devPrio > oldPrio:\n",
  "\t\tcase devPrio != oldPrio:\n")], "a lower-priority definition scanned later replaces the higher one")
m("C01-getdevice-from-spec", "C01", [(CACHE,
  "\t_, _ = c.refreshIfRequired(false) // we record but ignore errors\n\n\treturn c.devices[device]",
  "\t_, _ = c.refreshIfRequired(false) // we record but ignore errors\n\n\tfor _, specs := range c.specs {\n\t\tfor _, s := range specs {\n\t\t\tif d := s.devices[device]; d != nil {\n\t\t\t\treturn d\n\t\t\t}\n\t\t}\n\t}\n\treturn c.devices[device]")], "GetDevice bypasses precedence by searching all Specs")
b("benign-C01-commaok-style", ["C01", "C13", "C12"], [(CACHE,
  "\t\t\tother, ok := devices[qualified]\n\t\t\tif ok {\n\t\t\t\tif resolveConflict(qualified, dev, other) {\n\t\t\t\t\tcontinue\n\t\t\t\t}\n\t\t\t}\n\t\t\tdevices[qualified] = dev",
  "\t\t\tif other, ok := devices[qualified]; ok && resolveConflict(qualified, dev, other) {\n\t\t\t\tcontinue\n\t\t\t}\n\t\t\tdevices[qualified] = dev")], "same logic with a combined condition")
b("benign-C01-switch-as-if", ["C01", "C13"], [(CACHE,
  "\t\tswitch {\n\t\tcase devPrio > oldPrio:\n\t\t\t// the higher priority Spec shadows any lower priority conflict\n\t\t\tdelete(conflicts, name)\n\t\t\treturn false\n\t\tcase devPrio == oldPrio:",
  "\t\tif oldPrio < devPrio {\n\t\t\t// the higher priority Spec shadows any lower priority conflict\n\t\t\tdelete(conflicts, name)\n\t\t\treturn false\n\t\t}\n\t\tswitch {\n\t\tcase devPrio == oldPrio:")], "comparison written the other way round")

# ---------------------------------------------------------------- C13
m("C13-errors-merged", "C13", [(CACHE,
  "\tc.errors = specErrors\n",
  "\tif c.errors == nil {\n\t\tc.errors = map[string][]error{}\n\t}\n\tfor p, e := range specErrors {\n\t\tc.errors[p] = e\n\t}\n")], "error entries are merged into the old map: they never disappear after the cause is gone")
m("C13-refresh-returns-nil", "C13", [(CACHE,
  "\terrs := []error{}\n\tfor _, specErrs := range specErrors {\n\t\terrs = append(errs, errors.Join(specErrs...))\n\t}\n\treturn errors.Join(errs...)\n}\n\n// RefreshIfRequired",
  "\terrs := []error{}\n\tfor _, specErrs := range specErrors {\n\t\tif len(specErrs) > 1 {\n\t\t\terrs = append(errs, errors.Join(specErrs...))\n\t\t}\n\t}\n\treturn errors.Join(errs...)\n}\n\n// RefreshIfRequired")], "files with a single error are left out of refresh's result")
m("C13-Refresh-cached-nil", "C13", [(CACHE,
  "\t// collect and return cached errors, much like refresh() does it\n\terrs := []error{}\n\tfor _, specErrs := range c.errors {\n\t\terrs = append(errs, errors.Join(specErrs...))\n\t}\n\treturn errors.Join(errs...)",
  "\treturn nil")], "explicit Refresh in auto-refresh mode reports no error when nothing changed, although files are in error")
m("C13-collect-wrong-key", "C13", [(CACHE,
  "\t\t\tspecErrors[path] = append(specErrors[path], err)",
  "\t\t\tspecErrors[filepath.Dir(path)] = append(specErrors[filepath.Dir(path)], err)")], "errors are filed under the directory, not the failing file")
m("C13-readspec-partial", "C13", [(SPEC,
  "\tspec, err := newSpec(raw, path, priority)\n\tif err != nil {\n\t\treturn nil, err\n\t}\n\n\treturn spec, nil",
  "\tspec, err := newSpec(raw, path, priority)\n\tif err != nil {\n\t\treturn nil, nil\n\t}\n\n\treturn spec, nil")], "an invalid Spec is dropped without an error")
m("C13-walkerr-ignored", "C13", [(DIRS,
  "\t\t\tif err != nil {\n\t\t\t\treturn scanFn(path, priority, nil, err)\n\t\t\t}\n\n\t\t\tspec, err = ReadSpec(path, priority)",
  "\t\t\tif err != nil {\n\t\t\t\treturn nil\n\t\t\t}\n\n\t\t\tspec, err = ReadSpec(path, priority)")], "a Spec file the walk could not stat is skipped silently")

# ---------------------------------------------------------------- C05
K8S = "internal/validation/k8s/objectmeta.go"
m("C05-revert-D3-mounts", "C05", [(EDITS,
  "\t\tif m == nil {\n\t\t\treturn errors.New(\"invalid (nil) mount\")\n\t\t}\n", "")], "revert of fix D3 for mounts: a null mount entry is dereferenced")
m("C05-mount-hostpath-only", "C05", [(EDITS,
  "\tif m.ContainerPath == \"\" {\n\t\treturn errors.New(\"invalid mount, empty container path\")\n\t}\n", "")], "mounts without a container path accepted")
m("C05-devtype-extra", "C05", [(EDITS,
  "\t\t\"p\": {},\n\t}\n", "\t\t\"p\": {},\n\t\t\"s\": {},\n\t}\n")], "device type 's' accepted")
m("C05-perms-first-only", "C05", [(EDITS,
  "\t\t\treturn fmt.Errorf(\"device %q: invalid permissions %q\",\n\t\t\t\td.Path, d.Permissions)\n\t\t}\n\t}",
  "\t\t\treturn fmt.Errorf(\"device %q: invalid permissions %q\",\n\t\t\t\td.Path, d.Permissions)\n\t\t}\n\t\tbreak\n\t}")], "only the first permission character is checked")
m("C05-hook-path-optional", "C05", [(EDITS,
  "\tif h.Path == \"\" {\n\t\treturn fmt.Errorf(\"invalid hook %q with empty path\", h.HookName)\n\t}\n", "")], "hooks without a path accepted")
m("C05-annot-size-dropped", "C05", [(K8S,
  "\tif err := ValidateAnnotationsSize(annotations); err != nil {\n\t\terrs = append(errs, fmt.Errorf(\"%v is too long: %v\", path, err))\n\t}\n", "")], "annotation size limit not enforced")
m("C05-duplicate-devices", "C05", [(SPEC,
  "\t\tif _, conflict := devices[d.Name]; conflict {\n\t\t\treturn nil, fmt.Errorf(\"invalid spec, multiple device %q\", d.Name)\n\t\t}\n", "")], "duplicate device names accepted (last wins)")
m("C05-env-empty-name", "C05", [(EDITS,
  "\t\tif strings.IndexByte(v, byte('=')) <= 0 {",
  "\t\tif strings.IndexByte(v, byte('=')) < 0 {")], "env entries '=value' accepted")
m("C05-device-empty-edits", "C05", [("pkg/cdi/device.go",
  "\tif edits.isEmpty() {\n\t\treturn fmt.Errorf(\"invalid device, empty device edits\")\n\t}\n", "")], "devices without edits accepted")
m("C05-skip-last-mount", "C05", [(EDITS,
  "\tfor _, m := range e.Mounts {\n\t\tif m == nil {",
  "\tfor i, m := range e.Mounts {\n\t\tif i > 0 && i == len(e.Mounts)-1 {\n\t\t\tbreak\n\t\t}\n\t\tif m == nil {")], "the last of several mounts is not validated")
m("C05-rdt-dot", "C05", [(EDITS,
  "len(i.ClosID) >= 4096 || i.ClosID == \".\" || i.ClosID == \"..\"",
  "len(i.ClosID) >= 4096 || i.ClosID == \"..\"")], "RDT class id '.' accepted")
m("C05-write-unvalidated", "C05", [(SPEC,
  "\terr = validateSpec(s.Spec)\n\tif err != nil {\n\t\treturn err\n\t}\n\n\tif filepath.Ext(s.path) == \".yaml\" {",
  "\tif filepath.Ext(s.path) == \".yaml\" {")], "writer no longer consults the external validator")
m("C05-annot-keys-first-error", "C05", [(K8S,
  "\t\tfor _, msg := range IsQualifiedName(strings.ToLower(k)) {\n\t\t\terrs = append(errs, fmt.Errorf(\"%v.%v is invalid: %v\", path, k, msg))\n\t\t}",
  "\t\tif len(k) > 0 && k[0] == '_' {\n\t\t\tcontinue\n\t\t}\n\t\tfor _, msg := range IsQualifiedName(strings.ToLower(k)) {\n\t\t\terrs = append(errs, fmt.Errorf(\"%v.%v is invalid: %v\", path, k, msg))\n\t\t}")], "annotation keys starting with '_' escape validation")
m("C05-vendor-from-annotations", "C05", [(SPEC,
  "\tspec.vendor, spec.class = parser.ParseQualifier(spec.Kind)",
  "\tspec.vendor, spec.class = parser.ParseQualifier(strings.TrimSpace(spec.Kind))")], "kind is trimmed before splitting: ' vendor/class' accepted")
b("benign-C05-validate-order", ["C05"], [(SPEC,
  "\tif err := parser.ValidateVendorName(s.vendor); err != nil {\n\t\treturn nil, err\n\t}\n\tif err := parser.ValidateClassName(s.class); err != nil {\n\t\treturn nil, err\n\t}\n",
  "\tif err := parser.ValidateClassName(s.class); err != nil {\n\t\treturn nil, err\n\t}\n\tif err := parser.ValidateVendorName(s.vendor); err != nil {\n\t\treturn nil, err\n\t}\n")], "validators called in another order")
b("benign-C05-mount-single-if", ["C05"], [(EDITS,
  "\tif m.HostPath == \"\" {\n\t\treturn errors.New(\"invalid mount, empty host path\")\n\t}\n\tif m.ContainerPath == \"\" {\n\t\treturn errors.New(\"invalid mount, empty container path\")\n\t}",
  "\tif len(m.HostPath) == 0 {\n\t\treturn errors.New(\"invalid mount, empty host path\")\n\t}\n\tif len(m.ContainerPath) == 0 {\n\t\treturn errors.New(\"invalid mount, empty container path\")\n\t}")], "len(x)==0 instead of x==\"\"")

m("C05-skip-some-hooks", "C05", [(EDITS,
  "\tfor _, h := range e.Hooks {\n\t\tif h == nil {\n\t\t\treturn errors.New(\"invalid (nil) hook\")\n\t\t}\n",
  "\tfor _, h := range e.Hooks {\n\t\tif h == nil {\n\t\t\treturn errors.New(\"invalid (nil) hook\")\n\t\t}\n\t\tif h.HookName == PoststopHook && len(h.Args) == 0 {\n\t\t\tcontinue\n\t\t}\n")], "poststop hooks without args skip validation (two cooperating conditions)")

# ---------------------------------------------------------------- C06
CONFIG = "specs-go/config.go"
m("C06-revert-D4-v040", "C06", [(VERSION,
  "\tfor i := range spec.Devices {\n\t\tedits = append(edits, &spec.Devices[i].ContainerEdits)\n\t}",
  "\tfor _, d := range spec.Devices {\n\t\tedits = append(edits, &d.ContainerEdits)\n\t}")], "revert of fix D4 in requiresV040")
m("C06-revert-D4-v050", "C06", [(VERSION,
  "\tfor i := range spec.Devices {\n\t\td := &spec.Devices[i]\n",
  "\tfor _, d := range spec.Devices {\n")], "revert of fix D4 in requiresV050")
m("C06-v060-spec-annotations-only", "C06", [(VERSION,
  "\tfor _, d := range spec.Devices {\n\t\tfor range d.Annotations {\n\t\t\treturn true\n\t\t}\n\t}\n", "")], "device-level annotations do not require 0.6.0")
m("C06-v050-first-device-only", "C06", [(VERSION,
  "\t\tedits = append(edits, &d.ContainerEdits)\n\t}\n\n\tedits = append(edits, &spec.ContainerEdits)\n\tfor _, e := range edits {\n\t\tfor _, dn := range e.DeviceNodes {",
  "\t\tif len(edits) == 0 {\n\t\t\tedits = append(edits, &d.ContainerEdits)\n\t\t}\n\t}\n\n\tedits = append(edits, &spec.ContainerEdits)\n\tfor _, e := range edits {\n\t\tfor _, dn := range e.DeviceNodes {")], "only the first device's nodes are examined for hostPath")
m("C06-gate-ge", "C06", [(VERSION,
  "\tif newVersion(minVersion).isGreaterThan(newVersion(spec.Version)) {",
  "\tif newVersion(spec.Version).isGreaterThan(newVersion(minVersion)) {")], "gate reversed: newer declared versions rejected, older accepted")
m("C06-max-first-match", "C06", [(VERSION,
  "\t\tif isRequired(spec) && v.isGreaterThan(minVersion) {",
  "\t\tif isRequired(spec) && minVersion == vEarliest {")], "the first matching version in (random) map order wins instead of the maximum")
m("C06-new-field-no-predicate", "C06", [(CONFIG,
  "\tOptions       []string `json:\"options,omitempty\" yaml:\"options,omitempty\"`",
  "\tOptions       []string `json:\"options,omitempty\" yaml:\"options,omitempty\"` // Added in v0.8.0")], "a field documented as added in 0.8.0 has no predicate reading it")
m("C06-v070-gids-spec-only", "C06", [(VERSION,
  "\t\t// The v0.7.0 spec allows additional GIDs to be specified at a device level.\n\t\tif len(d.ContainerEdits.AdditionalGIDs) > 0 {\n\t\t\treturn true\n\t\t}\n", "")], "device-level additional GIDs do not require 0.7.0")
m("C06-unknown-version-ok", "C06", [(VERSION,
  "\tif !validSpecVersions.isValidVersion(spec.Version) {\n\t\treturn fmt.Errorf(\"invalid version %q\", spec.Version)\n\t}\n", "")], "unreleased version strings accepted")
m("C06-v100-always", "C06", [(VERSION,
  "func requiresV100(_ *Spec) bool {\n\treturn false\n}",
  "func requiresV100(s *Spec) bool {\n\treturn len(s.Devices) > 64\n}")], "large Specs are said to need 1.0.0")
b("benign-C06-range-by-index", ["C06", "C08"], [(VERSION,
  "\tfor _, d := range spec.Devices {\n\t\tif d.ContainerEdits.IntelRdt != nil {",
  "\tfor i := range spec.Devices {\n\t\td := &spec.Devices[i]\n\t\tif d.ContainerEdits.IntelRdt != nil {")], "index loop with element pointer")

# ---------------------------------------------------------------- C07
m("C07-revert-D5", "C07", [(PARSER,
  "\t\treturn fmt.Errorf(\"%q, should start with letter\", name)\n\t}\n\tif len(name) == 1 {\n\t\treturn nil\n\t}\n",
  "\t\treturn fmt.Errorf(\"%q, should start with letter\", name)\n\t}\n")], "revert of fix D5: one-letter vendor/class slices [1:0]")
m("C07-class-colon", "C07", [(PARSER,
  "\t\tcase c == '_' || c == '-' || c == '.':\n\t\tdefault:\n\t\t\treturn fmt.Errorf(\"invalid character '%c' in name %q\",",
  "\t\tcase c == '_' || c == '-' || c == '.' || c == ':':\n\t\tdefault:\n\t\t\treturn fmt.Errorf(\"invalid character '%c' in name %q\",")], "':' accepted inside vendor and class names")
m("C07-letter-range", "C07", [(PARSER,
  "\treturn ('A' <= c && c <= 'Z') || ('a' <= c && c <= 'z')",
  "\treturn ('A' <= c && c <= 'z')")], "IsLetter accepts the punctuation between 'Z' and 'a'")
m("C07-last-any", "C07", [(PARSER,
  "\tif !IsAlphaNumeric(rune(name[len(name)-1])) {\n\t\treturn fmt.Errorf(\"invalid name %q, should end with a letter or digit\", name)\n\t}\n", "")], "device names may end in punctuation")
m("C07-split-last-eq", "C07", [(PARSER,
  "\tparts := strings.SplitN(device, \"=\", 2)\n\tif len(parts) != 2 || parts[0] == \"\" || parts[1] == \"\" {\n\t\treturn \"\", \"\", device\n\t}\n\n\tname := parts[1]",
  "\ti := strings.LastIndex(device, \"=\")\n\tif i <= 0 || i == len(device)-1 {\n\t\treturn \"\", \"\", device\n\t}\n\tparts := []string{device[:i], device[i+1:]}\n\n\tname := parts[1]")], "split at the last '=' instead of the first")
m("C07-middle-off-by-one", "C07", [(PARSER,
  "\tif len(name) == 1 {\n\t\treturn nil\n\t}\n\tfor _, c := range string(name[1 : len(name)-1]) {\n\t\tswitch {\n\t\tcase IsAlphaNumeric(c):\n\t\tcase c == '_' || c == '-' || c == '.' || c == ':':",
  "\tif len(name) == 1 {\n\t\treturn nil\n\t}\n\tfor _, c := range string(name[2 : len(name)-1]) {\n\t\tswitch {\n\t\tcase IsAlphaNumeric(c):\n\t\tcase c == '_' || c == '-' || c == '.' || c == ':':")], "second character of a device name is not checked; two-character names panic")
m("C07-leading-slash-ok", "C07", [(PARSER,
  "\tif device == \"\" || device[0] == '/' {\n\t\treturn \"\", \"\", device\n\t}",
  "\tif device == \"\" {\n\t\treturn \"\", \"\", device\n\t}")], "leading '/' no longer refused up front")
m("C07-isqualified-loose", "C07", [(PARSER,
  "\t_, _, _, err := ParseQualifiedName(device)\n\treturn err == nil",
  "\tvendor, class, name := ParseDevice(device)\n\treturn vendor != \"\" && class != \"\" && name != \"\"")], "IsQualifiedName no longer validates the parts")

# ---------------------------------------------------------------- C08
m("C08-revert-D3-validate", "C08", [(EDITS,
  "\t\tif d == nil {\n\t\t\treturn errors.New(\"invalid (nil) device node\")\n\t\t}\n", "")], "revert of fix D3 (device nodes): null entry dereferenced by DeviceNode.Validate")
m("C08-revert-D3-version", "C08", [(VERSION,
  "\t\t\tif m != nil && m.Type != \"\" {", "\t\t\tif m.Type != \"\" {")], "revert of fix D3 in requiresV040: null mount dereferenced before validation")
m("C08-revert-D5", "C08", [(PARSER,
  "\t\treturn fmt.Errorf(\"%q, should start with letter\", name)\n\t}\n\tif len(name) == 1 {\n\t\treturn nil\n\t}\n",
  "\t\treturn fmt.Errorf(\"%q, should start with letter\", name)\n\t}\n")], "revert of fix D5")
m("C08-annotationkey-index", "C08", [(ANNOT,
  "\tif len(name) > 2 {\n\t\tfor _, c := range name[1 : len(name)-1] {",
  "\tif len(name) > 0 {\n\t\tfor _, c := range name[2 : len(name)-1] {")], "AnnotationKey slices name[2:len-1] for short names")
m("C08-update-nil-map", "C08", [(ANNOT,
  "\tif annotations == nil {\n\t\tannotations = make(map[string]string)\n\t}\n", "")], "UpdateAnnotations writes into a nil map")
m("C08-validator-nocheck", "C08", [(SPEC,
  "\tif specValidator == nil {\n\t\treturn nil\n\t}\n", "")], "validateSpec calls through a nil validator")
m("C08-type-assert", "C08", [("internal/validation/validate.go",
  "\t\t\tif s, ok := v.(string); ok {\n\t\t\t\tannotations[k] = s\n\t\t\t} else {\n\t\t\t\treturn fmt.Errorf(\"invalid annotation %v.%v; %v is not a string\", name, k, any)\n\t\t\t}",
  "\t\t\tif k == \"\" {\n\t\t\t\treturn fmt.Errorf(\"invalid annotation %v.%v; %v is not a string\", name, k, any)\n\t\t\t}\n\t\t\tannotations[k] = v.(string)")], "non-string annotation value panics the schema content check")
m("C08-readspec-nil-doc", "C08", [(SPEC,
  "\tif raw == nil {\n\t\treturn nil, fmt.Errorf(\"failed to parse CDI Spec %q, no Spec data\", path)\n\t}\n", "")], "an empty/null document reaches newSpec as a nil pointer")
m("C08-rdt-unguarded", "C08", [(EDITS,
  "\tif e.IntelRdt != nil {\n\t\tif err := (&IntelRdt{e.IntelRdt}).Validate(); err != nil {\n\t\t\treturn err\n\t\t}\n\t}",
  "\tif err := (&IntelRdt{e.IntelRdt}).Validate(); err != nil {\n\t\treturn err\n\t}")], "IntelRdt validated (dereferenced) even when absent")
m("C08-spin-on-errors", "C08", [(CACHE,
  "\tfor {\n\t\tselect {\n\t\tcase event, ok := <-watch.Events:",
  "\tfor {\n\t\tselect {\n\t\tdefault:\n\t\t\tcontinue\n\t\tcase event, ok := <-watch.Events:")], "the watcher's loop no longer blocks: busy spin")

# ---------------------------------------------------------------- C10
LINUX = "pkg/cdi/spec_linux.go"
m("C10-rename-before-close", "C10", [(SPEC,
  "\t_, err = tmp.Write(data)\n\t_ = tmp.Close()\n\tif err != nil {\n\t\treturn fmt.Errorf(\"failed to write Spec file: %w\", err)\n\t}\n\n\terr = renameIn(dir, filepath.Base(tmp.Name()), filepath.Base(s.path), overwrite)\n",
  "\t_, err = tmp.Write(data)\n\tif err != nil {\n\t\t_ = tmp.Close()\n\t\treturn fmt.Errorf(\"failed to write Spec file: %w\", err)\n\t}\n\n\terr = renameIn(dir, filepath.Base(tmp.Name()), filepath.Base(s.path), overwrite)\n\t_ = tmp.Close()\n")], "the file is published while still open (unflushed handle)")
m("C10-tmp-no-suffix", "C10", [(SPEC,
  "os.CreateTemp(dir, \"spec.*.tmp\")", "os.CreateTemp(dir, \"spec.yaml.*\")")], "temp name ends in the random part: spec.yaml.123456")
m("C10-copy-then-remove", "C10", [(LINUX,
  "\tdirFd := int(dirf.Fd())\n\terr = unix.Renameat2(dirFd, src, dirFd, dst, flags)\n\tif err != nil {\n\t\treturn fmt.Errorf(\"rename failed: %w\", err)\n\t}\n",
  "\tdirFd := int(dirf.Fd())\n\tif overwrite {\n\t\t_ = unix.Unlinkat(dirFd, dst, 0)\n\t}\n\terr = unix.Renameat2(dirFd, src, dirFd, dst, flags)\n\tif err != nil {\n\t\treturn fmt.Errorf(\"rename failed: %w\", err)\n\t}\n")], "old file unlinked before the rename: a window with no file, and none at all after a crash")
m("C10-backup-inplace", "C10", [(CACHE,
  "\tspec, err = newSpec(raw, path, prio)\n\tif err != nil {\n\t\treturn err\n\t}\n\n\treturn spec.write(true)",
  "\tspec, err = newSpec(raw, path, prio)\n\tif err != nil {\n\t\treturn err\n\t}\n\tif old, rerr := os.ReadFile(spec.GetPath()); rerr == nil {\n\t\t_ = os.WriteFile(spec.GetPath()+\".yaml\", old, 0o644)\n\t}\n\n\treturn spec.write(true)")], "a backup copy is written in place under a Spec extension")
m("C10-rename-other-dir", "C10", [(SPEC,
  "\terr = renameIn(dir, filepath.Base(tmp.Name()), filepath.Base(s.path), overwrite)",
  "\terr = renameIn(filepath.Dir(dir), filepath.Join(filepath.Base(dir), filepath.Base(tmp.Name())), filepath.Join(filepath.Base(dir), filepath.Base(s.path)), overwrite)")], "rename addressed from the parent directory")
# filed as benign (for C10: a left-over temp file is never loadable) until rule C16.5
# temp-removed-on-failed-rename existed: it breaks C16 ("touches nothing else")
m("C16-temp-left-after-failed-rename", "C16", [(SPEC,
  "\tif err != nil {\n\t\t_ = os.Remove(tmp.Name())\n\t\terr = fmt.Errorf(\"failed to write Spec file: %w\", err)\n\t}",
  "\tif err != nil {\n\t\terr = fmt.Errorf(\"failed to write Spec file: %w\", err)\n\t}")], "a failed write leaves its temporary file behind in the Spec directory")
b("benign-C10-close-error-checked", ["C10"], [(SPEC,
  "\t_, err = tmp.Write(data)\n\t_ = tmp.Close()\n\tif err != nil {",
  "\t_, err = tmp.Write(data)\n\tif cerr := tmp.Close(); err == nil {\n\t\terr = cerr\n\t}\n\tif err != nil {")], "close error propagated as well")

# ---------------------------------------------------------------- C15
m("C15-key-limit-64", "C15", [(ANNOT, "\tconst maxNameLen = 63\n", "\tconst maxNameLen = 64\n")], "64-character names accepted (Kubernetes limit is 63)")
m("C15-no-slash-replace", "C15", [(ANNOT,
  "\tname := pluginName + \"_\" + strings.ReplaceAll(deviceID, \"/\", \"_\")",
  "\tname := pluginName + \"_\" + deviceID")], "'/' of the device id kept: the key gets a second '/'")
m("C15-middle-slash-ok", "C15", [(ANNOT,
  "\t\t\tcase c == '_' || c == '-' || c == '.':\n\t\t\tdefault:\n\t\t\t\treturn \"\", fmt.Errorf(\"invalid name %q, invalid character '%c'\",",
  "\t\t\tcase c == '_' || c == '-' || c == '.' || c == '+':\n\t\t\tdefault:\n\t\t\t\treturn \"\", fmt.Errorf(\"invalid name %q, invalid character '%c'\",")], "'+' accepted inside the name part")
m("C15-value-no-qualify", "C15", [(ANNOT,
  "\t\tif _, _, _, err := parser.ParseQualifiedName(d); err != nil {\n\t\t\treturn \"\", err\n\t\t}\n", "\t\tif d == \"\" {\n\t\t\treturn \"\", errors.New(\"empty device\")\n\t\t}\n")], "unqualified device names get into the annotation value")
m("C15-parse-skip-bad", "C15", [(ANNOT,
  "\t\t\tif !parser.IsQualifiedName(d) {\n\t\t\t\treturn nil, nil, fmt.Errorf(\"invalid CDI device name %q\", d)\n\t\t\t}",
  "\t\t\tif !parser.IsQualifiedName(d) {\n\t\t\t\tcontinue\n\t\t\t}")], "unqualified devices silently dropped when parsing")
m("C15-parse-sep-semicolon", "C15", [(ANNOT,
  "strings.Split(value, \",\")", "strings.Split(value, \";\")")], "parser splits on ';' while the writer joins with ','")
m("C15-prefix-mismatch", "C15", [(ANNOT,
  "\t\tif !strings.HasPrefix(key, AnnotationPrefix) {", "\t\tif !strings.HasPrefix(key, \"cdi.k8s.io\") {")], "keys like cdi.k8s.iox/... are taken for CDI keys")
m("C15-store-on-used-key", "C15", [(ANNOT,
  "\tif _, ok := annotations[key]; ok {\n\t\treturn annotations, fmt.Errorf(\"CDI annotation failed, key %q used\", key)\n\t}",
  "\tif old, ok := annotations[key]; ok && old != \"\" {\n\t\treturn annotations, fmt.Errorf(\"CDI annotation failed, key %q used\", key)\n\t}")], "a used key with an empty value is overwritten")
m("C15-make-map-early", "C15", [(ANNOT,
  "\tkey, err := AnnotationKey(plugin, deviceID)\n\tif err != nil {\n\t\treturn annotations, fmt.Errorf(\"CDI annotation failed: %w\", err)\n\t}",
  "\tif annotations == nil {\n\t\tannotations = make(map[string]string)\n\t}\n\tkey, err := AnnotationKey(plugin, deviceID)\n\tif err != nil {\n\t\treturn annotations, fmt.Errorf(\"CDI annotation failed: %w\", err)\n\t}")], "a nil map comes back as an empty non-nil map on failure (map not 'exactly as it was')")
b("benign-C15-check-order", ["C15"], [(ANNOT,
  "\tif pluginName == \"\" {\n\t\treturn \"\", errors.New(\"invalid plugin name, empty\")\n\t}\n\tif deviceID == \"\" {\n\t\treturn \"\", errors.New(\"invalid deviceID, empty\")\n\t}",
  "\tif deviceID == \"\" {\n\t\treturn \"\", errors.New(\"invalid deviceID, empty\")\n\t}\n\tif pluginName == \"\" {\n\t\treturn \"\", errors.New(\"invalid plugin name, empty\")\n\t}")], "emptiness checks in the other order")

# ---------------------------------------------------------------- C16
m("C16-replace-first-only", "C16", [(SPEC,
  "\ttransientID = strings.ReplaceAll(transientID, \"/\", \"_\")",
  "\ttransientID = strings.Replace(transientID, \"/\", \"_\", 1)")], "only the first '/' of the transient id is replaced")
m("C16-remove-json-sibling", "C16", [(CACHE,
  "\terr = os.Remove(path)\n\tif err != nil && errors.Is(err, fs.ErrNotExist) {",
  "\terr = os.Remove(path)\n\t_ = os.Remove(strings.TrimSuffix(path, filepath.Ext(path)) + \".json\")\n\tif err != nil && errors.Is(err, fs.ErrNotExist) {")], "RemoveSpec also deletes a .json sibling")
m("C16-remove-swallow-all", "C16", [(CACHE,
  "\tif err != nil && errors.Is(err, fs.ErrNotExist) {\n\t\terr = nil\n\t}",
  "\tif err != nil && (errors.Is(err, fs.ErrNotExist) || errors.Is(err, fs.ErrPermission)) {\n\t\terr = nil\n\t}")], "permission errors are swallowed too")
m("C16-write-no-overwrite", "C16", [(CACHE,
  "\treturn spec.write(true)", "\treturn spec.write(false)")], "WriteSpec refuses to replace an existing file")
m("C16-write-first-when-two", "C16", [(CACHE,
  "\tprio := len(c.specDirs) - 1\n\tdir := c.specDirs[prio]\n",
  "\tprio := len(c.specDirs) - 1\n\tif prio > 1 {\n\t\tprio = 1\n\t}\n\tdir := c.specDirs[prio]\n")], "with three or more directories the second one is used")
m("C16-newspec-ext-upper", "C16", [(SPEC,
  "\tif ext := filepath.Ext(spec.path); ext != \".yaml\" && ext != \".json\" {\n\t\tspec.path += defaultSpecExt\n\t}",
  "\tif ext := strings.ToLower(filepath.Ext(spec.path)); ext != \".yaml\" && ext != \".json\" {\n\t\tspec.path += defaultSpecExt\n\t}")], "newSpec keeps .YAML although WriteSpec/RemoveSpec/scanner treat it as no extension")
m("C16-name-for-spec-class-only", "C16", [(SPEC,
  "\tvendor, class := parser.ParseQualifier(raw.Kind)\n\tif vendor == \"\" {\n\t\treturn \"\", fmt.Errorf(\"invalid vendor/class %q in Spec\", raw.Kind)\n\t}\n\n\treturn GenerateSpecName(vendor, class), nil",
  "\tvendor, class := parser.ParseQualifier(raw.Kind)\n\n\treturn GenerateSpecName(vendor, class), nil")], "unqualified kind yields the name '-kind' instead of an error")

# ---------------------------------------------------------------- C11
m("C11-no-rename", "C11", [(CACHE,
  "eventMask := fsnotify.Rename | fsnotify.Remove | fsnotify.Write | fsnotify.Create",
  "eventMask := fsnotify.Remove | fsnotify.Write | fsnotify.Create")], "files renamed away are not noticed")
m("C11-refresh-before-update", "C11", [(CACHE,
  "\t\t\t\tw.update(dirErrors)\n\t\t\t}\n\t\t\t_ = refresh()\n\t\t\tm.Unlock()",
  "\t\t\t\tw.update(dirErrors)\n\t\t\t}\n\t\t\tif event.Op != fsnotify.Remove {\n\t\t\t\t_ = refresh()\n\t\t\t}\n\t\t\tm.Unlock()")], "Remove events update the watch list but do not refresh")
m("C11-update-not-readd", "C11", [(CACHE,
  "\t\t_ = w.watcher.Remove(dir)\n\t\tw.tracked[dir] = false\n",
  "\t\t_ = w.watcher.Remove(dir)\n\t\tdelete(w.tracked, dir)\n")], "a removed directory is forgotten instead of being re-added when it reappears")
m("C11-update-reports-false", "C11", [(CACHE,
  "\t\t\tw.tracked[dir] = true\n\t\t\tdelete(dirErrors, dir)\n\t\t\tupdate = true\n",
  "\t\t\tw.tracked[dir] = true\n\t\t\tdelete(dirErrors, dir)\n")], "a directory that appeared late is watched but its current content is never loaded")
m("C11-refreshifrequired-ignores-update", "C11", [(CACHE,
  "\tif force || (c.autoRefresh && (c.watch.update(c.dirErrors) || c.rescan)) {",
  "\tif force {\n\t\treturn true, c.refresh()\n\t}\n\tif c.autoRefresh && len(c.dirErrors) > 0 && (c.watch.update(c.dirErrors) || c.rescan) {")], "missing directories are only retried while an error is recorded")
m("C11-filter-write-any-name", "C11", [(CACHE,
  "\t\t\tif event.Op == fsnotify.Write || event.Op == fsnotify.Create {\n\t\t\t\tif ext := filepath.Ext(event.Name); ext != \".json\" && ext != \".yaml\" {",
  "\t\t\tif event.Op == fsnotify.Write || event.Op == fsnotify.Create || event.Op == fsnotify.Rename {\n\t\t\t\tif ext := filepath.Ext(event.Name); ext != \".json\" && ext != \".yaml\" {")], "rename events of directories (no extension) are filtered out")
m("C11-getvendorspecs-stale", "C11", [(CACHE,
  "func (c *Cache) GetVendorSpecs(vendor string) []*Spec {\n\tc.Lock()\n\tdefer c.Unlock()\n\n\t_, _ = c.refreshIfRequired(false) // we record but ignore errors\n",
  "func (c *Cache) GetVendorSpecs(vendor string) []*Spec {\n\tc.Lock()\n\tdefer c.Unlock()\n")], "one query method skips refreshIfRequired")
m("C11-setup-tracked-true", "C11", [(CACHE,
  "\tfor _, dir = range dirs {\n\t\tw.tracked[dir] = false\n\t}",
  "\tfor _, dir = range dirs {\n\t\tw.tracked[dir] = dir == \"\"\n\t}")], "weird init; kept as a sanity mutant")

# ---------------------------------------------------------------- C20
DEFC = "pkg/cdi/default-cache.go"
m("C20-start-always", "C20", [(CACHE,
  "\tif c.autoRefresh {\n\t\tc.watch.setup(c.specDirs, c.dirErrors)\n\t\tc.watch.start(&c.Mutex, c.refresh, c.dirErrors)\n\t}",
  "\tif c.autoRefresh {\n\t\tc.watch.setup(c.specDirs, c.dirErrors)\n\t}\n\tc.watch.start(&c.Mutex, c.refresh, c.dirErrors)")], "a goroutine is started on every reconfiguration, also with auto-refresh off (bound to the old, closed watcher or nil)")
m("C20-direrrors-kept", "C20", [(CACHE,
  "\tc.dirErrors = make(map[string]error)\n\n\tc.watch.stop()",
  "\tif c.dirErrors == nil {\n\t\tc.dirErrors = make(map[string]error)\n\t}\n\n\tc.watch.stop()")], "directory errors of the previous configuration survive a reconfiguration")
m("C20-default-configure-twice", "C20", [(DEFC,
  "\tif len(options) == 0 || created {\n\t\treturn nil\n\t}",
  "\tif len(options) == 0 || (created && len(options) > 1) {\n\t\treturn nil\n\t}")], "the first cdi.Configure with a single option applies it twice (second watcher/goroutine churn)")
m("C20-default-create-no-options", "C20", [(DEFC,
  "\t\tdefaultCache = newCache(options...)\n\t\tcreated = true",
  "\t\tdefaultCache = newCache()\n\t\tcreated = true")], "options of the creating cdi.Configure call are dropped")
m("C20-goroutine-new-watcher", "C20", [(CACHE,
  "\tgo w.watch(w.watcher, m, refresh, dirErrors)",
  "\tgo func() {\n\t\tfor {\n\t\t\tw.watch(w.watcher, m, refresh, dirErrors)\n\t\t\tif w.watcher == nil {\n\t\t\t\treturn\n\t\t\t}\n\t\t}\n\t}()")], "the goroutine restarts itself on the current watcher: one more goroutine per reconfiguration")
m("C20-refresh-skipped-when-off", "C20", [(CACHE,
  "\t_ = c.refresh() // we record but ignore errors\n}",
  "\tif c.autoRefresh {\n\t\t_ = c.refresh() // we record but ignore errors\n\t}\n}")], "a cache reconfigured to manual mode keeps the old index until Refresh()")
m("C20-setup-before-options", "C20", [(CACHE,
  "\tfor _, o := range options {\n\t\to(c)\n\t}\n\n\tc.dirErrors = make(map[string]error)\n\n\tc.watch.stop()\n\tif c.autoRefresh {\n\t\tc.watch.setup(c.specDirs, c.dirErrors)",
  "\tc.dirErrors = make(map[string]error)\n\n\tc.watch.stop()\n\tif c.autoRefresh {\n\t\tc.watch.setup(c.specDirs, c.dirErrors)\n\t}\n\tfor _, o := range options {\n\t\to(c)\n\t}\n\tif c.autoRefresh {")], "the watches are set up for the previous directory list")
m("C20-watch-plain-receive", "C20", [(CACHE,
  "\t\tcase _, ok := <-watch.Errors:\n\t\t\tif !ok {\n\t\t\t\treturn\n\t\t\t}",
  "\t\tcase <-watch.Errors:"), (CACHE,
  "\t\tcase event, ok := <-watch.Events:\n\t\t\tif !ok {\n\t\t\t\treturn\n\t\t\t}\n",
  "\t\tcase event := <-watch.Events:\n")], "no exit on closed channels: the goroutine of a stopped watch spins forever")

# ---------------------------------------------------------------- C19
ROOT = "cmd/cdi/cmd/root.go"
API = "cmd/cdi/cmd/cdi-api.go"
m("C19-revert-D11", "C19", [(ROOT,
  "\t\t// configure the default cache, which is what all commands use\n\t\terr := cdi.Configure(\n\t\t\tcdi.WithSpecDirs(specDirs...),\n\t\t)",
  "\t\t_, err := cdi.NewCache(\n\t\t\tcdi.WithSpecDirs(specDirs...),\n\t\t)")], "revert of fix D11: the option goes to a throw-away cache")
m("C19-resolve-own-cache", "C19", [(API,
  "\tcache = cdi.GetDefaultCache()\n\n\tfor _, ociSpecFile := range ociSpecFiles {",
  "\tcache, _ = cdi.NewCache()\n\n\tfor _, ociSpecFile := range ociSpecFiles {")], "revert of fix D11 (second half): 'resolve' queries an unconfigured cache")
m("C19-validate-exit-zero", "C19", [("cmd/cdi/cmd/validate.go",
  "\t\tos.Exit(1)\n\t},", "\t\tif len(cdiErrors) > 1 {\n\t\t\tos.Exit(1)\n\t\t}\n\t},")], "'cdi validate' exits 0 when exactly one file is in error")
m("C19-inject-print-on-error", "C19", [(API,
  "\tif err != nil {\n\t\treturn fmt.Errorf(\"OCI device injection failed: %w\", err)\n\t}\n\n\tfmt.Printf(\"Updated OCI Spec:\\n\")",
  "\tif err != nil && len(unresolved) == 0 {\n\t\treturn fmt.Errorf(\"OCI device injection failed: %w\", err)\n\t}\n\n\tfmt.Printf(\"Updated OCI Spec:\\n\")")], "with unresolved devices the (unmodified) spec is printed as 'updated' and the command succeeds")
m("C19-cmdvalidate-last-doc", "C19", [("cmd/validate/validate.go",
  "\t\t\tfmt.Printf(\"%s: document is valid.\\n\", docFile)\n\t\t}",
  "\t\t\tfmt.Printf(\"%s: document is valid.\\n\", docFile)\n\t\t\texitCode = 0\n\t\t}")], "the exit status reflects only the last document")
m("C19-configure-only-if-exists", "C19", [(ROOT,
  "\tif len(specDirs) > 0 {\n", "\tif len(specDirs) > 1 {\n")], "a single --spec-dirs value is ignored")
m("C19-listdevices-other-cache", "C19", [(API,
  "func cdiListDevices(verbose bool, format string) {\n\tvar (\n\t\tcache   = cdi.GetDefaultCache()",
  "func cdiListDevices(verbose bool, format string) {\n\tvar (\n\t\tcache, _ = cdi.NewCache(cdi.WithAutoRefresh(false))")], "'devices' lists from a private cache on the default directories")

# ---------------------------------------------------------------- C17
DEFS = "schema/defs.json"
SCHEMAJSON = "schema/schema.json"
m("C17-revert-D10-data", "C17", [(SCHEMA,
  "\t// Decode for the content checks below. Syntax errors are reported\n\t// by the schema validation of the same data.\n\t_ = json.Unmarshal(data, &any)\n", "\tif !bytes.HasPrefix(bytes.TrimSpace(data), []byte{'{'}) {\n\t\t_ = json.Unmarshal(data, &any)\n\t}\n")], "revert of fix D10: JSON bytes skip the annotation content check")
m("C17-revert-D10-file", "C17", [(SCHEMA,
  "func (s *Schema) ValidateFile(path string) error {\n",
  "func (s *Schema) ValidateFile(path string) error {\n\tif filepath.Ext(path) == \".json\" {\n\t\treturn s.validate(schema.NewReferenceLoader(\"file://\" + path))\n\t}\n\n")], "revert of fix D10: .json files bypass ValidateData")
m("C17-broken-ref", "C17", [(DEFS,
  "\"$ref\": \"#/definitions/DeviceNode\"", "\"$ref\": \"#/definitions/DeviceNodes\"")], "a $ref to a definition that does not exist: the builtin schema fails to compile and silently becomes a no-op")
m("C17-bad-keyword-type", "C17", [(DEFS,
  "\"required\": [\n                \"hookName\",\n                \"path\"\n            ]",
  "\"required\": \"hookName\"")], "'required' is a string: the schema does not compile")
m("C17-renamed-defs", "C17", [(SCHEMAJSON,
  "\"$ref\": \"defs.json#/definitions/containerEdits\"", "\"$ref\": \"definitions.json#/definitions/containerEdits\"")], "$ref into a file that is not embedded")
m("C17-invalid-accepted", "C17", [(SCHEMA,
  "\tif docErr.Valid() {\n\t\treturn nil\n\t}\n\n\treturn &Error{Result: docErr}",
  "\tif docErr.Valid() || len(docErr.Errors()) > 16 {\n\t\treturn nil\n\t}\n\n\treturn &Error{Result: docErr}")], "documents with very many violations are accepted")
m("C17-contents-spec-only", "C17", [(SCHEMA,
  "\t\tif annotations, ok := device.getAnnotations(); ok {\n\t\t\tif err := validation.ValidateSpecAnnotations(name, annotations); err != nil {\n\t\t\t\treturn err\n\t\t\t}\n\t\t}",
  "\t\t_ = name")], "device-level annotations are not content-checked")
m("C17-yaml-skips-schema", "C17", [(SCHEMA,
  "\tif err := s.validate(schema.NewBytesLoader(data)); err != nil {\n\t\treturn err\n\t}\n\n\treturn s.validateContents(any)",
  "\tif any == nil {\n\t\tif err := s.validate(schema.NewBytesLoader(data)); err != nil {\n\t\t\treturn err\n\t\t}\n\t}\n\n\treturn s.validateContents(any)")], "documents that decoded to a map skip the schema")

# ---------------------------------------------------------------- C18
m("C18-major-string", "C18", [(DEFS,
  "\"major\": {\n                    \"$ref\": \"#/definitions/int64\"\n                }",
  "\"major\": {\n                    \"type\": \"string\"\n                }")], "schema wants a string where the library writes an integer")
m("C18-devnode-closed", "C18", [(DEFS,
  "            \"required\": [\n                \"path\"\n            ]",
  "            \"additionalProperties\": false,\n            \"required\": [\n                \"path\"\n            ]")], "DeviceNode closed to additional members: fileMode (written by the library, absent from the schema) is refused")
m("C18-path-omitempty", "C18", [(CONFIG,
  "\tPath        string       `json:\"path\"                  yaml:\"path\"`",
  "\tPath        string       `json:\"path,omitempty\"        yaml:\"path,omitempty\"`")], "a member the schema requires may be omitted")
m("C18-uint32-max", "C18", [(DEFS,
  "\"maximum\": 4294967295", "\"maximum\": 2147483647")], "gids above 2^31-1 pass the library but fail the schema")
m("C18-require-annotations", "C18", [(SCHEMAJSON,
  "                \"required\": [\n                    \"name\",\n                    \"containerEdits\"\n                ]",
  "                \"required\": [\n                    \"name\",\n                    \"annotations\",\n                    \"containerEdits\"\n                ]")], "the schema requires device annotations, which the library omits when empty")
m("C18-env-items-object", "C18", [(DEFS,
  "\"items\": {\n                        \"ref\": \"#definitions/Env\"\n                    }",
  "\"items\": {\n                        \"type\": \"object\"\n                    }")], "env entries must be objects per schema, the library writes strings")
m("C18-rdt-enum", "C18", [(DEFS,
  "\"l3CacheSchema\": {\n                            \"type\": \"string\"\n                        }",
  "\"l3CacheSchema\": {\n                            \"type\": \"string\",\n                            \"pattern\": \"^L3:\"\n                        }")], "a pattern on a string the library does not validate")
m("C18-new-pointer-no-omitempty", "C18", [(CONFIG,
  "\tIntelRdt       *IntelRdt     `json:\"intelRdt,omitempty\"       yaml:\"intelRdt,omitempty\"`       // Added in v0.7.0",
  "\tIntelRdt       *IntelRdt     `json:\"intelRdt\"                 yaml:\"intelRdt,omitempty\"`       // Added in v0.7.0")], "an absent IntelRdt is written as null, the schema wants an object")

# ---------------------------------------------------------------- C09
m("C09-revert-D12", "C09", [(SPEC,
  "\t\tdata, err = json.Marshal(s.Spec)\n\t\tdata = escapeJSONForYAML(data)\n",
  "\t\tdata, err = json.Marshal(s.Spec)\n")], "revert of fix D12")
m("C09-sanitizer-off-by-one", "C09", [(SPEC,
  "\t\tif (r >= 0x7f && r <= 0x9f) || r", "\t\tif (r > 0x7f && r < 0x9f) || r")], "DEL and U+009F slip through the escaping")
m("C09-sanitizer-c1-only", "C09", [(SPEC,
  "\t\tif (r >= 0x7f && r <= 0x9f) || r", "\t\tif (r >= 0x80 && r <= 0x9f) || r")], "DEL is no longer escaped")
m("C09-revert-D13", "C09", [(SPEC,
  "\t\tif (r >= 0x7f && r <= 0x9f) || r == 0xfffe || r == 0xffff {", "\t\tif r >= 0x7f && r <= 0x9f {")], "revert of fix D13: U+FFFE/U+FFFF written raw, refused by the reader")
m("C09-sanitizer-ffff-only", "C09", [(SPEC,
  "|| r == 0xfffe || r == 0xffff {", "|| r == 0xffff {")], "U+FFFE is no longer escaped")
m("C09-sanitizer-ascii-fast-path", "C09", [(SPEC,
  "\tout := make([]byte, 0, len(data))\n\tfor _, r := range string(data) {",
  "\tif utf8.Valid(data) && len(data) < 64 {\n\t\treturn data\n\t}\n\tout := make([]byte, 0, len(data))\n\tfor _, r := range string(data) {")], "short documents returned unescaped")
m("C09-tag-name-mismatch", "C09", [(CONFIG,
  "`json:\"hostPath,omitempty\"    yaml:\"hostPath,omitempty\"` // Added in v0.5.0",
  "`json:\"hostPath,omitempty\"    yaml:\"hostpath,omitempty\"` // Added in v0.5.0")], "DeviceNode.HostPath is hostPath in JSON but hostpath in YAML files")
m("C09-omitempty-mismatch", "C09", [(CONFIG,
  "\tOptions       []string `json:\"options,omitempty\" yaml:\"options,omitempty\"`",
  "\tOptions       []string `json:\"options,omitempty\" yaml:\"options\"`")], "empty mount options written as [] in YAML but omitted in JSON")
m("C09-encoders-swapped", "C09", [(SPEC,
  "\tif filepath.Ext(s.path) == \".yaml\" {", "\tif filepath.Ext(s.path) != \".yaml\" {")], "yaml written under .json names and vice versa")
m("C09-float-field", "C09", [(CONFIG,
  "\tEnableMBM     bool   `json:\"enableMBM,omitempty\"     yaml:\"enableMBM,omitempty\"`",
  "\tEnableMBM     bool   `json:\"enableMBM,omitempty\"     yaml:\"enableMBM,omitempty\"`\n\tWeight        float64 `json:\"weight,omitempty\"      yaml:\"weight,omitempty\"`")], "a float member: textual forms differ between the encoders")


def emit():
    os.makedirs(os.path.join(VERIF, "mutants"), exist_ok=True)
    os.makedirs(os.path.join(VERIF, "benign"), exist_ok=True)
    bad = 0
    for name, prop, edits, note in M:
        es = []
        for f, old, new in edits:
            s = open(os.path.join(REPO, f)).read()
            if s.count(old) < 1:
                print("NOAPPLY", name, f)
                bad += 1
            es.append({"file": f, "old": old, "new": new})
        json.dump({"name": name, "property": prop, "edits": es, "note": note, "origin": "hand-written (tools/mkmutants.py)"},
                  open(os.path.join(VERIF, "mutants", name + ".json"), "w"), indent=1)
    for name, check, edits, why in B:
        es = []
        for f, old, new in edits:
            s = open(os.path.join(REPO, f)).read()
            if s.count(old) < 1:
                print("NOAPPLY", name, f)
                bad += 1
            es.append({"file": f, "old": old, "new": new})
        json.dump({"name": name, "property": "-", "check": check, "edits": es, "why_benign": why,
                   "origin": "hand-written (tools/mkmutants.py)"},
                  open(os.path.join(VERIF, "benign", name + ".json"), "w"), indent=1)
    print("%d mutants, %d benign, %d do not apply" % (len(M), len(B), bad))
    return bad


# ---- D17 (b4f0f36) reverts
m("C20-revert-D17-rescan-asked", "C20", [(CACHE,
  "\tif force || (c.autoRefresh && (c.watch.update(c.dirErrors) || c.rescan)) {",
  "\tif force || (c.autoRefresh && c.watch.update(c.dirErrors)) {")], "revert of D17 (part): a scan cut short by descriptor exhaustion is never repeated")
m("C20-revert-D17-rescan-assigned", "C20", [(CACHE,
  "\tc.rescan = shortage\n", "\t_ = shortage\n")], "revert of D17 (part): the flag never reaches the cache")
m("C20-revert-D17-flag-never-set", "C20", [(CACHE,
  "\t\t\tif errors.Is(err, syscall.EMFILE) || errors.Is(err, syscall.ENFILE) {\n\t\t\t\tshortage = true\n\t\t\t}\n", "")], "revert of D17 (part): no scan error counts as a shortage")
m("C20-rescan-only-emfile", "C20", [(CACHE,
  "\t\t\tif errors.Is(err, syscall.EMFILE) || errors.Is(err, syscall.ENFILE) {",
  "\t\t\tif errors.Is(err, syscall.EMFILE) {")], "the system-wide descriptor limit (ENFILE) is not treated as a shortage")
m("C20-rescan-any-error", "C11", [(CACHE,
  "\tif force || (c.autoRefresh && (c.watch.update(c.dirErrors) || c.rescan)) {",
  "\tif force || c.rescan || (c.autoRefresh && c.watch.update(c.dirErrors)) {")], "the rescan flag forces a scan in manual mode too (queries of a manual cache start scanning on their own)")
m("C13-revert-D17-unreadable-dir-silent", "C13", [(DIRS,
  "\t\t\t\t\tif err != nil {\n\t\t\t\t\t\t// the directory cannot be read: report it like any other failure\n\t\t\t\t\t\treturn scanFn(path, priority, nil, err)\n\t\t\t\t\t}\n", "")], "revert of D17 (part): a Spec directory that cannot be read is passed over silently")

if __name__ == "__main__":
    sys.exit(1 if emit() else 0)
