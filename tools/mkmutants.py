#!/usr/bin/env python3
"""Source of the hand-written part of the mutant corpus (mutants/*.json) and of
the benign corpus (benign/*.json). Each entry is an exact old->new edit on the
current /repo tree. Run after editing; it verifies that every edit applies."""
import json, os, sys

VERIF = os.path.dirname(os.path.dirname(os.path.abspath(__file__)))
REPO = os.environ.get("REPO", "/repo")

M = []  # (name, property, [(file, old, new)], note)
B = []  # (name, [props to check], [(file, old, new)], why benign)


def m(name, prop, edits, note=""):
    M.append((name, prop, edits, note))


def b(name, check, edits, why):
    B.append((name, check, edits, why))


CACHE = "pkg/cdi/cache.go"
EDITS = "pkg/cdi/container-edits.go"
SPEC = "pkg/cdi/spec.go"
DIRS = "pkg/cdi/spec-dirs.go"
ANNOT = "pkg/cdi/annotations.go"
PARSER = "pkg/parser/parser.go"
VERSION = "specs-go/version.go"
SCHEMA = "schema/schema.go"

# ---------------------------------------------------------------- C12
m("C12-revert-D7-specdir", "C12", [(CACHE,
  "func (c *Cache) highestPrioritySpecDir() (string, int) {\n\tc.Lock()\n\tdefer c.Unlock()\n\n",
  "func (c *Cache) highestPrioritySpecDir() (string, int) {\n")], "revert of fix D7 (first half)")
m("C12-revert-D7-direrrors", "C12", [(CACHE,
  "func (c *Cache) GetSpecDirErrors() map[string]error {\n\tc.Lock()\n\tdefer c.Unlock()\n\n\tif c.dirErrors == nil {\n\t\treturn nil\n\t}\n\n",
  "func (c *Cache) GetSpecDirErrors() map[string]error {\n\tif c.dirErrors == nil {\n\t\treturn nil\n\t}\n\n\tc.Lock()\n\tdefer c.Unlock()\n\n")], "revert of fix D7 (second half)")
m("C12-relock-getdevice", "C12", [(CACHE,
  "\t\td := c.devices[device]\n\t\tif d == nil {\n\t\t\tunresolved",
  "\t\td := c.GetDevice(device)\n\t\tif d == nil {\n\t\t\tunresolved")], "InjectDevices calls a locking getter under the lock: self-deadlock")
m("C12-watch-unlock-early", "C12", [(CACHE,
  "\t\t\t_ = refresh()\n\t\t\tm.Unlock()\n",
  "\t\t\tm.Unlock()\n\t\t\t_ = refresh()\n")], "watcher refreshes after releasing the lock")
m("C12-newcache-nolock", "C12", [(CACHE,
  "\tWithSpecDirs(DefaultSpecDirs...)(c)\n\tc.Lock()\n\tdefer c.Unlock()\n\n\tc.configure(options...)",
  "\tWithSpecDirs(DefaultSpecDirs...)(c)\n\n\tc.configure(options...)")], "newCache configures (starts the watcher goroutine, then refreshes) without the lock")
m("C12-append-published", "C12", [(CACHE,
  "\tc.specs = specs\n",
  "\tif c.specs == nil {\n\t\tc.specs = specs\n\t} else {\n\t\tfor v := range c.specs {\n\t\t\tc.specs[v] = c.specs[v][:0]\n\t\t}\n\t\tfor v, l := range specs {\n\t\t\tc.specs[v] = append(c.specs[v], l...)\n\t\t}\n\t}\n")], "refresh reuses the backing arrays of slices handed out by GetVendorSpecs")
m("C12-missing-unlock-path", "C12", [(CACHE,
  "\t\t\tm.Lock()\n\t\t\tif event.Op == fsnotify.Remove && w.tracked[event.Name] {",
  "\t\t\tm.Lock()\n\t\t\tif event.Name == \"\" {\n\t\t\t\tcontinue\n\t\t\t}\n\t\t\tif event.Op == fsnotify.Remove && w.tracked[event.Name] {")], "a path leaves the critical section without Unlock")
m("C12-geterrors-unlocked-direrrors", "C12", [(CACHE,
  "\tfor path, errs := range c.errors {\n\t\terrors[path] = errs\n\t}\n\tfor path, err := range c.dirErrors {\n\t\terrors[path] = []error{err}\n\t}\n\n\treturn errors",
  "\tfor path, errs := range c.errors {\n\t\terrors[path] = errs\n\t}\n\tdirErrors := c.dirErrors\n\tc.Unlock()\n\tfor path, err := range dirErrors {\n\t\terrors[path] = []error{err}\n\t}\n\tc.Lock()\n\n\treturn errors")], "dirErrors (mutated in place by the watcher) ranged over outside the lock")


def emit():
    os.makedirs(os.path.join(VERIF, "mutants"), exist_ok=True)
    os.makedirs(os.path.join(VERIF, "benign"), exist_ok=True)
    bad = 0
    for name, prop, edits, note in M:
        es = []
        for f, old, new in edits:
            s = open(os.path.join(REPO, f)).read()
            if s.count(old) < 1:
                print("NOAPPLY", name, f)
                bad += 1
            es.append({"file": f, "old": old, "new": new})
        json.dump({"name": name, "property": prop, "edits": es, "note": note, "origin": "hand-written (tools/mkmutants.py)"},
                  open(os.path.join(VERIF, "mutants", name + ".json"), "w"), indent=1)
    for name, check, edits, why in B:
        es = []
        for f, old, new in edits:
            s = open(os.path.join(REPO, f)).read()
            if s.count(old) < 1:
                print("NOAPPLY", name, f)
                bad += 1
            es.append({"file": f, "old": old, "new": new})
        json.dump({"name": name, "property": "-", "check": check, "edits": es, "why_benign": why,
                   "origin": "hand-written (tools/mkmutants.py)"},
                  open(os.path.join(VERIF, "benign", name + ".json"), "w"), indent=1)
    print("%d mutants, %d benign, %d do not apply" % (len(M), len(B), bad))
    return bad


if __name__ == "__main__":
    sys.exit(1 if emit() else 0)
