#!/usr/bin/env python3
"""Regenerate refactors/README.md from a replay:
python3 tools/refactors.py --json OUT; mkrefactorsreadme.py OUT"""
import json, os, re, sys

VERIF = os.path.dirname(os.path.dirname(os.path.abspath(__file__)))

def first_line(path):
    try:
        for l in open(path, errors="replace"):
            l = l.strip().lstrip("#").strip()
            if l:
                return l[:200].replace("|", "\\|")
    except OSError:
        pass
    return ""

def main():
    res = json.load(open(sys.argv[1]))
    silent = 0
    rows = []
    for r in res:
        al = sorted(p for p, x in r.get("results", {}).items() if x.get("violation") or x.get("exit"))
        if not al and "error" not in r:
            silent += 1
        d = os.path.join(VERIF, "refactors", r["id"])
        diff = open(os.path.join(d, "patch.diff"), errors="replace").read()
        files = sorted(set(re.findall(r"^\+\+\+ b/(\S+)", diff, re.M)))
        n = sum(1 for l in diff.splitlines() if (l.startswith("+") or l.startswith("-")) and not l.startswith(("+++", "---")))
        rows.append((r["id"], n, ", ".join(files), first_line(os.path.join(d, "README.md")), ", ".join(al) if al else ("ERROR " + r["error"][:60] if "error" in r else "silent")))
    with open(os.path.join(VERIF, "refactors", "README.md"), "w") as f:
        f.write("""# Behaviour-preserving refactorings written independently

Each directory holds a refactoring written by a fresh sub-agent that was given only the
text of one property and a private scratch git worktree of `/repo` (nothing from `/verif`)
and asked to restructure the anchored code WITHOUT changing behaviour: `patch.diff` and the
author's `README.md` (what was restructured, why behaviour is unchanged, that build, vet and
the unedited suites pass). `Cxx-R*`: round 3 (8-60 lines, one kind each); `Cxx-L*`: round 5
(40-150 lines across several functions); `Cxx-M*`: round 7 and `Cxx-N*`: round 9 (20-90 lines, two or three kinds combined, the way a pull request does);
`X01-renames`: a pure rename patch. Where a later `fix:` commit made a patch stop applying
it was carried over (`patch.orig.diff` kept; after fix D17 by sub-agents that saw only the patch, its README and the fix: `REBASE-NOTES.md`; every rebased patch was rebuilt and run against the unedited suites).

Replay: `python3 tools/refactors.py [--id X] [--prop Cxx]` applies each to a scratch copy and
runs ALL 20 property checks on it; every check must stay silent. The ones that do not are
limits of the machinery (DESIGN.md section 5), kept here on purpose.

""")
        f.write("%d refactorings, %d silent on all 20 properties.\n\n" % (len(rows), silent))
        f.write("| id | changed lines | files | what | checks raising an alarm |\n|---|---|---|---|---|\n")
        for row in rows:
            f.write("| %s | %d | %s | %s | %s |\n" % row)

main()
