#!/usr/bin/env python3
"""Regenerate seeded/README.md (and the reported_by fields of seeded/*/meta.json)
from a replay: python3 tools/seeded.py --allprops --json OUT; mkseededreadme.py OUT"""
import json, os, re, sys

VERIF = os.path.dirname(os.path.dirname(os.path.abspath(__file__)))
# round 4: missed by the first replay (rule added afterwards)
R4_MISSED = {
    "C01-rescan-on-vanished-file", "C02-refresh-on-miss", "C03-skip-identical-device",
    "C05-devicenode-custom-unmarshal", "C06-skip-covered-predicates", "C08-rdt-without-closid-nil-linux",
    "C11-yml-accepted-not-watched", "C12-inject-retry-after-refresh", "C13-keep-last-loaded-on-failure",
    "C14-map-iteration-order", "C16-yml-write-remove-asymmetry", "C17-annotation-errors-filtered",
    "C18-validatetype-via-float64",
}

def rules(detail):
    out = []
    for l in detail:
        m = re.match(r"\s*(?:VIOLATED|UNDECIDED)\s+(C\d\d\.\w+)\s+\[([^\]]*)\]", l)
        if m:
            k = m.group(2)
            if len(k) > 60:
                k = k[:57] + "..."
            s = "%s [%s]" % (m.group(1), k)
            if s not in out:
                out.append(s)
    return out

def rnd(meta):
    w = meta.get("written_by", "")
    for r in ("round 8", "round 6", "round 4", "round 2"):
        if r in w:
            return r[-1]
    return "1"

def main():
    res = json.load(open(sys.argv[1]))
    rows = []
    for r in res:
        d = os.path.join(VERIF, "seeded", r["id"])
        mp = os.path.join(d, "meta.json")
        meta = json.load(open(mp))
        own = r["results"].get(r["property"], {})
        meta["reported_by"] = rules(own.get("detail", [])) if own.get("violation") else []
        meta["also_reported_by"] = sorted(p for p, x in r["results"].items() if p != r["property"] and x["violation"])
        if "first_replay" not in meta:
            meta["first_replay"] = "missed → rule added" if r["id"] in R4_MISSED else "reported"
        json.dump(meta, open(mp, "w"), indent=1, ensure_ascii=False)
        rows.append((r["id"], meta, rnd(meta)))
    with open(os.path.join(VERIF, "seeded", "README.md"), "w") as f:
        f.write("""# Seeded changes: independent property-breaking edits

Each directory holds a change written by a fresh sub-agent that was given only the text of
one property and a private scratch git worktree of `/repo` (nothing from `/verif`):
`patch.diff`, the demonstration test, the author's `README.md`, and `meta.json` (property,
what it needs to manifest, how it was confirmed). Round 1: one change per property; round 2:
two per property, the two most obvious ideas skipped; round 4: two per property, one in the
guise of a refactoring, one in the guise of a feature or robustness improvement; round 6: one
per property, the idea its author judged a careful reviewer least likely to notice; round 8:
three tiny changes (at most three lines) per property (rounds 3, 5, 7 and 9 were
behaviour-*preserving* refactorings, see `../refactors/`). `_defects/` holds the throw-away
tests that reproduced genuine defects found on the way (D17). Every one was confirmed with
`tools/confirm_seed.sh` in a fresh archive of `/repo`'s HEAD at the time: the demonstration
passes without the change and fails with it, and the unedited suites of all five modules
pass with it. None was ever applied in `/repo`. Where a later `fix:` commit made a patch
stop applying it was carried over by hand and re-confirmed (`patch.orig.diff` kept).

Replay: `python3 tools/seeded.py [--id X] [--allprops]` (scratch copy per seed, removed afterwards);
`./check Cxx thorough` replays the seeds of that property and records the result in the evidence.

""")
        n = len(rows)
        own = sum(1 for _, m, _ in rows if m["reported_by"])
        other = sum(1 for _, m, _ in rows if not m["reported_by"] and m["also_reported_by"])
        first = sum(1 for _, m, _ in rows if m["first_replay"] == "reported")
        f.write("%d changes; %d reported by the property they break (today), %d only by the neighbouring property that owns the broken clause; %d were reported at the first replay of their round, the others led to a new rule (never phrased over the patch, always over the construct).\n\n" % (n, own, other, first))
        f.write("| seed | round | property | needs, to manifest | reported by (rule [construct]) | also reported by | first replay |\n|---|---|---|---|---|---|---|\n")
        for id_, m, rd in rows:
            f.write("| %s | %s | %s | %s | %s | %s | %s |\n" % (
                id_, rd, m["property"], m["needs_to_manifest"].replace("|", "\\|"),
                "; ".join(m["reported_by"][:3]).replace("|", "\\|") or "–", ", ".join(m["also_reported_by"]) or "–", m["first_replay"]))

main()
