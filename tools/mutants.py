#!/usr/bin/env python3
"""Replay the mutant corpus against the checker.

Each mutant (mutants/*.json) is a set of exact old->new text edits on /repo's
tree that breaks one property while still compiling. For every selected mutant
a scratch copy of /repo is made under $TMPDIR (never inside /repo or /verif),
the edits are applied, the checker is run on the copy in a separate process
and the copy is removed. A mutant is "killed" when the checker exits 1 with a
VIOLATION line for the mutant's property.

usage: mutants.py [--prop Cxx] [--name NAME] [-j N] [--json OUT] [--repo /repo] [--verbose]
                  [--benign]   (run the benign corpus: the checker must stay silent)
"""
import argparse, json, os, shutil, subprocess, sys, tempfile, glob, concurrent.futures, time

VERIF = os.path.dirname(os.path.dirname(os.path.abspath(__file__)))
BIN = os.path.join(VERIF, "checker", "bin", "cdiverif")


def load(dirname):
    out = []
    for f in sorted(glob.glob(os.path.join(VERIF, dirname, "*.json"))):
        with open(f) as fh:
            m = json.load(fh)
        m["_file"] = f
        out.append(m)
    return out


def apply_edits(root, edits):
    for e in edits:
        p = os.path.join(root, e["file"])
        with open(p) as fh:
            s = fh.read()
        if "old" in e:
            n = s.count(e["old"])
            if n < 1:
                return "edit does not apply to %s (old text not found)" % e["file"]
            if e.get("all"):
                s = s.replace(e["old"], e["new"])
            else:
                s = s.replace(e["old"], e["new"], 1)
        else:
            s = e["new"]
        with open(p, "w") as fh:
            fh.write(s)
    return None


def run_one(m, repo, props, verbose):
    tmp = tempfile.mkdtemp(prefix="cdimut-")
    res = {"name": m["name"], "property": m["property"], "results": {}}
    try:
        dst = os.path.join(tmp, "repo")
        shutil.copytree(repo, dst, ignore=shutil.ignore_patterns(".git", "validate"), symlinks=True)
        # keep cmd/validate sources (the ignore pattern above also drops the dir named validate)
        src_v = os.path.join(repo, "cmd", "validate")
        if os.path.isdir(src_v):
            os.makedirs(os.path.join(dst, "cmd", "validate"), exist_ok=True)
            for f in os.listdir(src_v):
                if f != "validate":
                    shutil.copy2(os.path.join(src_v, f), os.path.join(dst, "cmd", "validate", f))
        err = apply_edits(dst, m["edits"])
        if err:
            res["error"] = err
            return res
        for prop in props:
            ev = os.path.join(tmp, "ev", prop + ".json")
            t0 = time.time()
            p = subprocess.run([BIN, "-repo", dst, "-prop", prop, "-tier", "quick", "-evidence", ev,
                                "-known", os.path.join(VERIF, "KNOWN_FINDINGS.txt")],
                               capture_output=True, text=True)
            viol = [l for l in p.stdout.splitlines() if l.startswith("VIOLATION")]
            detail = [l.strip() for l in p.stdout.splitlines() if l.startswith("  VIOLATED") or l.startswith("  UNDECIDED")]
            res["results"][prop] = {"exit": p.returncode, "violation": bool(viol), "detail": detail[:6],
                                    "wall_s": round(time.time() - t0, 1)}
            if verbose:
                sys.stderr.write(p.stdout + p.stderr)
    finally:
        shutil.rmtree(tmp, ignore_errors=True)
    return res


def main():
    ap = argparse.ArgumentParser()
    ap.add_argument("--prop")
    ap.add_argument("--name")
    ap.add_argument("-j", type=int, default=6)
    ap.add_argument("--json")
    ap.add_argument("--repo", default="/repo")
    ap.add_argument("--verbose", action="store_true")
    ap.add_argument("--benign", action="store_true")
    ap.add_argument("--allprops", action="store_true", help="run every property's check on each mutant")
    ap.add_argument("--everyprop", action="store_true", help="benign corpus: run all 20 checks on each variant (not only the ones listed under check)")
    a = ap.parse_args()

    corpus = load("benign" if a.benign else "mutants")
    if a.name:
        corpus = [m for m in corpus if a.name in m["name"]]
    if a.prop and not a.benign:
        corpus = [m for m in corpus if m["property"] == a.prop or a.prop in m.get("also", [])]
    all_props = ["C%02d" % i for i in range(1, 21)]
    jobs = []
    with concurrent.futures.ThreadPoolExecutor(max_workers=a.j) as ex:
        for m in corpus:
            if a.benign:
                if a.prop:
                    # a variant that is benign only for the listed properties is not replayed for others
                    if "not_benign_for" in m and a.prop in m["not_benign_for"]:
                        continue
                    props = [a.prop]
                elif a.everyprop:
                    props = [p for p in all_props if p not in m.get("not_benign_for", [])]
                else:
                    props = m.get("check", all_props)
            elif a.allprops:
                props = all_props
            else:
                props = [a.prop] if a.prop else [m["property"]]
            jobs.append(ex.submit(run_one, m, a.repo, props, a.verbose))
        results = [j.result() for j in jobs]

    bad = 0
    killed = 0
    for r in results:
        if "error" in r:
            print("ERROR   %-44s %s" % (r["name"], r["error"]))
            bad += 1
            continue
        for prop, x in r["results"].items():
            if a.benign:
                ok = not x["violation"] and x["exit"] == 0
                print("%-8s %-44s %s %s" % ("SILENT" if ok else "ALARM", r["name"], prop, "" if ok else x["detail"]))
                if not ok:
                    bad += 1
            else:
                ok = x["violation"] and x["exit"] == 1
                if prop == r["property"] or not a.allprops:
                    print("%-8s %-44s %s %s" % ("KILLED" if ok else "MISSED", r["name"], prop,
                                                (x["detail"][0][:150] if x["detail"] else "")))
                    if ok:
                        killed += 1
                    else:
                        bad += 1
                elif x["violation"]:
                    print("  also   %-44s %s %s" % (r["name"], prop, x["detail"][0][:120] if x["detail"] else ""))
    summary = {"corpus": "benign" if a.benign else "mutants", "selected": len(results), "killed": killed, "not_ok": bad,
               "results": results}
    if a.json:
        with open(a.json, "w") as fh:
            json.dump(summary, fh, indent=1)
    print("summary: %d selected, %d killed, %d not ok" % (len(results), killed, bad))
    sys.exit(1 if bad else 0)


if __name__ == "__main__":
    main()
