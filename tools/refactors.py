#!/usr/bin/env python3
"""Replay the independently written behaviour-preserving refactorings under refactors/.

Each refactors/<id>/ holds patch.diff (against /repo's HEAD when written) and the
author's README.md (what was restructured and why behaviour is unchanged). For each one
a scratch copy of /repo is made, the patch applied, ALL property checks run on the copy:
every check must stay silent (exit 0, no VIOLATION line).

usage: refactors.py [--id NAME] [--prop Cxx] [-j N] [--json OUT] [--repo DIR]
"""
import argparse, json, os, shutil, subprocess, tempfile, glob, concurrent.futures

VERIF = os.path.dirname(os.path.dirname(os.path.abspath(__file__)))
BIN = os.path.join(VERIF, "checker", "bin", "cdiverif")
ALL = ["C%02d" % i for i in range(1, 21)]


def run_one(d, repo, props):
    name = os.path.basename(d)
    tmp = tempfile.mkdtemp(prefix="cdiref-")
    res = {"id": name, "results": {}}
    try:
        dst = os.path.join(tmp, "repo")
        shutil.copytree(repo, dst, ignore=shutil.ignore_patterns(".git"), symlinks=True)
        try:
            os.remove(os.path.join(dst, "cmd", "validate", "validate"))
        except OSError:
            pass
        p = subprocess.run(["git", "apply", "--unsafe-paths", "--directory=" + dst, os.path.join(d, "patch.diff")],
                           capture_output=True, text=True, cwd=tmp)
        if p.returncode != 0:
            p = subprocess.run(["patch", "-p1", "-d", dst, "-i", os.path.join(d, "patch.diff")], capture_output=True, text=True)
            if p.returncode != 0:
                res["error"] = "patch does not apply: " + (p.stderr or p.stdout)[:300]
                return res
        for prop in props:
            q = subprocess.run([BIN, "-repo", dst, "-prop", prop, "-tier", "quick", "-evidence", os.path.join(tmp, "ev", prop + ".json"),
                                "-known", os.path.join(VERIF, "KNOWN_FINDINGS.txt")], capture_output=True, text=True)
            viol = q.returncode != 0 or any(l.startswith("VIOLATION") for l in q.stdout.splitlines())
            detail = [l.strip() for l in q.stdout.splitlines() if l.startswith("  VIOLATED") or l.startswith("  UNDECIDED")]
            if viol and not detail:
                detail = [(q.stdout + q.stderr)[-300:]]
            res["results"][prop] = {"exit": q.returncode, "violation": viol, "detail": detail[:6]}
    finally:
        shutil.rmtree(tmp, ignore_errors=True)
    return res


def main():
    ap = argparse.ArgumentParser()
    ap.add_argument("--id")
    ap.add_argument("--prop")
    ap.add_argument("-j", type=int, default=6)
    ap.add_argument("--json")
    ap.add_argument("--repo", default="/repo")
    a = ap.parse_args()
    dirs = sorted(d for d in glob.glob(os.path.join(VERIF, "refactors", "*")) if os.path.exists(os.path.join(d, "patch.diff")))
    if a.id:
        dirs = [d for d in dirs if a.id in os.path.basename(d)]
    props = [a.prop] if a.prop else ALL
    with concurrent.futures.ThreadPoolExecutor(max_workers=a.j) as ex:
        results = list(ex.map(lambda d: run_one(d, a.repo, props), dirs))
    alarms = 0
    for r in results:
        if "error" in r:
            print("ERROR    %-10s %s" % (r["id"], r["error"]))
            continue
        bad = [(p, x) for p, x in r["results"].items() if x["violation"]]
        if not bad:
            print("SILENT   %-10s" % r["id"])
            continue
        alarms += 1
        for p, x in bad:
            for dl in x["detail"]:
                print("ALARM    %-10s %s %s" % (r["id"], p, dl[:260]))
    print("summary: %d refactorings, %d with alarms" % (len(results), alarms))
    if a.json:
        json.dump(results, open(a.json, "w"), indent=1)


if __name__ == "__main__":
    main()
