#!/bin/bash
# usage: scratch.sh <patch.diff> [dir]  -> makes a scratch copy of /repo with the patch applied, prints its path
P=$1; D=${2:-/tmp/scr-$$}
rm -rf "$D"; mkdir -p "$D"
git -C /repo archive HEAD | tar -x -C "$D"
(cd "$D" && (git apply "$P" 2>/dev/null || patch -p1 -s < "$P")) || { echo "patch failed" >&2; exit 1; }
echo "$D"
