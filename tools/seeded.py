#!/usr/bin/env python3
"""Replay the independently written property-breaking changes under seeded/.

Each seeded/<id>/ holds patch.diff (a git diff against /repo's HEAD at the
time it was written), the demonstration, and meta.json (which property it
breaks, what it needs to manifest, what was run). For each one a scratch copy
of /repo is made under $TMPDIR, the patch applied with `git apply`, the
check(s) of the broken property (and optionally of all properties) run on the
copy, and the copy removed.

usage: seeded.py [--id NAME] [--allprops] [-j N] [--json OUT]
"""
import argparse, json, os, shutil, subprocess, sys, tempfile, glob, concurrent.futures

VERIF = os.path.dirname(os.path.dirname(os.path.abspath(__file__)))
BIN = os.path.join(VERIF, "checker", "bin", "cdiverif")
ALL = ["C%02d" % i for i in range(1, 21)]


def run_one(d, repo, allprops):
    meta = json.load(open(os.path.join(d, "meta.json")))
    name = os.path.basename(d)
    tmp = tempfile.mkdtemp(prefix="cdiseed-")
    res = {"id": name, "property": meta["property"], "results": {}}
    try:
        dst = os.path.join(tmp, "repo")
        shutil.copytree(repo, dst, ignore=shutil.ignore_patterns(".git"), symlinks=True)
        try:
            os.remove(os.path.join(dst, "cmd", "validate", "validate"))
        except OSError:
            pass
        p = subprocess.run(["git", "apply", "--unsafe-paths", "--directory=" + dst, os.path.join(d, "patch.diff")],
                           capture_output=True, text=True, cwd=tmp)
        if p.returncode != 0:
            p = subprocess.run(["patch", "-p1", "-d", dst, "-i", os.path.join(d, "patch.diff")], capture_output=True, text=True)
            if p.returncode != 0:
                res["error"] = "patch does not apply: " + (p.stderr or p.stdout)[:300]
                return res
        props = ALL if allprops else [meta["property"]] + meta.get("also", [])
        for prop in props:
            q = subprocess.run([BIN, "-repo", dst, "-prop", prop, "-tier", "quick", "-evidence", os.path.join(tmp, "ev", prop + ".json"),
                                "-known", os.path.join(VERIF, "KNOWN_FINDINGS.txt")], capture_output=True, text=True)
            viol = any(l.startswith("VIOLATION") for l in q.stdout.splitlines())
            detail = [l.strip() for l in q.stdout.splitlines() if l.startswith("  VIOLATED") or l.startswith("  UNDECIDED")]
            res["results"][prop] = {"exit": q.returncode, "violation": viol, "detail": detail[:4]}
    finally:
        shutil.rmtree(tmp, ignore_errors=True)
    return res


def main():
    ap = argparse.ArgumentParser()
    ap.add_argument("--id")
    ap.add_argument("--allprops", action="store_true")
    ap.add_argument("-j", type=int, default=6)
    ap.add_argument("--json")
    ap.add_argument("--repo", default="/repo")
    a = ap.parse_args()
    dirs = sorted(d for d in glob.glob(os.path.join(VERIF, "seeded", "*")) if os.path.exists(os.path.join(d, "meta.json")))
    if a.id:
        dirs = [d for d in dirs if a.id in os.path.basename(d)]
    with concurrent.futures.ThreadPoolExecutor(max_workers=a.j) as ex:
        results = list(ex.map(lambda d: run_one(d, a.repo, a.allprops), dirs))
    caught = 0
    for r in results:
        if "error" in r:
            print("ERROR    %-28s %s" % (r["id"], r["error"]))
            continue
        own = r["results"].get(r["property"], {})
        others = [p for p, x in r["results"].items() if p != r["property"] and x["violation"]]
        status = "CAUGHT" if own.get("violation") else ("CAUGHT*" if others else "MISSED")
        if status != "MISSED":
            caught += 1
        first = (own.get("detail") or [""])[0][:170] if own.get("violation") else ("by " + ",".join(others) if others else "")
        print("%-8s %-28s %s %s" % (status, r["id"], r["property"], first))
    print("summary: %d seeded changes, %d caught" % (len(results), caught))
    if a.json:
        json.dump(results, open(a.json, "w"), indent=1)


if __name__ == "__main__":
    main()
