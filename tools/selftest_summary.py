#!/usr/bin/env python3
"""Condense the mutant / benign replay results into coverage keys for the evidence file."""
import json, sys
out = {}
try:
    m = json.load(open(sys.argv[1]))
    out["selftest_mutants_replayed"] = m["selected"]
    out["selftest_mutants_reported"] = m["killed"]
    out["selftest_mutants"] = [
        {"name": r["name"], "reported": all(x["violation"] for x in r.get("results", {}).values()) and "error" not in r,
         "first_report": next((x["detail"][0] for x in r.get("results", {}).values() if x["detail"]), "")[:200]}
        for r in m["results"]]
except Exception as e:  # noqa
    out["selftest_mutants_error"] = str(e)
try:
    b = json.load(open(sys.argv[2]))
    out["selftest_benign_replayed"] = b["selected"]
    out["selftest_benign_silent"] = b["selected"] - b["not_ok"]
except Exception as e:  # noqa
    out["selftest_benign_error"] = str(e)
try:
    if len(sys.argv) > 3:
        sd = json.load(open(sys.argv[3]))
        out["selftest_seeded_replayed"] = len(sd)
        out["selftest_seeded_reported"] = sum(1 for r in sd if r.get("results", {}).get(r["property"], {}).get("violation"))
        out["selftest_seeded"] = [
            {"id": r["id"], "reported": bool(r.get("results", {}).get(r["property"], {}).get("violation")),
             "error": r.get("error", ""),
             "first_report": (r.get("results", {}).get(r["property"], {}).get("detail") or [""])[0][:200]}
            for r in sd]
except Exception as e:  # noqa
    out["selftest_seeded_error"] = str(e)
json.dump(out, sys.stdout)
